"""Checks C01, C02, C09: proofs about the prefix-table model + correspondence with trie.c / trie-pfx.c."""
import os
import sys

sys.path.insert(0, os.path.dirname(os.path.abspath(__file__)))
import vlib
import pfxgen
from pfxgen import Universe, SetSpec, fmt_rec_args, parse_rec_str, rec_str, hexaddr, W

PROPS = {
    "C01": {
        "modules": ["RtrProps.C01", "RtrProps.C01b"],
        "theorems": ["Rtr.C01.validate_state", "Rtr.C01.validate_state_table", "Rtr.C01.validate_reasons",
                     "Rtr.C01.wf_reachable", "Rtr.C01.depth_le_len", "Rtr.C01.validate_defined",
                     "Rtr.C01.bits_link4", "Rtr.C01.bits_cover4", "Rtr.C01.bits_link6", "Rtr.C01.bits_cover6"],
    },
    "C02": {
        "modules": ["RtrProps.C02"],
        "theorems": ["Rtr.C02.add_refines", "Rtr.C02.remove_refines", "Rtr.C02.srcRemove_refines",
                     "Rtr.C02.forEach_enumerates", "Rtr.C02.history_refines"],
    },
    "C09": {
        "modules": ["RtrProps.C09", "RtrProps.C09b"],
        "theorems": ["Rtr.C09.log_replays", "Rtr.C09.log_exact", "Rtr.C09.step_logOK", "Rtr.C09.free_log",
                     "Rtr.C09.notifyDiff_net", "Rtr.C09.notifyDiff_logOK", "Rtr.C09.reload_log_replays",
                     "Rtr.C09.log_replays_reload"],
    },
}


class Case:
    """one history: op lines + per-line tags used by the oracles"""

    def __init__(self, hid):
        self.hid = hid
        self.ops = []
        self.tags = []

    def emit(self, line, tag):
        self.ops.append(line)
        self.tags.append(tag)


def gen_history(r, hid, nops, nq, observe_every, deep=False, reload=False):
    c = Case(hid)
    u = Universe(r, deep=deep)
    c.emit("new 0", ("new",))
    stored = []
    k = 0

    def observe():
        c.emit("dump 0", ("dump",))
        c.emit("shape 0", ("shape",))
        c.emit("log 0", ("log",))
    for i in range(nops):
        x = r.random()
        if x < 0.55 or not stored:
            rec = u.rec(r)
            c.emit("add 0 " + fmt_rec_args(rec), ("add", rec))
            stored.append(rec)
        elif x < 0.62:
            rec = r.choice(stored)
            c.emit("add 0 " + fmt_rec_args(rec), ("add", rec))          # likely duplicate
        elif x < 0.85:
            rec = r.choice(stored)
            c.emit("rm 0 " + fmt_rec_args(rec), ("rm", rec))
        elif x < 0.92:
            rec = u.rec(r)
            c.emit("rm 0 " + fmt_rec_args(rec), ("rm", rec))            # likely unknown
        elif x < 0.97:
            s = r.choice(pfxgen.SRCS)
            c.emit("srcrm 0 %d" % s, ("srcrm", s))
        else:
            # a query in the middle of the history
            q = u.query(r, stored)
            c.emit("val 0 %d %s %d %d" % (q[0], hexaddr(q[0], q[1]), q[2], q[3]), ("val", q))
        k += 1
        if k % observe_every == 0:
            observe()
    if reload:
        # what rtr_sync does for a full reload of source s: shadow copy, fill, swap, notify_diff, discard
        s = r.choice(pfxgen.SRCS)
        c.emit("newnocb 1", ("new1",))
        c.emit("copyx 0 1 %d" % s, ("copyx", s))
        for _ in range(r.randrange(0, 10)):
            rec = u.rec(r)
            rec = rec[:5] + (s,)
            if r.random() < 0.4 and stored:
                old = r.choice(stored)
                rec = old[:5] + (s,)
            c.emit("add 1 " + fmt_rec_args(rec), ("add1", rec))
        c.emit("swap 0 1", ("swap",))
        c.emit("diff 0 1 %d" % s, ("diff", s))
        c.emit("free 1", ("free1",))
        observe()
    observe()
    for _ in range(nq):
        q = u.query(r, stored)
        c.emit("val 0 %d %s %d %d" % (q[0], hexaddr(q[0], q[1]), q[2], q[3]), ("val", q))
    c.emit("free 0", ("free",))
    c.emit("log 0", ("log",))
    c.emit("dump 0", ("dump",))
    return c


def gen_bits(r, n):
    c = Case("bits")
    for _ in range(n):
        v = r.getrandbits(32)
        if r.random() < 0.2:
            v = r.choice([0, 0xffffffff, 0x80000000, 1])
        f = r.choice([0, 0, 1, 7, 31, r.randrange(32)])
        q = r.choice([1, 1, 32, 8, r.randrange(1, 33)])
        c.emit("bits4 %08x %d %d" % (v, f, q), ("bits",))
    for _ in range(n):
        v = r.getrandbits(128)
        if r.random() < 0.3:
            lvl = r.randrange(128)
            c.emit("bits6 %032x %d 1" % (v, lvl), ("bits",))
        else:
            q = r.choice([1, 32, 33, 64, 65, 96, 97, 127, 128, r.randrange(1, 129)])
            c.emit("bits6 %032x 0 %d" % (v, q), ("bits",))
    for _ in range(n):
        for v in (4, 6):
            w = W(v)
            a = r.getrandbits(w)
            lvl = r.choice([0, w - 1, r.randrange(w)])
            c.emit("left %d %s %d" % (v, hexaddr(v, a), lvl), ("bits",))
            ln = r.choice([1, w, r.randrange(1, w + 1)])
            b = a if r.random() < 0.5 else a ^ (1 << r.randrange(w))
            c.emit("cov %d %s %d %s" % (v, hexaddr(v, a), ln, hexaddr(v, b)), ("bits",))
    return c


def oracle(case, out, props):
    """evaluate the properties' statements on the implementation's own observations.
    returns list of (prop, line index, message)"""
    fails = []
    spec = SetSpec()
    contents = set()           # last enumerated contents of table 0 (impl)
    have_dump = False
    replayed = set()           # C09: replay of the callback stream
    dirty = False              # table mutated since last dump
    skip_set = False           # after a reload the set spec is re-based on the dump
    for i, (tag, line) in enumerate(zip(case.tags, out)):
        kind = tag[0]
        if kind in ("add", "rm"):
            rec = tag[1]
            exp = spec.add(rec) if kind == "add" else spec.rm(rec)
            if line != str(exp):
                fails.append(("C02", i, "%s of %s returned %s, set semantics says %s" % (kind, rec_str(rec), line, exp)))
            dirty = True
        elif kind == "srcrm":
            spec.srcrm(tag[1])
            if line != "0":
                fails.append(("C02", i, "srcrm returned %s" % line))
            dirty = True
        elif kind in ("copyx", "add1", "swap", "diff", "free1", "new1"):
            if kind == "swap":
                skip_set = True
            dirty = True
        elif kind == "dump":
            toks = line.split()[1:]
            recs = [parse_rec_str(t) for t in toks]
            if len(set(recs)) != len(recs):
                fails.append(("C02", i, "enumeration yields a record twice"))
            contents = set(recs)
            have_dump = True
            dirty = False
            if skip_set:
                spec.s = set(contents)      # re-base after the reload (its net effect is judged by C09 / C03)
                skip_set = False
            elif contents != spec.s:
                missing = spec.s - contents
                extra = contents - spec.s
                fails.append(("C02", i, "contents differ from the mathematical set: missing %s extra %s" % (
                    [rec_str(x) for x in sorted(missing)][:4], [rec_str(x) for x in sorted(extra)][:4])))
                spec.s = set(contents)
        elif kind == "log":
            for t in line.split()[1:]:
                rec = parse_rec_str(t[1:])
                if t[0] == "+":
                    if rec in replayed:
                        fails.append(("C09", i, "callback reports addition of a record that was already reported present: " + t))
                    replayed.add(rec)
                else:
                    if rec not in replayed:
                        fails.append(("C09", i, "callback reports removal of a record not reported present: " + t))
                    replayed.discard(rec)
            # the preceding dump (same observation point) must equal the replay
            if have_dump and not dirty and replayed != contents:
                fails.append(("C09", i, "replayed callback stream differs from table contents: only-in-replay %s only-in-table %s" % (
                    [rec_str(x) for x in sorted(replayed - contents)][:4], [rec_str(x) for x in sorted(contents - replayed)][:4])))
                replayed = set(contents)
        elif kind == "free":
            dirty = True
            spec.s = set()
        elif kind == "val":
            v, q, n, asn = tag[1]
            toks = line.split()
            if not toks or toks[0] not in ("VALID", "INVALID", "NOTFOUND"):
                fails.append(("C01", i, "validation did not answer: " + line))
                continue
            reasons = [parse_rec_str(t) for t in toks[1:]]
            msg = pfxgen.check_validation(spec.s, v, q, n, asn, toks[0], reasons)
            if msg:
                fails.append(("C01", i, "query %d:%s/%d AS%d: %s" % (v, hexaddr(v, q), n, asn, msg)))
    return fails


def run(pid, tier):
    rep = vlib.Report(pid, tier)
    P = PROPS[pid]
    cb_handle = None
    if pid == "C01":
        import cbmccheck
        cb_handle = cbmccheck.start(["getbits"])      # symbolic tie of lrtr_get_bits / lrtr_ipv6_get_bits to the bit-field specification
    proved = vlib.prove(rep, P["modules"], P["theorems"], extra_targets=["pfxdriver"])
    import cfuncheck
    if pid in cfuncheck.LINKS and pid in cfuncheck.ENABLED:
        cfuncheck.link(rep, pid)     # translation tie: the C text of the small functions = the model, for every input
    if pid in ("C01", "C02", "C09", "C10", "C03"):
        import lockcheck
        lockcheck.gate(rep, pid)     # the sequential theorems are claimed for shared tables: one critical section per call
    drv = vlib.driver_path("pfxdriver")
    if not os.path.exists(drv):
        ok, log = vlib.lake_build(["pfxdriver"])
        if not ok:
            rep.build_log = log
    exe, blog = vlib.build_harness("pfx", ["pfx_harness.c"])
    if exe is None:
        rep.build_log = blog
        vlib.proof_failure(rep, "harness build against /repo failed (correspondence pfx)")
        return rep.finish()

    r = vlib.rng(pid)
    cases = []
    nh = {"quick": 1500, "thorough": 20000}[tier]
    # corpus first
    cdir = os.path.join(vlib.VERIF, "corpus", "pfx")
    corpus = []
    if os.path.isdir(cdir):
        for f in sorted(os.listdir(cdir)):
            if f.endswith(".ops"):
                c = Case("corpus:" + f)
                for line in open(os.path.join(cdir, f)):
                    line = line.strip()
                    if not line or line.startswith("#"):
                        continue
                    c.emit(line, tag_of(line))
                corpus.append(c)
    cases.extend(corpus)
    for h in range(nh):
        x = r.random()
        if x < 0.5:
            cases.append(gen_history(r, h, r.randrange(3, 25), r.randrange(5, 30), 1, reload=(r.random() < 0.3)))
        elif x < 0.9:
            cases.append(gen_history(r, h, r.randrange(20, 80), r.randrange(10, 40), r.choice([1, 3, 7]), reload=(r.random() < 0.3)))
        else:
            cases.append(gen_history(r, h, r.randrange(60, 200), r.randrange(20, 60), 10, deep=True))
    cases.append(gen_bits(r, 300 if tier == "quick" else 5000))

    stats = {"histories": len(cases), "ops": 0, "rc": {}, "states": {}, "max_depth4": 0, "max_depth6": 0,
             "reloads": 0, "corpus": len(corpus)}
    distinct = set()
    divergences = []
    oracle_fails = []
    crashes = []

    # run in batches so that a crash only loses one batch
    B = 50
    for b0 in range(0, len(cases), B):
        batch = cases[b0:b0 + B]
        ops = [l for c in batch for l in c.ops]
        impl, rc, err = vlib.run_lines(exe, ops)
        model, mrc, merr = vlib.run_lines(drv, ops)
        if mrc != 0:
            rep.build_log = "model driver failed: rc=%s %s" % (mrc, merr[-500:])
            vlib.proof_failure(rep, "model driver crashed on batch %d" % b0)
            return rep.finish()
        if rc != 0 or len(impl) != len(ops):
            # locate the history that crashes by running them singly
            for c in batch:
                o1, rc1, err1 = vlib.run_lines(exe, c.ops)
                if rc1 != 0 or len(o1) != len(c.ops):
                    crashes.append((c, len(o1), rc1, err1))
                    break
            continue
        pos = 0
        for c in batch:
            n = len(c.ops)
            io, mo = impl[pos:pos + n], model[pos:pos + n]
            pos += n
            stats["ops"] += n
            d = vlib.first_divergence(io, mo)
            if d is not None:
                divergences.append((c, d, io[d] if d < len(io) else "<eof>", mo[d] if d < len(mo) else "<eof>"))
            for f in oracle(c, io, pid):
                oracle_fails.append((c, f))
            for tag, line in zip(c.tags, io):
                if tag[0] in ("add", "rm"):
                    stats["rc"][tag[0] + line] = stats["rc"].get(tag[0] + line, 0) + 1
                elif tag[0] == "val":
                    st = line.split()[0] if line.split() else "?"
                    stats["states"][st] = stats["states"].get(st, 0) + 1
                    distinct.add((tag[1], line))
                elif tag[0] == "shape":
                    distinct.add(line)
                    for part, key in ((line.split(" shape6")[0], "max_depth4"), (line.split(" shape6")[-1], "max_depth6")):
                        for m in part.split("(")[1:]:
                            try:
                                dpt = int(m.split()[0])
                            except ValueError:
                                continue
                            if dpt > stats[key]:
                                stats[key] = dpt
                elif tag[0] == "swap":
                    stats["reloads"] += 1
        if (divergences or oracle_fails or crashes) and tier == "quick":
            break

    rep.cov.update({
        "evaluations": stats["ops"], "distinct_nontrivial": len(distinct),
        "rule": "random operation histories over nested prefix universes (both families, 3 sources, 4 AS numbers incl. 0), "
                "observed after every k-th op (dump, trie shape, callback log) and closed by queries derived from stored "
                "prefixes; distinct = distinct (query, answer) pairs and distinct trie shapes observed on the implementation",
        "traces_validated_against_impl": len(cases) - len(divergences) - len(crashes),
        "distribution": stats,
    })
    for c in cases[:2] + cases[-1:]:
        rep.sample({"history": c.hid, "ops": c.ops[:12]})
    rep.assumptions = ["pthread rwlocks are not exercised here (single thread)",
                       "allocation never fails in these runs (see C18)"]

    mine = [x for x in oracle_fails if x[1][0] == pid]
    sync_found = []
    if pid == "C09":
        # the callbacks are also the change log of what rtr_sync does to the table (apply, undo, purge, atomic reload)
        import rtrcheck
        sync_found = rtrcheck.cblog_scan(rep, pid, tier)
        if sync_found is None:
            vlib.proof_failure(rep, "protocol harness build failed (callback log during synchronisation)")
            sync_found = []
        for c, msg in sync_found[:2]:
            rep.violation("oracle_sync", "# property %s fails on the implementation: %s\n# mutation: %s\n%s\n" % (pid, msg, c.meta.get("mut"), "\n".join(c.ops)))
    # crashes: sanitizer / assertion aborts are failing inputs for C01 (validation must answer) and C04
    for c, nout, rc1, err1 in crashes:
        ops = minimise_crash(exe, c.ops)
        sig = crash_signature(err1)
        rep.violation("crash", "# implementation aborted (rc=%s) after %d replies\n# %s\n%s\n--- stderr ---\n%s\n" % (
            rc1, nout, sig, "\n".join(ops), err1[-3000:]), signature=sig)
    for c, (p, i, msg) in mine[:3]:
        ops = minimise_oracle(exe, c, p, msg)
        rep.violation("oracle", "# property %s fails on the implementation: %s\n# history %s line %d\n%s\n" % (
            p, msg, c.hid, i, "\n".join(ops)))
    if divergences and not mine and not crashes:
        c, d, a, b = divergences[0]
        rep.build_log = "history %s line %d (%s)\n impl : %s\n model: %s\nops:\n%s" % (
            c.hid, d, c.ops[d] if d < len(c.ops) else "", a, b, "\n".join(c.ops[:d + 1]))
        vlib.proof_failure(rep, "correspondence pfx (model RtrModel.PfxTable vs trie.c/trie-pfx.c) diverges")
    cb_failed = []
    if cb_handle is not None:
        cb = cbmccheck.join(cb_handle)
        rep.cov["cbmc"] = {k: {"ok": v["ok"], "seconds": v["seconds"], "what": cbmccheck.OBLIGATIONS[k]} for k, v in cb.items()}
        rep.cov.setdefault("trusted_base", []).append("cbmc 6.11 (symbolic tie of lrtr_get_bits / lrtr_ipv6_get_bits to the bit-field specification)")
        for k, v in cb.items():
            rep.obligations["cbmc:" + k] = v["ok"]
            if not v["ok"]:
                cb_failed.append((k, v))
    if cb_failed and not mine and not crashes:
        rep.build_log = "\n\n".join("== cbmc obligation %s: %s\nfailed properties: %s\ncounterexample inputs: %s\ncommand: %s\n%s" % (
            k, cbmccheck.OBLIGATIONS[k], "; ".join(v["failed"]), v["inputs"], v.get("cmd"), v["log"][-800:]) for k, v in cb_failed)
        vlib.proof_failure(rep, "\n".join("cbmc:%s (%s)" % (k, cbmccheck.OBLIGATIONS[k]) for k, v in cb_failed))
    elif not proved and not mine and not crashes and not divergences:
        vlib.proof_failure(rep, "\n".join(t for t, ok in rep.obligations.items() if not ok))
    return rep.finish()


def replay(path):
    """./check --replay <file> for the prefix-table domain: re-run the recorded history on the current tree and on the model"""
    pid = os.path.basename(path).split("_")[0]
    c = Case("replay")
    for l in open(path):
        l = l.rstrip("\n")
        if l.startswith("--- "):
            break
        if l and not l.startswith("#"):
            c.emit(l.split("    => ")[0], tag_of(l.split("    => ")[0]))
    if not c.ops:
        print(open(path).read())
        print("(no recorded history in this replay file: it names the proof obligation / correspondence that no longer checks)")
        return 1
    vlib.lake_build(["pfxdriver"])
    drv = vlib.driver_path("pfxdriver")
    exe, blog = vlib.build_harness("pfx", ["pfx_harness.c"])
    if exe is None:
        print(blog)
        return 1
    io, rc, err = vlib.run_lines(exe, c.ops)
    mo, mrc, merr = vlib.run_lines(drv, c.ops)
    print("\n".join("%s    => %s" % (a, b) for a, b in zip(c.ops, io)))
    bad = 0
    if rc != 0 or len(io) != len(c.ops):
        bad = 1
        print("implementation aborted (rc=%s) after %d replies: %s\n%s" % (rc, len(io), crash_signature(err), err[-2500:]))
    else:
        d = vlib.first_divergence(io, mo)
        if d is not None:
            bad = 1
            print("DIVERGENCE from the model at line %d (%s)\n impl : %s\n model: %s" % (d, c.ops[d] if d < len(c.ops) else "", io[d] if d < len(io) else "<eof>", mo[d] if d < len(mo) else "<eof>"))
        for f in oracle(c, io, pid):
            if f[0] == pid:
                bad = 1
                print("ORACLE %s line %s: %s" % f)
    print("replay: %s" % ("FAILS" if bad else "passes on the current tree"))
    return bad


def tag_of(line):
    w = line.split()
    if w[0] in ("add", "rm") and w[1] == "0":
        return (w[0], (int(w[2]), int(w[3], 16), int(w[4]), int(w[5]), int(w[6]), int(w[7])))
    if w[0] == "add" and w[1] != "0":
        return ("add1", None)
    if w[0] == "srcrm" and w[1] == "0":
        return ("srcrm", int(w[2]))
    if w[0] == "val":
        return ("val", (int(w[2]), int(w[3], 16), int(w[4]), int(w[5])))
    if w[0] in ("dump", "shape", "log") and w[1] == "0":
        return (w[0],)
    if w[0] == "free" and w[1] == "0":
        return ("free",)
    if w[0] == "new" and w[1] == "0":
        return ("new",)
    if w[0] in ("bits4", "bits6", "left", "cov"):
        return ("bits",)
    return (w[0] if w[0] in ("swap", "copyx", "diff") else "other",)


def crash_signature(err):
    import re
    m = re.search(r"Assertion `([^']*)' failed", err)
    if m:
        return "assert:" + m.group(1)
    m = re.search(r"runtime error: ([^\n]*)", err)
    if m:
        return "ubsan:" + re.sub(r"0x[0-9a-f]+|\d+", "N", m.group(1))[:80]
    m = re.search(r"ERROR: AddressSanitizer: ([a-zA-Z-]+)", err)
    if m:
        return "asan:" + m.group(1)
    return "crash"


def minimise_crash(exe, ops):
    def fails(x):
        o, rc, err = vlib.run_lines(exe, x)
        return rc != 0
    return vlib.ddmin(ops, fails, max_tests=150)


def minimise_oracle(exe, case, prop, msg):
    def fails(idx):
        c = Case("min")
        for i in idx:
            c.emit(case.ops[i], case.tags[i])
        o, rc, err = vlib.run_lines(exe, c.ops)
        if rc != 0 or len(o) != len(c.ops):
            return False
        return any(f[0] == prop for f in oracle(c, o, prop))
    idx = vlib.ddmin(list(range(len(case.ops))), fails, max_tests=150)
    return [case.ops[i] for i in idx]


if __name__ == "__main__":
    pid = sys.argv[1]
    tier = sys.argv[2] if len(sys.argv) > 2 else "quick"
    sys.exit(run(pid, tier))
