"""Tie of the byte-order conversion model (lean/RtrModel/PduConv.lean, namespace Rtr.Conv) to the real
static functions of rtrlib/rtr/packets.c (harness/pduconv_harness.c #includes packets.c):

    tohost   = rtr_pdu_header_to_host_byte_order + rtr_pdu_footer_to_host_byte_order   (rtr_receive_pdu)
    tonet    = rtr_pdu_to_network_byte_order                     (rtr_send_pdu, rtr_send_error_pdu_from_host)
    hdr2host = rtr_pdu_header_to_host_byte_order
    hdr2net  = rtr_pdu_header_to_network_byte_order               (rtr_send_error_pdu_from_host, 8-byte case)

Used by the C14 check:  `evaluations, divergences = pduconvcheck.run_tie(rep)`.
`divergences` is a list of dicts {"kind": "model"|"roundtrip"|"crash"|"build", "op", "impl", "model"}:
  kind "model"     the Lean function and the C function disagree on `op` (model drifted)
  kind "roundtrip" the implementation itself does not satisfy tonet(tohost(p)) = p on a PDU that
                   passes rtr_pdu_check_size (C14's own oracle: the echoed copy would not be byte-exact)
  kind "crash"     the harness aborted (sanitizer / assertion): stderr tail in "impl"
  kind "build"     harness or model did not build
Details of the last run are in `LAST` (distribution of generated vectors etc.); when `rep` is a
vlib.Report they are also stored in rep.cov["pduconv"].

Stand-alone:  python3 tools/pduconvcheck.py [n]      (VERIF_SEED selects the vectors)
"""
import os
import subprocess
import sys

sys.path.insert(0, os.path.dirname(os.path.abspath(__file__)))
import vlib

EXCLUDE = ["rtrlib/rtr/packets.c"]
LAST = {}

SIZES = {0: 12, 1: 12, 2: 8, 3: 8, 4: 20, 6: 32, 8: 8, 9: 123}     # 7 and 10 depend on version / nested lengths


def hx(b):
    return bytes(b).hex()


def rnd_bytes(r, n):
    # mix of random, zero, ff and "byte order revealing" patterns
    m = r.randrange(5)
    if m == 0:
        return [0] * n
    if m == 1:
        return [255] * n
    if m == 2:
        return [(i + 1) & 255 for i in range(n)]
    return [r.randrange(256) for _ in range(n)]


def be32(n):
    return [(n >> 24) & 255, (n >> 16) & 255, (n >> 8) & 255, n & 255]


def le32(n):
    return list(reversed(be32(n)))


def gen_pdu(r, typ=None):
    """a PDU in network byte order that passes rtr_pdu_check_size; returns (label, bytes)"""
    if typ is None:
        typ = r.choice([0, 1, 2, 3, 4, 6, 7, 7, 8, 9, 10, 10, 10])
    ver = r.choice([0, 1])
    f16 = rnd_bytes(r, 2)
    if typ == 7:
        size = 24 if ver == 1 else 12
        body = rnd_bytes(r, size - 8)
        return "eod_v%d" % ver, [ver, 7] + f16 + be32(size) + body
    if typ == 10:
        m = r.randrange(6)
        if m == 0:
            enc = []
        elif m == 1:
            enc = gen_pdu(r, r.choice([0, 1, 2, 3, 4, 6, 7, 8, 9]))[1]
        elif m == 2:
            enc = gen_pdu(r, 10)[1]           # nested Error Report
            if len(enc) > 1500:
                enc = enc[:8]
        elif m == 3:
            enc = rnd_bytes(r, 8)
        else:
            enc = rnd_bytes(r, r.choice([1, 2, 3, 5, 7, 9, 13, 64, 255, 256, 257, r.randrange(0, 700)]))
        text = rnd_bytes(r, r.choice([0, 0, 1, 2, 3, 4, 5, 17, 56, r.randrange(0, 300)]))
        size = 16 + len(enc) + len(text)
        return "error", [ver, 10] + f16 + be32(size) + be32(len(enc)) + enc + be32(len(text)) + text
    size = SIZES[typ]
    return "t%d" % typ, [ver, typ] + f16 + be32(size) + rnd_bytes(r, size - 8)


def gen_host_error(r):
    """an Error Report buffer laid out in HOST order (little-endian length fields), for `tonet` directly"""
    enc = rnd_bytes(r, r.choice([0, 1, 4, 8, 12, 33, r.randrange(0, 200)]))
    text = rnd_bytes(r, r.choice([0, 1, 3, 9, r.randrange(0, 80)]))
    size = 16 + len(enc) + len(text)
    return [r.choice([0, 1]), 10] + rnd_bytes(r, 2) + le32(size) + le32(len(enc)) + enc + le32(len(text)) + text


def model_runner():
    """returns (callable ops -> (lines, rc, err)) for the Lean side"""
    exe = vlib.driver_path("pduconvdriver")
    if os.path.exists(exe):
        return lambda ops: vlib.run_lines(exe, ops)

    def run(ops):
        with vlib.Lock("lake"):
            r = subprocess.run(["lake", "env", "lean", "--run", "Driver/PduConv.lean"], cwd=vlib.LEAN,
                               input="\n".join(ops) + "\n", stdout=subprocess.PIPE, stderr=subprocess.PIPE, text=True)
        out = [l for l in r.stdout.splitlines() if "auto_activate" not in l]
        return out, r.returncode, r.stderr
    return run


def run_tie(rep=None, n=None):
    """returns (evaluations, divergences)"""
    global LAST
    tier = getattr(rep, "tier", "quick") if rep is not None else "quick"
    if n is None:
        n = {"quick": 400, "thorough": 8000}.get(tier, 400)
    stats = {"ops": {}, "types": {}, "bad_op": 0, "roundtrips": 0}
    LAST = {"distribution": stats}
    ok, log = vlib.lake_build(["RtrModel.PduConv"])
    exe, blog = vlib.build_harness("pduconv", ["pduconv_harness.c"], exclude=EXCLUDE, flags=vlib.SAN_FLAGS_NOALIGN)
    if not ok or exe is None:
        LAST["build_log"] = (log if not ok else "") + (blog if exe is None else "")
        return 0, [{"kind": "build", "op": "", "impl": LAST["build_log"][-2000:], "model": ""}]
    r = vlib.rng("pduconv")
    pdus = []
    # every type at least 12 times, both EOD formats, then the weighted mix
    for typ in [0, 1, 2, 3, 4, 6, 7, 8, 9, 10]:
        for _ in range(12):
            pdus.append(gen_pdu(r, typ))
    while len(pdus) < n:
        pdus.append(gen_pdu(r))
    ops1 = []
    for label, p in pdus:
        stats["types"][label] = stats["types"].get(label, 0) + 1
        ops1.append("tohost " + hx(p))
    # header-only conversions of 8-byte headers of every type value (incl. unknown ones) and of whole PDUs
    hdr_ops = []
    for typ in list(range(0, 13)) + [255]:
        for _ in range(3):
            h = [r.choice([0, 1, 2]), typ] + rnd_bytes(r, 2) + rnd_bytes(r, 4)
            hdr_ops.append("hdr2host " + hx(h))
            hdr_ops.append("hdr2net " + hx(h))
            # the full conversions on a bare header of a type without footer fields / unknown type
            if typ in (2, 3, 5, 8, 11, 12, 255):
                hdr_ops.append("tohost " + hx(h))
                hdr_ops.append("tonet " + hx(h))
    for label, p in pdus[:n // 4]:
        hdr_ops.append("hdr2host " + hx(p))
        hdr_ops.append("hdr2net " + hx(p))
    # tonet directly: any bytes for the fixed-size types, host-layout Error Reports
    direct = []
    for label, p in pdus[n // 4:n // 2]:
        if p[1] != 10:
            direct.append("tonet " + hx(p))
    for _ in range(max(20, n // 10)):
        direct.append("tonet " + hx(gen_host_error(r)))
    # refused inputs (too short for the fields touched, bad hex, unknown op)
    bad = ["tohost 0100", "tonet 01040000000000140100", "tohost 010a000000000010000000", "tohost 010a0000000000140000000800000000",
           "tonet 010a0000140000000900000000000000", "tohost 0107000000000018" + "00" * 4, "frob 0102030405060708",
           "tohost 01zz000000000008", "tohost", "hdr2host 01020304050607", "tonet 0106" + "00" * 28]
    impl1, rc1, err1 = vlib.run_lines(exe, ops1)
    divs = []
    if rc1 != 0 or len(impl1) != len(ops1):
        divs.append({"kind": "crash", "op": ops1[min(len(impl1), len(ops1) - 1)], "impl": err1[-2000:], "model": ""})
        LAST["crash"] = err1
        return len(impl1), divs
    # phase 2: back to network order from what the implementation produced
    ops2 = ["tonet " + h for h in impl1 if h != "bad-op"]
    allops = ops1 + ops2 + hdr_ops + direct + bad
    impl, rc, err = vlib.run_lines(exe, allops)
    if rc != 0 or len(impl) != len(allops):
        divs.append({"kind": "crash", "op": allops[min(len(impl), len(allops) - 1)], "impl": err[-2000:], "model": ""})
        LAST["crash"] = err
        return len(impl), divs
    model, mrc, merr = model_runner()(allops)
    if mrc != 0 or len(model) != len(allops):
        divs.append({"kind": "build", "op": "", "impl": "", "model": "model driver failed rc=%s: %s" % (mrc, merr[-1500:])})
        return 0, divs
    for op, a, b in zip(allops, impl, model):
        k = op.split(" ")[0]
        stats["ops"][k] = stats["ops"].get(k, 0) + 1
        if a == "bad-op":
            stats["bad_op"] += 1
        if a != b:
            divs.append({"kind": "model", "op": op, "impl": a, "model": b})
    # C14's oracle on the implementation: converting a checked PDU to host order and back is the identity
    back = impl[len(ops1):len(ops1) + len(ops2)]
    j = 0
    for (label, p), h in zip(pdus, impl1):
        if h == "bad-op":
            divs.append({"kind": "roundtrip", "op": "tohost " + hx(p), "impl": "refused a PDU that passes the size check", "model": ""})
            continue
        stats["roundtrips"] += 1
        if back[j] != hx(p):
            divs.append({"kind": "roundtrip", "op": "tohost " + hx(p) + " ; tonet " + h, "impl": back[j], "model": hx(p)})
        j += 1
    stats["nontrivial"] = sum(1 for (l, p), h in zip(pdus, impl1) if h != hx(p))
    if rep is not None:
        rep.cov["pduconv"] = {"evaluations": len(allops), "distribution": stats,
                              "rule": "every PDU type with random / patterned field values, both End of Data formats, Error Reports with "
                                      "nested lengths (empty, whole PDUs, nested Error Reports, odd sizes), bare headers of all type "
                                      "values, host-layout Error Reports; tohost, then tonet of the implementation's result"}
    LAST["evaluations"] = len(allops)
    LAST["divergences"] = divs
    return len(allops), divs


if __name__ == "__main__":
    n = int(sys.argv[1]) if len(sys.argv) > 1 else None
    ev, divs = run_tie(None, n)
    print("pduconv tie: %d evaluations, %d divergences" % (ev, len(divs)))
    print("distribution:", LAST.get("distribution"))
    for d in divs[:10]:
        print(" ", d["kind"], d["op"][:120], "\n    impl :", d["impl"][:200], "\n    model:", d["model"][:200])
    sys.exit(1 if divs else 0)
