#!/bin/sh
# tools/tietest.sh <patch.diff> <PID>...   run the translation tie of the given properties against a scratch copy of /repo with the patch applied
set -e
patch=$1; shift
wt=/tmp/tietest_repo
[ -d $wt ] || git -C /repo worktree add --detach $wt HEAD >/dev/null 2>&1
git -C $wt checkout -q --detach HEAD 2>/dev/null; git -C $wt reset -q --hard $(git -C /repo rev-parse HEAD); git -C $wt apply "$patch"
cd /verif
exec 9>build/generated.lock; flock 9
for p in "$@"; do
  printf "%s: " $p; VERIF_REPO=$wt python3 tools/cfuncheck.py $p 2>&1 | grep "^True\|^False\|NOT TRANSLATED" | tr '\n' ' '; echo
done
python3 tools/gen_cfuns.py >/dev/null 2>&1; python3 tools/gen_locks.py >/dev/null 2>&1
git -C $wt reset -q --hard
