#!/bin/sh
# Offline setup: build the Lean library (models, proofs, property theorems) and all model drivers.
set -e
HERE=$(cd "$(dirname "$0")/.." && pwd)
mkdir -p "$HERE/build" "$HERE/evidence"
cd "$HERE/lean"
TARGETS=""
for d in pfxdriver spkidriver mgrdriver bgpdriver ipdriver rtrdriver lockdriver allocdriver constdriver pduconvdriver cfundriver; do
  root=$(awk -v n="$d" '$0 ~ "name = \""n"\"" {getline; gsub(/root = |"/,""); print}' lakefile.toml | tr . /)
  [ -f "$root.lean" ] && TARGETS="$TARGETS $d"
done
# the generated model parts are tied to the current source: regenerate them (each check does so again)
(cd "$HERE" && python3 tools/gen_specs.py >/dev/null 2>&1) || echo "setup: tools/gen_specs.py failed"
(cd "$HERE" && python3 tools/gen_constants.py >/dev/null 2>&1 && python3 tools/gen_locks.py >/dev/null 2>&1 && python3 tools/gen_cfuns.py >/dev/null 2>&1) || \
  echo "setup: a translator failed on the current source (the checks that depend on it will report it)"
# a proof that no longer builds is a finding of the check that owns it, not a setup failure
flock "$HERE/build/lake.lock" lake build RtrModel RtrProofs RtrProps || \
  echo "setup: part of the Lean library did not build (the checks that depend on it will report it)"
# drivers are rebuilt by the individual checks as well; a driver that does not build must not fail the whole setup
for t in $TARGETS; do
  flock "$HERE/build/lake.lock" lake build $t || echo "setup: driver $t did not build (its check will report it)"
done
