#!/bin/sh
# Offline setup: build the Lean library (models, proofs, property theorems) and all model drivers.
set -e
HERE=$(cd "$(dirname "$0")/.." && pwd)
mkdir -p "$HERE/build" "$HERE/evidence"
cd "$HERE/lean"
TARGETS=""
for d in pfxdriver spkidriver mgrdriver bgpdriver ipdriver rtrdriver lockdriver allocdriver constdriver; do
  root=$(awk -v n="$d" '$0 ~ "name = \""n"\"" {getline; gsub(/root = |"/,""); print}' lakefile.toml | tr . /)
  [ -f "$root.lean" ] && TARGETS="$TARGETS $d"
done
flock "$HERE/build/lake.lock" lake build RtrModel RtrProofs RtrProps
# drivers are rebuilt by the individual checks as well; a driver that does not build must not fail the whole setup
for t in $TARGETS; do
  flock "$HERE/build/lake.lock" lake build $t || echo "setup: driver $t did not build (its check will report it)"
done
