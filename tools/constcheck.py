"""Check C20: state / status names are defined for every enumerator; no out-of-table read.

  1. translate   gen_constants.regenerate(): enumerators, name tables and the bodies of the two to-string
                 functions are re-extracted from the current tree into lean/RtrModel/Generated/*.lean
  2. prove       lake build RtrProps.C20 (whole-table `decide` + the all-integers theorem) + axiom audit
  3. tie         the REAL rtr_state_to_str / rtr_mgr_status_to_str are called under ASan+UBSan on every
                 enumerator, on -1000..1000, INT_MIN, INT_MAX, UINT_MAX, 2^31 and random 32-bit values; a
                 sanitizer abort is a failing input.  The same lines go to the model driver (constdriver).
  4. oracle      the property statement itself, in Python: the enumerator's identifier for every value the
                 headers declare, the documented NULL for every other integer, never a read outside the table.
"""
import os
import re
import sys

sys.path.insert(0, os.path.dirname(os.path.abspath(__file__)))
import vlib
import gen_constants

THEOREMS = ["Rtr.C20.names_total_state", "Rtr.C20.names_total_mgr", "Rtr.C20.public_enumerators_declared",
            "Rtr.C20.toStr_spec_state", "Rtr.C20.toStr_spec_mgr", "Rtr.C20.toStr_spec_state_int",
            "Rtr.C20.toStr_spec_mgr_int", "Rtr.C20.never_oob", "Rtr.C20.toStr_enumerators",
            "Rtr.C20.initial_state_named", "Rtr.C20.f18_unfixed_reads_outside_table"]
MODULES = ["RtrProps.C20"]
CORPUS = os.path.join(vlib.VERIF, "corpus", "consts")
FUNCS = {"state": ("rtr_state_to_str", "rtr_socket_state"), "mgr": ("rtr_mgr_status_to_str", "rtr_mgr_status")}


# ------------------------------------------------------------------------------------------
# shared with intervalcheck
# ------------------------------------------------------------------------------------------

def harness():
    """the implementation-side executable for the current tree (packets.c is #included by the front end)"""
    return vlib.build_harness("consts", ["consts_harness.c"], exclude=["rtrlib/rtr/packets.c"],
                              flags=vlib.SAN_FLAGS + ["-I" + os.path.join(vlib._gen_include_dir(), "rtrlib")])


def crash_signature(err):
    m = re.search(r"Assertion `([^']*)' failed", err)
    if m:
        return "assert:" + m.group(1)
    m = re.search(r"runtime error: ([^\n]*)", err)
    if m:
        return "ubsan:" + re.sub(r"0x[0-9a-f]+|\d+", "N", m.group(1))[:80]
    m = re.search(r"ERROR: AddressSanitizer: ([a-zA-Z-]+)", err)
    if m:
        return "asan:" + m.group(1)
    return "crash"


def run_impl(exe, ops, max_crashes=12, timeout=300):
    """run all ops on the harness; a line whose execution aborts the process gets the reply
    'CRASH <signature>' and the run continues behind it.  returns (replies, crashes=[(index, sig, stderr tail)])
    After max_crashes aborts the remaining lines are answered 'SKIPPED'."""
    out = []
    crashes = []
    pos = 0
    while pos < len(ops):
        o, rc, err = vlib.run_lines(exe, ops[pos:], timeout=timeout)
        out.extend(o[:len(ops) - pos])
        pos = len(out)
        if pos >= len(ops):
            break
        # the process died while executing ops[pos]
        sig = "timeout" if rc == -999 else crash_signature(err)
        crashes.append((pos, sig, err[-2500:]))
        out.append("CRASH " + sig)
        pos += 1
        if len(crashes) >= max_crashes:
            out.extend(["SKIPPED"] * (len(ops) - pos))
            break
    return out, crashes


def corpus_lines(first_words):
    """[(file, [lines])] of corpus files, restricted to lines whose first word is in first_words"""
    res = []
    if os.path.isdir(CORPUS):
        for f in sorted(os.listdir(CORPUS)):
            if not f.endswith(".ops"):
                continue
            ls = []
            for line in open(os.path.join(CORPUS, f)):
                line = line.strip()
                if line and not line.startswith("#") and line.split()[0] in first_words:
                    ls.append(line)
            if ls:
                res.append((f, ls))
    return res


def translate(rep):
    """step 1; returns the extraction (python data) or None after recording the failure"""
    try:
        return gen_constants.load()
    except gen_constants.GenError as ex:
        rep.build_log = str(ex)
        vlib.proof_failure(rep, "translation of the current tree failed (tools/gen_constants.py)")
        return None


def ensure_driver(rep):
    drv = vlib.driver_path("constdriver")
    ok, log = vlib.lake_build(["constdriver"])
    if not ok or not os.path.exists(drv):
        rep.build_log = log
        vlib.proof_failure(rep, "model driver constdriver does not build")
        return None
    return drv


# ------------------------------------------------------------------------------------------
# C20
# ------------------------------------------------------------------------------------------

def expected(info, which, i):
    """the property statement: identifier of the enumerator with value i, else the documented NULL"""
    for name, val in info["enums"][FUNCS[which][1]]:
        if val == i:
            return "str " + name
    return "null"


def classify(info, which, i):
    vals = [v for _, v in info["enums"][FUNCS[which][1]]]
    if i in vals:
        return "enumerator"
    if i < 0:
        return "INT_MIN" if i == -2 ** 31 else ("negative-near" if i >= -2 else "negative")
    if i <= max(vals) + 2:
        return "just-above"
    if i in (2 ** 31 - 1, 2 ** 31, 2 ** 32 - 1):
        return "type-extreme"
    return "large" if i > 1000 else "above"


def gen_ops(info, tier, r):
    ops = []
    for which in ("state", "mgr"):                        # every enumerator first
        ops += ["name %s %d" % (which, v) for _, v in info["enums"][FUNCS[which][1]]]
    for which in ("state", "mgr"):
        vals = [v for _, v in info["enums"][FUNCS[which][1]]]
        seq = [max(vals) + 1, max(vals) + 2, -1, -2, 2 ** 31 - 1, -2 ** 31, 2 ** 32 - 1, 2 ** 31]
        seq += list(range(-1000, 1001))
        n = 1500 if tier == "quick" else 30000
        for _ in range(n):
            x = r.random()
            if x < 0.5:
                seq.append(r.randrange(-2 ** 31, 2 ** 32))
            elif x < 0.75:
                seq.append(r.choice([2 ** k for k in range(4, 32)]) + r.randrange(-2, 3))
            else:
                seq.append(-r.choice([2 ** k for k in range(4, 31)]) + r.randrange(-2, 3))
        seen = set(vals)
        for v in seq:
            if v not in seen and -2 ** 31 <= v < 2 ** 32:
                seen.add(v)
                ops.append("name %s %d" % (which, v))
    return ops


def _run(rep, pid, tier):
    info = translate(rep)
    if info is None:
        return rep.finish()
    proved = vlib.prove(rep, MODULES, THEOREMS, extra_targets=["constdriver"])
    if proved and tier == "thorough":
        ok, log = vlib.leanchecker(MODULES[0])
        rep.cov["leanchecker"] = "ok" if ok else "FAILED"
        if not ok:
            proved = False
            rep.build_log = log
    drv = ensure_driver(rep)
    if drv is None:
        return rep.finish()
    exe, blog = harness()
    if exe is None:
        rep.build_log = blog
        vlib.proof_failure(rep, "harness build against the current tree failed (correspondence consts)")
        return rep.finish()

    r = vlib.rng(pid)
    corpus = corpus_lines({"name"})
    ops = [l for _f, ls in corpus for l in ls]
    ncorpus = len(ops)
    ops += gen_ops(info, tier, r)

    impl, crashes = run_impl(exe, ops)
    model, mrc, merr = vlib.run_lines(drv, ops)
    if mrc != 0 or len(model) != len(ops):
        rep.build_log = "model driver failed: rc=%s %s" % (mrc, merr[-500:])
        vlib.proof_failure(rep, "model driver constdriver crashed")
        return rep.finish()

    stats = {"calls": 0, "corpus_lines": ncorpus, "by_function": {}, "classes": {}, "results": {}, "crashes": len(crashes),
             "skipped_after_crashes": 0, "guarded": {k: info["tostr"][FUNCS[k][0]]["shape"] for k in FUNCS},
             "table_len": {k: len(info["tables"].get(info["tostr"][FUNCS[k][0]]["table"] or "", [])) for k in FUNCS},
             "enumerators": {k: len(info["enums"][FUNCS[k][1]]) for k in FUNCS}}
    fails = []          # (index, kind, message)
    diverge = []
    nontrivial = set()
    for k, (op, io, mo) in enumerate(zip(ops, impl, model)):
        w = op.split()
        which, i = w[1], int(w[2])
        if io == "SKIPPED":
            stats["skipped_after_crashes"] += 1
            continue
        stats["calls"] += 1
        stats["by_function"][which] = stats["by_function"].get(which, 0) + 1
        cls = classify(info, which, i)
        stats["classes"][which + ":" + cls] = stats["classes"].get(which + ":" + cls, 0) + 1
        res = io.split()[0] if io.split() else "EMPTY"
        if res not in ("str", "null", "ptr", "CRASH"):
            res = "GARBLED"
        stats["results"][which + ":" + res] = stats["results"].get(which + ":" + res, 0) + 1
        if cls != "above" and cls != "negative" and cls != "large":
            nontrivial.add((which, i))
        exp = expected(info, which, i)
        if io.startswith("CRASH"):
            fails.append((k, "enumerator-outside-table" if exp != "null" else "unchecked-index", "%s(%d) aborts under the sanitizers (%s); the property demands %s" % (
                FUNCS[which][0], i, io[6:], "the name " + exp[4:] if exp != "null" else "the documented NULL")))
        elif io != exp:
            what = "a non-NULL pointer that is not a name (%s)" % io[4:] if res == "ptr" else "'%s'" % io
            fails.append((k, "wrong-name" if exp != "null" else "not-null",
                          "%s(%d) returned %s; the property demands %s" % (
                              FUNCS[which][0], i, what, "'%s'" % exp if exp != "null" else "the documented NULL")))
        # correspondence: the model's `oob` is the implementation's sanitizer abort, or whatever lies outside the
        # table (a garbage pointer, or by accident a neighbouring string)
        # table: undefined behaviour, so any answer of the implementation corresponds to the model's `oob`
        canon = "oob" if (io.startswith("CRASH") or res in ("ptr", "GARBLED", "EMPTY") or mo == "oob") else io
        if canon != mo:
            diverge.append((k, io, mo))

    rep.cov.update({
        "evaluations": stats["calls"], "distinct_nontrivial": len(nontrivial),
        "rule": "both functions on every declared enumerator, the values just outside the table, -1000..1000, INT_MIN, "
                "INT_MAX, UINT_MAX, 2^31 and seeded random 32-bit values (uniform / near powers of two); distinct_nontrivial = "
                "distinct (function, argument) pairs that are enumerators, within 2 of the table ends, or type extremes",
        "traces_validated_against_impl": stats["calls"] - len(diverge),
        "distribution": stats,
    })
    rep.sample({"ops": ops[ncorpus:ncorpus + 6], "impl": impl[ncorpus:ncorpus + 6]})
    rep.assumptions = ["the argument is converted to the enum type as gcc/clang do (modulo 2^32)",
                       "string contents are compared as text; the harness prints what the function returned"]

    seen_kinds = {}
    for k, kind, msg in fails:
        which = ops[k].split()[1]
        key = (which, kind)
        if key in seen_kinds:
            continue
        seen_kinds[key] = True
        err = ""
        for (ci, sig, e) in crashes:
            if ci == k:
                err = "\n--- sanitizer report ---\n" + e
        rep.violation("%s_%s" % (which, kind),
                      "# property C20 fails on the implementation: %s\n# replay: feed this line to the harness (consts_harness.c)\n%s\n"
                      "# expected: %s\n# observed: %s\n%s" % (msg, ops[k], expected(info, which, int(ops[k].split()[2])), impl[k], err),
                      signature="C20/%s/%s" % (which, kind))
    if diverge and not fails:
        k, io, mo = diverge[0]
        rep.build_log = "line %d: %s\n impl : %s\n model: %s" % (k, ops[k], io, mo)
        vlib.proof_failure(rep, "correspondence consts/names (RtrModel.Names + Generated.Names vs rtr.c / rtr_mgr.c) diverges")
    if not proved and not fails and not diverge:
        vlib.proof_failure(rep, "\n".join(t for t, ok in rep.obligations.items() if not ok))
    return rep.finish()


def guarded_run(body, pid, tier):
    """no Python exception escapes a check: an unexpected situation in the machinery is reported as a failed
    obligation (no-failing-input-found) with the traceback as replay"""
    rep = vlib.Report(pid, tier)
    try:
        return body(rep, pid, tier)
    except Exception:                                   # noqa: BLE001 - deliberate catch-all at the top level
        import traceback
        rep.build_log = traceback.format_exc()
        vlib.proof_failure(rep, "check machinery raised an exception (tools/%s); the tie could not be completed" % (
            os.path.basename(traceback.extract_tb(sys.exc_info()[2])[-1].filename)))
        return rep.finish()


def run(pid, tier):
    return guarded_run(_run, pid, tier)



def replay(path):
    return vlib.generic_replay(path, harness, "constdriver")

if __name__ == "__main__":
    sys.exit(run(sys.argv[1] if len(sys.argv) > 1 else "C20", sys.argv[2] if len(sys.argv) > 2 else "quick"))
