"""Check C10: proofs about the tommy_hashlin / router-key table model + correspondence with
third-party/tommyds/tommyhashlin.c and rtrlib/spki/hashtable/ht-spkitable.c + the property's oracle."""
import os
import re
import sys

sys.path.insert(0, os.path.dirname(os.path.abspath(__file__)))
import vlib
import spkigen
from spkigen import oracle

PROPS = {
    "C10": {
        "modules": ["RtrProps.C10"],
        "theorems": [
            "Rtr.C10.hashlin_inv", "Rtr.C10.hashlin_inv_init", "Rtr.C10.hashlin_inv_unfold", "Rtr.C10.search_iff_mem",
            "Rtr.C10.list_hash_same_elems",
            "Rtr.C10.add_refines", "Rtr.C10.remove_refines", "Rtr.C10.srcRemove_refines",
            "Rtr.C10.getAll_spec", "Rtr.C10.searchBySki_spec", "Rtr.C10.copyExcept_refines",
            "Rtr.C10.swap_refines", "Rtr.C10.notifyDiff_refines", "Rtr.C10.history_refines",
            "Rtr.C10.spki_log_replays", "Rtr.C10.spki_log_exact", "Rtr.C10.spki_log_steps", "Rtr.C10.notifyDiff_net",
            "Rtr.C10.F9_unfixed_violates", "Rtr.C10.cmp_iff_eq", "Rtr.C10.collision_kept_apart",
        ],
    },
}

HARNESS_EXCLUDE = ["rtrlib/spki/hashtable/ht-spkitable.c"]       # #included by the harness front-end
HL = re.compile(r"hl count=(\d+) bit=(\d+) max=(\d+) mask=(\d+) lowmax=(\d+) lowmask=(\d+) split=(\d+) state=(\d+)")
STN = {0: "stable", 1: "grow", 2: "shrink"}


def build_harness():
    return vlib.build_harness("spki", ["spki_harness.c"], exclude=HARNESS_EXCLUDE)


def load_corpus():
    cdir = os.path.join(vlib.VERIF, "corpus", "spki")
    out = []
    if os.path.isdir(cdir):
        for f in sorted(os.listdir(cdir)):
            if f.endswith(".ops"):
                h = spkigen.Hist("corpus:" + f, "corpus")
                for line in open(os.path.join(cdir, f)):
                    line = line.strip()
                    if not line or line.startswith("#"):
                        continue
                    h.emit(line)
                out.append(h)
    return out


def probe_base_bit(exe):
    """bucket_bit of a freshly initialised table of the implementation under test (TOMMY_HASHLIN_BIT of that tree);
    cross-checked against the header text when it can be read"""
    out, rc, err = vlib.run_lines(exe, ["new 0", "hl 0"])
    bit = None
    if rc == 0 and len(out) == 2:
        m = HL.match(out[1])
        if m:
            bit = int(m.group(2))
    try:
        src = open(os.path.join(vlib.REPO, "third-party", "tommyds", "tommyhashlin.h"), errors="replace").read()
        m = re.search(r"#\s*define\s+TOMMY_HASHLIN_BIT\s+(\d+)", src)
        if m and bit is None:
            bit = int(m.group(1))
    except OSError:
        pass
    return bit if bit is not None and 1 <= bit <= 14 else 6


def generate(r, tier, base_bit=6):
    hs = []
    mult = 1 if tier == "quick" else 20
    hid = 0
    # grow -> partial shrink -> regrow, scaled to the initial size of the table under test (levels up to 4096 buckets)
    levels = [l for l in (1, 2, 3, 4) if base_bit + l <= 12] or [1]
    for _ in range(30 * mult):
        hid += 1
        hs.append(spkigen.gen_cmp(r, hid))
    for _ in range(60 * mult):
        hid += 1
        hs.append(spkigen.gen_forced(r, hid))
    for rep_ in range(mult):
        for k, level in enumerate(levels):
            for by_source in ((True, False) if (base_bit + level <= 9 or rep_ == 0 and level == levels[0]) else (bool((k + rep_) % 2),)):
                hid += 1
                hs.append(spkigen.gen_regrow(r, hid, base_bit, level, by_source))
    for _ in range(400 * mult):
        hid += 1
        hs.append(spkigen.gen_small(r, hid, r.randrange(4, 40), reload=r.random() < 0.4, copyerr=r.random() < 0.25))
    sweeps = [(100, 6), (100, 10), (100, 14), (290, 6), (290, 10), (290, 14), (290, 18), (540, 4), (540, 8), (540, 12)]
    for top, nph in sweeps * (2 * mult):
        hid += 1
        hs.append(spkigen.gen_sweep(r, hid, top, nph, reload=True))
    hid += 1
    hs.append(spkigen.gen_malformed(r, hid))
    return hs


def lowmax_prev(p, bit):
    """low_max of a table observed in shrink state at bucket_bit `bit`: half the bucket count"""
    return (1 << bit) // 2


class Stats:
    def __init__(self):
        self.d = {"histories": 0, "ops": 0, "op_kinds": {}, "rc": {}, "transitions": {}, "grow_steps": 0,
                  "shrink_steps": 0, "flips_grow_to_shrink": 0, "flips_shrink_to_grow": 0, "grow_completed": 0,
                  "shrink_completed": 0, "max_steps_between_observations": 0, "max_bucket_bit": 0, "max_count": 0,
                  "bucket_bits_seen": {}, "buckets_sharing_asns": 0, "max_bucket_len": 0, "lookups_multi": 0,
                  "lookups_empty": 0, "lookups_multi_src": 0, "copy_errors": 0, "reloads": 0, "callbacks": 0,
                  "malformed_rejected": 0, "by_kind": {}, "cmp_pairs": {}, "cmp_answers": {},
                  "forced_same_hash_distinct_records": 0, "forced_duplicates": 0, "forced_absent_probe": 0,
                  "forced_found": 0, "regrow_takeovers": 0, "regrow_max_count": 0, "regrow_partial_shrink_split": 0}
        self.base_bit = 6
        self.distinct = set()

    def bump(self, k, sub=None, n=1):
        if sub is None:
            self.d[k] += n
        else:
            self.d[k][sub] = self.d[k].get(sub, 0) + n

    def feed(self, h, out):
        d = self.d
        d["histories"] += 1
        self.bump("by_kind", h.kind)
        prev = {}
        fkeys = {}
        for op, line in zip(h.ops, out):
            w = op.split()
            d["ops"] += 1
            if not w:
                continue
            cmd = w[0]
            self.bump("op_kinds", cmd)
            if line == "bad-op":
                d["malformed_rejected"] += 1
                continue
            if cmd in ("add", "rm", "srcrm", "copyx"):
                self.bump("rc", cmd + line)
                if cmd == "copyx" and line == "-1":
                    d["copy_errors"] += 1
            elif cmd in ("new", "newnocb", "free", "freenn"):
                prev.pop(w[1], None)
            elif cmd == "swap":
                prev[w[1]], prev[w[2]] = prev.get(w[2]), prev.get(w[1])
                d["reloads"] += 1
            elif cmd == "hl":
                m = HL.match(line)
                if not m:
                    continue
                cnt, bit, mx, mask, lowmax, lowmask, split, st = [int(x) for x in m.groups()]
                self.distinct.add((bit, lowmax, split, st))
                d["max_bucket_bit"] = max(d["max_bucket_bit"], bit)
                d["max_count"] = max(d["max_count"], cnt)
                if h.kind == "regrow":
                    d["regrow_max_count"] = max(d["regrow_max_count"], cnt)
                self.bump("bucket_bits_seen", str(bit))
                p = prev.get(w[1])
                cur = (lowmax + split, st, cnt, bit)
                if p is not None and p != cur:
                    dv = cur[0] - p[0]
                    if p[1] != st:
                        self.bump("transitions", "%s->%s" % (STN[p[1]], STN[st]))
                        if p[1] == 1 and st == 2:
                            d["flips_grow_to_shrink"] += 1
                        if p[1] == 2 and st == 0 and p[3] == bit:
                            # a shrink reversed by an insert: count > bucket_max/2 = low_max makes the grow
                            # target 2*count reach 2*low_max, so the reversed resize completes in that insert
                            d["flips_shrink_to_grow"] += 1
                            if h.kind == "regrow" and bit > self.base_bit and 0 < p[0] - lowmax_prev(p, bit) :
                                d["regrow_takeovers"] += 1
                                d["regrow_partial_shrink_split"] = max(d["regrow_partial_shrink_split"], p[0] - lowmax_prev(p, bit))
                        elif p[1] == 2 and st == 0:
                            d["shrink_completed"] += 1
                        elif p[1] == 1 and st == 0:
                            d["grow_completed"] += 1
                    if dv > 0:
                        d["grow_steps"] += dv
                    elif dv < 0:
                        d["shrink_steps"] += -dv
                    d["max_steps_between_observations"] = max(d["max_steps_between_observations"], abs(dv))
                prev[w[1]] = cur
            elif cmd == "buckets":
                for _, recs in spkigen.parse_buckets(line)[0]:
                    d["max_bucket_len"] = max(d["max_bucket_len"], len(recs))
                    if len(set(x.split(":")[0] for x in recs)) > 1:
                        d["buckets_sharing_asns"] += 1
            elif cmd == "cmp" and len(w) == 9:
                diff = [n for n, x, y in zip(("asn", "ski", "spki", "src"), w[1:5], w[5:9]) if x != y]
                cls = "+".join(diff) if diff else "equal"
                if len(diff) == 1 and diff[0] in ("ski", "spki"):
                    k = 1 if diff[0] == "ski" else 2
                    nb = 20 if diff[0] == "ski" else 91
                    x = int(w[1 + k], 16) ^ int(w[5 + k], 16)
                    pos = nb - 1 - (x.bit_length() - 1) // 8
                    cls = "%s[%s]" % (diff[0], pos if pos in (0, 19, 20, nb - 1) else "mid")
                self.bump("cmp_pairs", cls)
                self.bump("cmp_answers", line)
            elif cmd == "fadd" and len(w) == 6:
                key = w[1]
                if line == "0":
                    if fkeys.get(key):
                        d["forced_same_hash_distinct_records"] += 1
                    fkeys.setdefault(key, set()).add(tuple(w[2:]))
                elif line == "-2":
                    d["forced_duplicates"] += 1
            elif cmd in ("fget", "frm") and len(w) == 6:
                if line == "0":
                    if fkeys.get(w[1]):
                        d["forced_absent_probe"] += 1
                else:
                    d["forced_found"] += 1
                    if cmd == "frm":
                        fkeys.get(w[1], set()).discard(tuple(w[2:]))
            elif cmd == "fnew":
                fkeys.clear()
            elif cmd in ("get", "byski"):
                toks = line.split()
                self.distinct.add((op.split(None, 2)[2], tuple(sorted(toks[2:]))))
                if len(toks) > 3:
                    d["lookups_multi"] += 1
                    if len(set(x.rsplit(":", 1)[1] for x in toks[2:])) > 1:
                        d["lookups_multi_src"] += 1
                elif len(toks) == 2:
                    d["lookups_empty"] += 1
            elif cmd == "log":
                d["callbacks"] += len(line.split()) - 1

    def gate(self):
        """classes the generator must have reached, else the run proves nothing about them"""
        d = self.d
        missing = []
        for k in ("grow_steps", "shrink_steps", "flips_grow_to_shrink", "flips_shrink_to_grow", "grow_completed",
                  "shrink_completed", "buckets_sharing_asns", "lookups_multi", "lookups_multi_src", "copy_errors",
                  "reloads", "malformed_rejected"):
            if not d[k]:
                missing.append(k)
        for k in ("add0", "add-2", "rm0", "rm-3", "srcrm0", "copyx0"):
            if not d["rc"].get(k):
                missing.append("rc " + k)
        if d["max_bucket_bit"] < 9:
            missing.append("bucket_bit>=9")
        for k in ("regrow_takeovers", "forced_same_hash_distinct_records", "forced_duplicates", "forced_absent_probe", "forced_found"):
            if not d[k]:
                missing.append(k)
        if d["regrow_max_count"] <= (1 << self.base_bit):
            missing.append("regrow beyond the initial table size 2^%d" % self.base_bit)
        for cls in ("equal", "asn", "ski[0]", "ski[19]", "spki[0]", "spki[19]", "spki[20]", "spki[90]", "src"):
            if not d["cmp_pairs"].get(cls):
                missing.append("cmp " + cls)
        return missing


def run_pair(exe, drv, ops):
    impl = vlib.run_lines(exe, ops)
    model = vlib.run_lines(drv, ops)
    return impl, model


def minimise_oracle(exe, ops, clause):
    def fails(x):
        o, rc, err = vlib.run_lines(exe, x)
        if rc != 0 or len(o) != len(x):
            return False
        return any(f[0] == clause for f in oracle(x, o))
    ops = list(ops)
    # drop pure observation lines first (cheap): table-field dumps, then lookups
    for drop in (("hl", "fhl"), ("get", "byski", "fget"), ("log",), ("list",)):
        cand = [o for o in ops if o.split()[:1] and o.split()[0] not in drop]
        if len(cand) < len(ops) and fails(cand):
            ops = cand
    return vlib.ddmin(ops, fails, max_tests=300)


def minimise_crash(exe, ops):
    def fails(x):
        o, rc, err = vlib.run_lines(exe, x)
        return rc != 0
    return vlib.ddmin(list(ops), fails, max_tests=200)


def crash_signature(err):
    m = re.search(r"Assertion `([^']*)' failed", err)
    if m:
        return "assert:" + m.group(1)
    m = re.search(r"runtime error: ([^\n]*)", err)
    if m:
        return "ubsan:" + re.sub(r"0x[0-9a-f]+|\d+", "N", m.group(1))[:80]
    m = re.search(r"ERROR: AddressSanitizer: ([a-zA-Z-]+)", err)
    if m:
        return "asan:" + m.group(1)
    return "crash"


CLAUSE_TEXT = {
    "set": "lookup / return code / contents differ from the mathematical set of (AS, SKI, key, source) records",
    "log": "the update-callback stream does not mirror the additions and removals",
    "rep": "hash table and list do not hold the same entries",
}


def run(pid, tier):
    rep = vlib.Report(pid, tier)
    P = PROPS[pid]
    proved = vlib.prove(rep, P["modules"], P["theorems"], extra_targets=["spkidriver"])
    import cfuncheck
    if pid in cfuncheck.LINKS and pid in cfuncheck.ENABLED:
        cfuncheck.link(rep, pid)     # translation tie: the C text of the small functions = the model, for every input
    if pid in ("C01", "C02", "C09", "C10", "C03"):
        import lockcheck
        lockcheck.gate(rep, pid)     # the sequential theorems are claimed for shared tables: one critical section per call
    drv = vlib.driver_path("spkidriver")
    if not os.path.exists(drv):
        ok, log = vlib.lake_build(["spkidriver"])
        if not ok:
            rep.build_log = log
            vlib.proof_failure(rep, "model driver spkidriver does not build")
            return rep.finish()
    exe, blog = build_harness()
    if exe is None:
        rep.build_log = blog
        vlib.proof_failure(rep, "harness build against the tree failed (correspondence spki)")
        return rep.finish()

    r = vlib.rng(pid)
    corpus = load_corpus()
    base_bit = probe_base_bit(exe)
    cases = corpus + generate(r, tier, base_bit)
    stats = Stats()
    stats.d["corpus"] = len(corpus)
    stats.d["base_bit"] = base_bit
    stats.base_bit = base_bit
    divergences = []
    oracle_fails = []
    crashes = []

    # batches: several histories per process pair; a crash only loses one batch
    # the classes that exercise one mechanism each (corpus, key_entry_cmp, forced collisions, regrow) always run completely,
    # so that a failure is reported through the most direct input; after them the quick tier stops at the first failing batch
    PRIORITY = ("corpus", "cmp", "forced", "regrow")
    batches = []
    cur, curlen = [], 0
    nprio = 0
    for idx, h in enumerate(cases):
        cur.append(h)
        curlen += len(h.ops)
        last_prio = h.kind in PRIORITY and (idx + 1 == len(cases) or cases[idx + 1].kind not in PRIORITY)
        if curlen > 6000 or h.kind == "corpus" or last_prio:
            batches.append(cur)
            cur, curlen = [], 0
            if h.kind in PRIORITY:
                nprio = len(batches)
    if cur:
        batches.append(cur)

    for bi, batch in enumerate(batches):
        ops = [l for h in batch for l in h.ops]
        (impl, rc, err), (model, mrc, merr) = run_pair(exe, drv, ops)
        if mrc != 0 or len(model) != len(ops):
            rep.build_log = "model driver failed: rc=%s %s" % (mrc, merr[-500:])
            vlib.proof_failure(rep, "model driver crashed / lost lines")
            return rep.finish()
        if rc != 0 or len(impl) != len(ops):
            for h in batch:
                o1, rc1, err1 = vlib.run_lines(exe, h.ops)
                if rc1 != 0 or len(o1) != len(h.ops):
                    crashes.append((h, len(o1), rc1, err1))
                    break
            else:
                crashes.append((spkigen.Hist("batch", "batch"), len(impl), rc, err))
                crashes[-1][0].ops = ops
            continue
        pos = 0
        for h in batch:
            n = len(h.ops)
            io, mo = impl[pos:pos + n], model[pos:pos + n]
            pos += n
            d = vlib.first_divergence(io, mo)
            if d is not None:
                divergences.append((h, d, io[d] if d < len(io) else "<eof>", mo[d] if d < len(mo) else "<eof>"))
            for f in oracle(h.ops, io):
                oracle_fails.append((h, f))
            stats.feed(h, io)
        if (oracle_fails or crashes) and tier == "quick" and bi + 1 >= nprio:
            break

    missing = stats.gate() if not (oracle_fails or crashes or divergences) else []
    stats.d["coverage_gate_missing"] = missing
    rep.cov.update({
        "evaluations": stats.d["ops"], "distinct_nontrivial": len(stats.distinct),
        "rule": "operation histories over router keys whose AS numbers share tommy_inthash_u32 buckets (classes modulo 64 "
                "and modulo 1024), shared SKIs, 3 sources; small universes observed after every op, and table sizes swept "
                "over the grow/shrink thresholds with direction reversals inside a resize; reload sequences "
"(copy_except/swap/notify_diff); grow -> partial shrink (most keys of one source removed) -> regrow on one table "
                "scaled to 2^bucket_bit of the freshly initialised table under test; key_entry_cmp called directly on pairs differing "
                "in exactly one field (AS bit, SKI byte first/mid/20th, key byte first/20th/21st/mid/last, source) and on equal pairs; "
                "records differing in one field filed under one CHOSEN 32-bit hash through the real tommy_hashlin_search/insert/remove "
                "(forced full-hash collision); internal hash-table fields compared after every mutating op, bucket and list "
                "order compared literally; distinct = distinct (bucket_bit, low_max, split, state) configurations + distinct "
                "(lookup, answer) pairs observed on the implementation",
        "traces_validated_against_impl": len(cases) - len(set(id(x[0]) for x in divergences)) - len(crashes),
        "distribution": stats.d,
    })
    for h in cases[len(corpus):len(corpus) + 2] + cases[-1:]:
        rep.sample({"history": "%s/%s" % (h.kind, h.hid), "ops": h.ops[:10]})
    rep.assumptions = ["pthread rwlocks are not exercised here (single thread; C16)",
                       "allocation never fails in these runs (C18)",
                       "tommy_count_t is uint32_t in C and Nat in the model: agreement needs count < 2^29",
                       "bucket[bsr][pos] segment addressing is flattened to pos (ASan watches the real indexing)"]

    for h, nout, rc1, err1 in crashes[:2]:
        ops = minimise_crash(exe, h.ops)
        sig = crash_signature(err1)
        rep.violation("crash", "# implementation aborted (rc=%s) after %d replies\n# %s\n%s\n--- stderr ---\n%s\n" % (
            rc1, nout, sig, "\n".join(ops), err1[-3000:]), signature=sig)
    seen = set()
    # per clause, report the failure that comes with the shortest history (the most direct input)
    order_ = sorted(range(len(oracle_fails)), key=lambda k: (len(oracle_fails[k][0].ops), k))
    for k_ in order_:
        h, (clause, i, msg) = oracle_fails[k_]
        if clause in seen:
            continue
        seen.add(clause)
        ops = minimise_oracle(exe, h.ops, clause)
        o, _, _ = vlib.run_lines(exe, ops)
        f2 = [f for f in oracle(ops, o) if f[0] == clause]
        rep.violation("oracle_" + clause,
                      "# property C10 fails on the implementation: %s\n# clause: %s\n# first seen in history %s/%s line %d (%s)\n"
                      "# minimised replay (feed to the harness): observed replies follow each op after ' => '\n%s\n# %s\n" % (
                          msg, CLAUSE_TEXT[clause], h.kind, h.hid, i, h.ops[i],
                          "\n".join("%s    => %s" % (a, b) for a, b in zip(ops, o)),
                          f2[0][2] if f2 else msg))
    # the callbacks are also the change log of what rtr_sync does to the router-key table (apply, undo, purge, atomic reload)
    import rtrcheck
    sync_found = rtrcheck.cblog_scan(rep, "C10", tier)
    if sync_found is None:
        vlib.proof_failure(rep, "protocol harness build failed (callback log during synchronisation)")
        sync_found = []
    for c, msg in sync_found[:2]:
        rep.violation("oracle_sync", "# property C10 fails on the implementation: %s\n# mutation: %s\n%s\n" % (msg, c.meta.get("mut"), "\n".join(c.ops)))
    if divergences and not oracle_fails and not crashes:
        h, d, a, b = divergences[0]
        rep.build_log = "history %s/%s line %d (%s)\n impl : %s\n model: %s\nops:\n%s" % (
            h.kind, h.hid, d, h.ops[d] if d < len(h.ops) else "", a[:2000], b[:2000], "\n".join(h.ops[:d + 1][-400:]))
        vlib.proof_failure(rep, "correspondence spki (model RtrModel.Hashlin/RtrModel.Spki vs tommyhashlin.c/ht-spkitable.c) diverges")
    if not proved and not oracle_fails and not crashes and not divergences:
        vlib.proof_failure(rep, "\n".join(t for t, ok in rep.obligations.items() if not ok))
    if missing and proved:
        rep.build_log = "classes not reached by the generator: %s" % missing
        vlib.proof_failure(rep, "coverage gate of the spki generator (a required class was never exercised)")
    return rep.finish()



def replay(path):
    return vlib.generic_replay(path, build_harness, "spkidriver")

if __name__ == "__main__":
    pid = sys.argv[1] if len(sys.argv) > 1 else "C10"
    tier = sys.argv[2] if len(sys.argv) > 2 else "quick"
    sys.exit(run(pid, tier))
