#!/usr/bin/env python3
"""Intake of seeded changes delivered by a seed sub-agent in its worktree: tools/seedintake.py <worktree> <tag>

For every <worktree>/out/<ID>_<n>/ (patch.diff, demo, build.sh, meta.json): confirm the claim independently - the demo passes on the
original sources, the patch applies, the library builds and the pinned suite passes with it, the demo fails with it - and store the
change as seeded/<ID>_<tag><n>/ with the confirmation in meta.json["evaluation"].  Our checks are NOT run here (tools/seedfarm.py seeds
does that, in private copies)."""
import json
import os
import shutil
import sys

sys.path.insert(0, os.path.dirname(os.path.abspath(__file__)))
from seedtest import sh, VERIF


def main():
    wt, tag = sys.argv[1], sys.argv[2]
    out = os.path.join(wt, "out")
    for sub in sorted(os.listdir(out)):
        src = os.path.join(out, sub)
        patch = os.path.join(src, "patch.diff")
        if not os.path.isfile(patch):
            continue
        pid, n = sub.split("_")[0], sub.split("_")[-1]
        name = "%s_%s%s" % (pid, tag, n)
        res = {"property": pid, "seed_dir": src, "round": 4}
        sh("git checkout -- rtrlib third-party", cwd=wt)
        sh("cmake --build _build 2>&1 | tail -1", cwd=wt)
        rc_o, _ = sh("sh %s" % os.path.join(src, "build.sh"), cwd=wt)
        res["demo_without_patch_rc"] = rc_o
        rc, o = sh("git apply %s" % patch, cwd=wt)
        res["applies"] = rc == 0
        if rc == 0:
            rc, o = sh("cmake --build _build 2>&1 | tail -3; ctest --test-dir _build -E 'test_live_validation|test_dynamic_groups' 2>&1 | tail -4", cwd=wt)
            res["suite_with_patch"] = "100% tests passed" in o
            rc_p, _ = sh("sh %s" % os.path.join(src, "build.sh"), cwd=wt)
            res["demo_with_patch_rc"] = rc_p
            res["confirmed"] = bool(res["suite_with_patch"] and rc_p != 0 and rc_o == 0)
        else:
            res["confirmed"] = False
        sh("git checkout -- rtrlib third-party", cwd=wt)
        if res["confirmed"]:
            dst = os.path.join(VERIF, "seeded", name)
            os.makedirs(dst, exist_ok=True)
            for f in os.listdir(src):
                if os.path.isfile(os.path.join(src, f)) and os.path.getsize(os.path.join(src, f)) < 200000:
                    shutil.copy(os.path.join(src, f), os.path.join(dst, f))
            meta = {}
            mp = os.path.join(src, "meta.json")
            if os.path.exists(mp):
                try:
                    meta = json.load(open(mp))
                except Exception:
                    meta = {"raw": open(mp).read()[:2000]}
            meta["evaluation"] = res
            json.dump(meta, open(os.path.join(dst, "meta.json"), "w"), indent=1)
        print(name, json.dumps({k: res.get(k) for k in ("applies", "suite_with_patch", "demo_without_patch_rc", "demo_with_patch_rc", "confirmed")}), flush=True)


if __name__ == "__main__":
    main()
