#!/usr/bin/env python3
"""Evaluate a seeded breakage delivered by an independent sub-agent.

  tools/seedtest.py <seed-worktree> <PROPERTY-ID> [<name>]

1. in the seed's own scratch worktree: confirm that with the patch the library builds, the pinned
   suite passes and the demonstration fails; and that without the patch the demonstration passes;
2. apply the patch to /repo, run ./check <ID> (quick), record whether a VIOLATION is reported, undo;
3. store patch.diff, the demonstration and meta.json (incl. what we ran and saw) under /verif/seeded/<name>/.
"""
import json
import os
import shutil
import subprocess
import sys

VERIF = os.path.dirname(os.path.dirname(os.path.abspath(__file__)))


def sh(cmd, cwd=None, timeout=1800):
    r = subprocess.run(cmd, shell=True, cwd=cwd, stdout=subprocess.PIPE, stderr=subprocess.STDOUT, text=True, timeout=timeout)
    return r.returncode, r.stdout


def scratch_eval(wt, sub, name=None):
    """evaluate a round-2 seed (out/<ID>_<n>, build.sh not self-toggling) entirely in its own worktree: our check runs with
    VERIF_REPO=<worktree> (evidence and replays of /repo are not touched).  Only for domains without generated Lean parts."""
    pid = sub.split("_")[0]
    name = name or sub
    src = os.path.join(wt, "out", sub)
    patch = os.path.join(src, "patch.diff")
    res = {"property": pid, "seed_dir": src, "mode": "scratch worktree (VERIF_REPO)"}
    sh("git checkout -- rtrlib third-party", cwd=wt)
    rc_o, out_o = sh("sh %s" % os.path.join(src, "build.sh"), cwd=wt)
    res["demo_without_patch_rc"] = rc_o
    rc, out = sh("git apply %s" % patch, cwd=wt)
    if rc != 0:
        print("patch does not apply:", out)
        return 1
    try:
        rc, out = sh("cmake --build _build 2>&1 | tail -3; ctest --test-dir _build -E 'test_live_validation|test_dynamic_groups' 2>&1 | tail -4", cwd=wt)
        res["suite_with_patch"] = "100% tests passed" in out
        rc_p, out_p = sh("sh %s" % os.path.join(src, "build.sh"), cwd=wt)
        res["demo_with_patch_rc"] = rc_p
        res["confirmed"] = bool(res["suite_with_patch"] and rc_p != 0 and rc_o == 0)
        env = "VERIF_REPO=%s " % wt
        rc, out = sh(env + "./check %s --tier quick" % pid, cwd=VERIF, timeout=3600)
        res["check_rc"] = rc
        res["check_lines"] = [l for l in out.splitlines() if l.startswith("VIOLATION") or l.startswith("KNOWN-FINDING")]
        res["detected"] = any(l.startswith("VIOLATION") for l in out.splitlines())
        for l in res["check_lines"]:
            if l.startswith("VIOLATION") and "replay=" in l:
                p = l.split("replay=")[1].split()[0]
                if os.path.exists(p):
                    res.setdefault("replay_heads", []).append(open(p).read()[:600])
    finally:
        sh("git checkout -- rtrlib third-party", cwd=wt)
    dst = os.path.join(VERIF, "seeded", name)
    os.makedirs(dst, exist_ok=True)
    for f in os.listdir(src):
        if os.path.isfile(os.path.join(src, f)) and os.path.getsize(os.path.join(src, f)) < 200000:
            shutil.copy(os.path.join(src, f), os.path.join(dst, f))
    meta = {}
    mp = os.path.join(src, "meta.json")
    if os.path.exists(mp):
        try:
            meta = json.load(open(mp))
        except Exception:
            meta = {"raw": open(mp).read()[:2000]}
    meta["evaluation"] = res
    with open(os.path.join(dst, "meta.json"), "w") as f:
        json.dump(meta, f, indent=1)
    print(name, json.dumps({k: res.get(k) for k in ("confirmed", "detected", "check_rc", "check_lines")}))
    return 0


def recheck(name):
    """re-run our check against a stored seed (seeded/<name>/patch.diff) and update its evaluation"""
    dst = os.path.join(VERIF, "seeded", name)
    meta = json.load(open(os.path.join(dst, "meta.json")))
    res = meta.setdefault("evaluation", {})
    pid = res.get("property") or meta.get("property")
    rc, out = sh("git -C /repo status --short -- rtrlib third-party")
    if out.strip():
        print("/repo has local modifications; refusing")
        return 1
    rc, out = sh("git -C /repo apply %s" % os.path.join(dst, "patch.diff"))
    if rc != 0:
        print("patch does not apply:", out)
        return 1
    try:
        rc, out = sh("./check %s --tier quick" % pid, cwd=VERIF, timeout=3600)
        res["check_rc"] = rc
        res["check_lines"] = [l for l in out.splitlines() if l.startswith("VIOLATION") or l.startswith("KNOWN-FINDING")]
        res["detected"] = any(l.startswith("VIOLATION") for l in out.splitlines())
        res["replay_heads"] = []
        for l in res["check_lines"]:
            if l.startswith("VIOLATION") and "replay=" in l:
                p = l.split("replay=")[1].split()[0]
                if os.path.exists(p):
                    res["replay_heads"].append(open(p).read()[:600])
        res["rechecked"] = True
    finally:
        sh("git -C /repo checkout -- .")
        sh("python3 tools/gen_constants.py; python3 tools/gen_locks.py", cwd=VERIF)
        rc2, out2 = sh("./check %s --tier quick" % pid, cwd=VERIF, timeout=3600)
        res["clean_rerun_rc"] = rc2
    with open(os.path.join(dst, "meta.json"), "w") as f:
        json.dump(meta, f, indent=1)
    print(name, json.dumps({k: res.get(k) for k in ("detected", "check_rc", "check_lines")}))
    return 0


def rescratch(wt, name, extra_checks=()):
    """re-run our check against a stored seed in a scratch worktree (VERIF_REPO=<wt>; /repo is not touched) and update its evaluation"""
    dst = os.path.join(VERIF, "seeded", name)
    meta = json.load(open(os.path.join(dst, "meta.json")))
    res = meta.setdefault("evaluation", {})
    pid = res.get("property") or meta.get("property")
    sh("git checkout -- .", cwd=wt)
    rc, out = sh("git apply %s" % os.path.join(dst, "patch.diff"), cwd=wt)
    if rc != 0:
        print(name, "patch does not apply:", out[-200:])
        return 1
    try:
        rc, out = sh("VERIF_REPO=%s ./check %s --tier quick" % (wt, pid), cwd=VERIF, timeout=3600)
        res["check_rc"] = rc
        res["check_lines"] = [l for l in out.splitlines() if l.startswith("VIOLATION") or l.startswith("KNOWN-FINDING")]
        res["detected"] = any(l.startswith("VIOLATION") for l in out.splitlines())
        res["mode"] = "scratch worktree (VERIF_REPO), re-evaluated"
        res["replay_heads"] = []
        for l in res["check_lines"]:
            if l.startswith("VIOLATION") and "replay=" in l:
                p = l.split("replay=")[1].split()[0]
                if os.path.exists(p):
                    res["replay_heads"].append(open(p).read()[:600])
    finally:
        sh("git checkout -- .", cwd=wt)
    with open(os.path.join(dst, "meta.json"), "w") as f:
        json.dump(meta, f, indent=1)
    print(name, json.dumps({k: res.get(k) for k in ("detected", "check_rc", "check_lines")}), flush=True)
    return 0


def main():
    if sys.argv[1] == "--rescratch":
        rc = 0
        for n in sys.argv[3:]:
            rc |= rescratch(sys.argv[2], n)
        return rc
    if sys.argv[1] == "--scratch":
        return scratch_eval(sys.argv[2], sys.argv[3], sys.argv[4] if len(sys.argv) > 4 else None)
    if sys.argv[1] == "--recheck":
        rc = 0
        for n in sys.argv[2:]:
            rc |= recheck(n)
        return rc
    wt, sub = sys.argv[1], sys.argv[2]
    pid = sub.split("_")[0]          # out/<ID> or out/<ID>_<n>
    name = sys.argv[3] if len(sys.argv) > 3 else sub
    src = os.path.join(wt, "out", sub)
    patch = os.path.join(src, "patch.diff")
    res = {"property": pid, "seed_dir": src}
    sh("git checkout -- rtrlib third-party", cwd=wt)
    # --- with the patch
    rc, out = sh("git apply %s" % patch, cwd=wt)
    if rc != 0:
        print("patch does not apply in its own worktree:", out)
        return 1
    rc, out = sh("cmake --build _build 2>&1 | tail -3; ctest --test-dir _build -E 'test_live_validation|test_dynamic_groups' 2>&1 | tail -4", cwd=wt)
    res["suite_with_patch"] = "100% tests passed" in out
    res["suite_with_patch_tail"] = out[-300:]
    bs = open(os.path.join(src, "build.sh")).read()
    self_toggling = ("git" in bs and "apply" in bs and "checkout" in bs and
                     any(l.strip().startswith("git ") and "apply" in l for l in bs.splitlines()))
    if self_toggling:
        # the delivered script builds and runs the demonstration on the original and on the patched sources itself
        sh("git checkout -- rtrlib third-party", cwd=wt)
        arg = " both" if '"both"' in bs else ""
        rc_b, out_b = sh("sh %s%s" % (os.path.join(src, "build.sh"), arg), cwd=wt)
        sh("git checkout -- rtrlib third-party", cwd=wt)
        res["build_sh_mode"] = "self-toggling"
        res["build_sh_rc"] = rc_b
        res["build_sh_tail"] = out_b[-1500:]
        res["confirmed"] = bool(res["suite_with_patch"])
        res["confirmed_note"] = "suite with patch re-run by us; demonstration outcome taken from the delivered build.sh (see build_sh_tail)"
    else:
        rc_demo_p, out_p = sh("sh %s" % os.path.join(src, "build.sh"), cwd=wt)
        res["demo_with_patch_rc"] = rc_demo_p
        sh("git checkout -- rtrlib third-party", cwd=wt)
        sh("cmake --build _build 2>&1 | tail -1", cwd=wt)
        rc_demo_o, out_o = sh("sh %s" % os.path.join(src, "build.sh"), cwd=wt)
        res["demo_without_patch_rc"] = rc_demo_o
        res["confirmed"] = bool(res["suite_with_patch"] and rc_demo_p != 0 and rc_demo_o == 0)
    # --- our check against /repo with the patch
    rc, out = sh("git -C /repo status --short -- rtrlib third-party")
    if out.strip():
        print("/repo has local modifications; refusing")
        return 1
    rc, out = sh("git -C /repo apply %s" % patch)
    res["applies_to_repo"] = rc == 0
    if rc == 0:
        try:
            rc, out = sh("./check %s --tier quick" % pid, cwd=VERIF, timeout=3600)
            res["check_rc"] = rc
            res["check_lines"] = [l for l in out.splitlines() if l.startswith("VIOLATION") or l.startswith("KNOWN-FINDING")]
            res["detected"] = any(l.startswith("VIOLATION") for l in out.splitlines())
            for l in res["check_lines"]:
                if l.startswith("VIOLATION") and "replay=" in l:
                    p = l.split("replay=")[1].split()[0]
                    if os.path.exists(p):
                        res.setdefault("replay_heads", []).append(open(p).read()[:600])
        finally:
            sh("git -C /repo checkout -- .")
            # the translators wrote model parts generated from the seeded source: regenerate from the clean tree
            sh("python3 tools/gen_constants.py; python3 tools/gen_locks.py", cwd=VERIF)
            # the evidence file was rewritten by the run against the seeded tree: rewrite it from the clean tree
            rc2, out2 = sh("./check %s --tier quick" % pid, cwd=VERIF, timeout=3600)
            res["clean_rerun_rc"] = rc2
    dst = os.path.join(VERIF, "seeded", name)
    os.makedirs(dst, exist_ok=True)
    for f in os.listdir(src):
        if os.path.isfile(os.path.join(src, f)) and os.path.getsize(os.path.join(src, f)) < 200000:
            shutil.copy(os.path.join(src, f), os.path.join(dst, f))
    meta = {}
    mp = os.path.join(src, "meta.json")
    if os.path.exists(mp):
        try:
            meta = json.load(open(mp))
        except Exception:
            meta = {"raw": open(mp).read()[:2000]}
    meta["evaluation"] = res
    with open(os.path.join(dst, "meta.json"), "w") as f:
        json.dump(meta, f, indent=1)
    print(json.dumps({k: res.get(k) for k in ("confirmed", "applies_to_repo", "detected", "check_rc", "check_lines")}, indent=1))
    return 0


if __name__ == "__main__":
    sys.exit(main())
