"""Checks C11 and C12 (BGPsec): proofs about RtrModel.Bgpsec / Rtr.Rfc8205 + tie to bgpsec.c, bgpsec_utils.c.

Implementation side (harness/bgpsec_harness.c): the real align_byte_sequence / req_stream_size /
rtr_bgpsec_validate_as_path / rtr_bgpsec_generate_signature, plus plain-OpenSSL keygen / sign /
verify that never touch rtrlib's layout code.  Model side (bgpdriver): alignBytes, reqStreamSize,
the SPEC digests Rfc8205.digest / signDigest, key selection and decision logic over a verify oracle.

  tie 1  align / size      byte-for-byte on random paths (both alignment types)
  tie 2  end to end        fresh P-256 keys; every hop signed BY THE HARNESS WITH OPENSSL over SHA-256 of
                           the octets computed by the Lean SPEC; rtrlib validates: VALID; every single-bit
                           corruption of every signed field: not VALID; key tables with several keys per
                           SKI, unusable keys, keys under other AS numbers.  Every answer of rtrlib is
                           compared with (a) the property's own oracle evaluated from independent OpenSSL
                           verifications over the spec octets and (b) the model's decision logic.
  tie 3  signing           rtr_bgpsec_generate_signature: OpenSSL ECDSA_verify over SHA-256(Lean signDigest)
                           under the public key, strict DER, sig_len; paths built hop by hop by rtrlib and
                           then validated by rtrlib; error codes.
"""
import os
import re
import sys

sys.path.insert(0, os.path.dirname(os.path.abspath(__file__)))
import vlib

PROPS = {
    "C11": {
        "modules": ["RtrProps.C11"],
        "theorems": ["Rtr.C11.align_eq_rfc", "Rtr.C11.align_length", "Rtr.C11.decision", "Rtr.C11.decision_partial", "Rtr.C11.decision_general",
                     "Rtr.C11.loop_overrun_current", "Rtr.C11.loop_overrun_repaired",
                     "Rtr.C11.witness_valid_skiOnly", "Rtr.C11.decision_fails_skiOnly", "Rtr.C11.witness_refused_skiAndAs",
                     "Rtr.C11.digest_injective", "Rtr.C11.digest_changes",
                     "Rtr.C11.err_null", "Rtr.C11.err_null_nlri", "Rtr.C11.err_arguments", "Rtr.C11.err_segment_count", "Rtr.C11.err_suite",
                     "Rtr.C11.err_afi", "Rtr.C11.err_missing_key", "Rtr.C11.never_valid_unless_supported"],
    },
    "C12": {
        "modules": ["RtrProps.C12"],
        "theorems": ["Rtr.C12.sign_digest_eq_rfc", "Rtr.C12.sign_stream_size", "Rtr.C12.generate_signs_rfc_digest",
                     "Rtr.C12.hop_by_hop_valid", "Rtr.C12.sign_err_null", "Rtr.C12.sign_err_null_nlri", "Rtr.C12.sign_err_arguments",
                     "Rtr.C12.sign_err_suite", "Rtr.C12.sign_err_afi", "Rtr.C12.sign_err_segment_count",
                     "Rtr.C12.sign_err_key", "Rtr.C12.sign_no_output_on_error"],
    },
}

SIG_F10 = "C11/key-as-mismatch"
CORPUS = os.path.join(vlib.VERIF, "corpus", "bgpsec")
# corpus file -> (property, signature or None)
CORPUS_FILES = {
    "rfc8208_example.ops": ("C11", None),
    "seeded_C11_f_foreign_as_key_last.ops": ("C11", None),
    "F10_key_as_mismatch.ops": ("C11", SIG_F10),
    "Fbgp1_pathlen_wrap_validate.ops": ("C11", "C11/segment-count-wrap"),
    "Fbgp1_pathlen_wrap_sign.ops": ("C12", "C12/segment-count-wrap"),
    "Fbgp2_stream_size_overflow.ops": ("C11", "C11/stream-size-overflow"),
    "Fbgp3_loop_overrun.ops": ("C11", "C11/loop-overrun"),
    "Fbgp4_null_nlri_validate.ops": ("C11", "C11/null-nlri"),
    "Fbgp4_null_nlri_sign.ops": ("C12", "C12/null-nlri"),
}


# ------------------------------------------------------------------------------------------
# path description
# ------------------------------------------------------------------------------------------

class D:
    """struct rtr_bgpsec as the harness builds it (lists most recent first)"""

    def __init__(self, alg=1, afi=1, safi=1, nafi=1, nlen=24, nbytes=b"\xc0\x00\x02", target=65537, path=None, sigs=None):
        self.alg, self.afi, self.safi, self.nafi, self.nlen, self.nbytes, self.target = alg, afi, safi, nafi, nlen, nbytes, target
        self.path = list(path or [])      # (pcount, flags, asn)
        self.sigs = list(sigs or [])      # (ski bytes, sig bytes)

    def copy(self):
        return D(self.alg, self.afi, self.safi, self.nafi, self.nlen, self.nbytes, self.target, self.path, self.sigs)

    def toks(self):
        nb = self.nbytes.hex() or "-"
        t = [str(self.alg), str(self.afi), str(self.safi), str(self.nafi), str(self.nlen), nb, str(self.target),
             str(len(self.path))]
        t += ["%d:%d:%d" % p for p in self.path]
        t.append(str(len(self.sigs)))
        t += ["%s:%d:%s" % (ski.hex(), len(sig), sig.hex()) for ski, sig in self.sigs]
        return " ".join(t)

    def supported(self):
        return bool(self.path) and bool(self.sigs) and len(self.path) == len(self.sigs) and self.alg == 1 and self.nafi in (1, 2)


def table_toks(keys):
    return "K %d %s" % (len(keys), " ".join("%d:%s:%s" % (a, s.hex(), k.hex()) for a, s, k in keys))


def nlri_bytes(nlen):
    return (nlen + 7) // 8


def expected_precheck(d):
    """error-code order of rtr_bgpsec_validate_as_path as the property states it"""
    if not d.path or not d.sigs:
        return "INVALID_ARGUMENTS"
    if len(d.path) != len(d.sigs):
        return "WRONG_SEGMENT_COUNT"
    if d.alg != 1:
        return "UNSUPPORTED_ALGORITHM_SUITE"
    if d.nafi not in (1, 2):
        return "UNSUPPORTED_AFI"
    return None


# ------------------------------------------------------------------------------------------
# process helpers
# ------------------------------------------------------------------------------------------

class Crash(Exception):
    def __init__(self, line, nout, rc, err):
        self.line, self.nout, self.rc, self.err = line, nout, rc, err


class Runner:
    def __init__(self, exe, drv):
        self.exe, self.drv = exe, drv
        self.impl_lines = 0
        self.model_lines = 0

    def impl(self, lines, timeout=600):
        if not lines:
            return []
        out, rc, err = vlib.run_lines(self.exe, lines, timeout=timeout)
        self.impl_lines += len(lines)
        if rc != 0 or len(out) != len(lines):
            k = min(len(out), len(lines) - 1)
            raise Crash(lines[k], len(out), rc, err)
        return out

    def model(self, lines, timeout=600):
        if not lines:
            return []
        out, rc, err = vlib.run_lines(self.drv, lines, timeout=timeout)
        self.model_lines += len(lines)
        if rc != 0 or len(out) != len(lines):
            raise RuntimeError("model driver failed rc=%s after %d of %d lines: %s" % (rc, len(out), len(lines), err[-400:]))
        return out


def crash_signature(err):
    m = re.search(r"ERROR: AddressSanitizer: ([a-zA-Z-]+)", err)
    if m:
        fn = re.search(r"#1 0x[0-9a-f]+ in (\w+)", err)
        return "asan:%s%s" % (m.group(1), (":" + fn.group(1)) if fn else "")
    m = re.search(r"runtime error: ([^\n]*)", err)
    if m:
        return "ubsan:" + re.sub(r"0x[0-9a-f]+|\d+", "N", m.group(1))[:80]
    m = re.search(r"Assertion `([^']*)' failed", err)
    if m:
        return "assert:" + m.group(1)
    return "crash"


# ------------------------------------------------------------------------------------------
# corpus
# ------------------------------------------------------------------------------------------

def run_corpus_file(R, path):
    """returns list of (line, expectation, observed) that fail; a crash is a failure of that line"""
    fails = []
    exp = None
    for raw in open(path):
        raw = raw.rstrip("\n")
        if raw.startswith("#= "):
            exp = ("=", raw[3:].strip())
            continue
        if raw.startswith("#!= "):
            exp = ("!=", raw[4:].strip())
            continue
        if not raw.strip() or raw.startswith("#"):
            continue
        try:
            out = R.impl([raw])[0]
        except Crash as c:
            out = "CRASH " + crash_signature(c.err)
            fails.append((raw, exp, out, c.err))
            exp = None
            continue
        if exp:
            ok = (out == exp[1]) if exp[0] == "=" else (out.split()[0] != exp[1])
            if not ok:
                fails.append((raw, exp, out, ""))
        exp = None
    return fails


def corpus_model_lines(path):
    """the `#=` lines of a corpus file whose request the model driver also understands verbatim"""
    res = []
    exp = None
    for raw in open(path):
        raw = raw.rstrip("\n")
        if raw.startswith("#= "):
            exp = raw[3:].strip()
            continue
        if not raw.strip() or raw.startswith("#"):
            continue
        if exp and raw.split()[0] in ("validate-nonlri", "gensig-nonlri"):
            res.append((raw, exp))
        exp = None
    return res


# ------------------------------------------------------------------------------------------
# generators
# ------------------------------------------------------------------------------------------

INTERESTING_ASN = [0, 1, 23456, 64496, 65535, 65536, 65537, 0x7fffffff, 0x80000000, 0xfffffffe, 0xffffffff]


def rand_asn(r):
    return r.choice(INTERESTING_ASN) if r.random() < 0.3 else r.getrandbits(32)


def rand_nlri(r, afi=None, nlen=None, canonical=True):
    if afi is None:
        afi = r.choice([1, 2])
    if nlen is None:
        nlen = r.randint(0, 32 if afi == 1 else 128)
    nb = bytearray(r.getrandbits(8) for _ in range(nlri_bytes(nlen)))
    if canonical and nlen % 8 and nb:
        nb[-1] &= (0xff << (8 - nlen % 8)) & 0xff
    return afi, nlen, bytes(nb)


def rand_path_seg(r):
    return (r.choice([0, 1, 1, 2, 255, r.getrandbits(8)]), r.choice([0, 0, 128, 255, r.getrandbits(8)]), rand_asn(r))


def gen_align_cases(r, count, lens_cycle):
    """request lines for the byte-level tie: arbitrary field values, sig lengths 0..80, NLRI of every length"""
    lines = []
    meta = []
    for c in range(count):
        n = 1 + (c % 8) if c < 64 else r.randint(1, 8)
        afi, nlen = lens_cycle[c % len(lens_cycle)]
        if r.random() < 0.1:
            nlen = r.randint(0, 255)           # beyond the family's maximum: the code does not care
        _, _, nb = rand_nlri(r, afi, nlen, canonical=(r.random() < 0.5))
        for ty in ("V", "S"):
            d = D(alg=r.choice([1, 1, 0, 2, 255, r.getrandbits(8)]), afi=r.choice([afi, afi, 0, 3, 0xffff, r.getrandbits(16)]),
                  safi=r.choice([1, 1, 2, 128, r.getrandbits(8)]), nafi=afi, nlen=nlen, nbytes=nb, target=rand_asn(r))
            d.path = [rand_path_seg(r) for _ in range(n)]
            if ty == "V":
                ns = n if r.random() < 0.8 else r.randint(1, n + 1)       # startSigs = ns-1 <= n
            else:
                ns = n - 1 if r.random() < 0.8 else r.randint(0, n)
            d.sigs = []
            for _ in range(ns):
                sl = (c + len(d.sigs) * 7) % 81 if r.random() < 0.5 else r.randint(0, 80)
                d.sigs.append((bytes(r.getrandbits(8) for _ in range(20)), bytes(r.getrandbits(8) for _ in range(sl))))
            lines.append("align %s %s" % (ty, d.toks()))
            lines.append("size %s %s" % (ty, d.toks()))
            meta.append((ty, n, afi, nlen, [len(s) for _, s in d.sigs]))
    return lines, meta


class Key:
    def __init__(self, priv, spki, ski):
        self.priv, self.spki, self.ski = priv, spki, ski


def keygen(R, n):
    out = R.impl(["keygen"] * n)
    ks = []
    for o in out:
        w = o.split()
        assert w[0] == "key" and len(w) == 4, o
        ks.append(Key(bytes.fromhex(w[1]), bytes.fromhex(w[2]), bytes.fromhex(w[3])))
    return ks


class Case:
    """one end-to-end case: a signed path + a key table + what the table is meant to exercise"""

    def __init__(self, cid):
        self.cid = cid
        self.d = None
        self.signers = []     # Key per hop (most recent first)
        self.table = []       # (asn, ski, spki)
        self.kind = ""


def build_tables(r, case, extra_keys, kind):
    """key table for a signed case.  kinds:
       plain      every signer's key under its own AS
       multi      additionally other keys with the same SKI (before/after), also under the same AS, and unusable keys
       otheras    additionally the SAME keys under other AS numbers and unrelated keys
       wrongas    one signer's key is ONLY filed under another AS number (F10 class)
       missing    one signer's key is missing altogether"""
    d = case.d
    tab = []
    n = len(d.path)
    victim = r.randrange(n)
    for i in range(n):
        k = case.signers[i]
        asn = d.path[i][2]
        own = (asn, k.ski, k.spki)
        before, after = [], []
        if kind == "multi":
            for _ in range(r.randint(1, 2)):
                e = extra_keys.pop()
                (before if r.random() < 0.5 else after).append((r.choice([asn, asn, rand_asn(r)]), k.ski, e.spki))
            if r.random() < 0.5:
                junk = bytes(r.getrandbits(8) for _ in range(91))
                (before if r.random() < 0.5 else after).append((asn, k.ski, junk))
        if kind == "otheras":
            (before if r.random() < 0.5 else after).append(((asn + 1) & 0xffffffff, k.ski, k.spki))
            e = extra_keys.pop()
            after.append((rand_asn(r), e.ski, e.spki))
        if kind == "wrongas" and i == victim:
            own = ((asn ^ (1 << r.randrange(32))), k.ski, k.spki)
            if r.random() < 0.5:
                e = extra_keys.pop()
                after.append((asn, e.ski, e.spki))      # a key of the right AS, but another SKI
        if kind == "missing" and i == victim:
            own = None
        tab += before + ([own] if own else []) + after
    # the table refuses exact duplicates; keep first occurrences (as both sides do)
    seen = set()
    res = []
    for e in tab:
        if e not in seen:
            seen.add(e)
            res.append(e)
    if r.random() < 0.3:
        r.shuffle(res)
    case.table = res
    case.kind = kind


KEY_ROLES = ("RR", "WR", "RW", "WW")     # (Right|Wrong key) under (Right|Wrong AS), all with the hop's SKI


def systematic_tables(case, victim, wrong_key, max_len=4):
    """For hop `victim` of a signed case: every sequence (all subsets, ALL insertion orders) of up to `max_len`
    of the four kinds of router key carrying the hop's SKI
        RR the signer's key under the hop's AS      WR another key under the hop's AS
        RW the signer's key under another AS        WW another key under another AS
    while every other hop has its own key under its own AS.  The victim's keys are inserted at the position of
    the hop's own key, so that table order = order of the sequence (spki_table_search_by_ski returns insertion
    order).  Yields (label, table)."""
    import itertools
    d = case.d
    n = len(d.path)
    asn = d.path[victim][2]
    k = case.signers[victim]
    other_asn = (asn ^ 0x10000) & 0xffffffff
    entry = {"RR": (asn, k.ski, k.spki), "WR": (asn, k.ski, wrong_key.spki),
             "RW": (other_asn, k.ski, k.spki), "WW": (other_asn, k.ski, wrong_key.spki)}
    plain = [(d.path[i][2], case.signers[i].ski, case.signers[i].spki) for i in range(n)]
    for ln in range(1, max_len + 1):
        for seq in itertools.permutations(KEY_ROLES, ln):
            tab = plain[:victim] + [entry[x] for x in seq] + plain[victim + 1:]
            # a hop further down the path may use the same AS/SKI only by accident (random 32-bit / SHA-1 values)
            yield "hop %d keys %s" % (victim, ">".join(seq)), tab


# ------------------------------------------------------------------------------------------
# the validation pipeline: spec digests -> independent verification -> oracle + model + implementation
# ------------------------------------------------------------------------------------------

class VReq:
    def __init__(self, d, table, tag):
        self.d, self.table, self.tag = d, table, tag
        self.impl = self.model = self.oracle = None
        self.oracle_why = ""
        self.f10 = False


def run_validations(R, reqs, mode, vcache):
    """fills impl / model / oracle of every request"""
    todo = [q for q in reqs if q.d.supported()]
    # 1. spec digests and selected keys from the model
    qout = R.model(["queries %s %s" % (q.d.toks(), table_toks(q.table)) for q in todo])
    need = []
    hopinfo = {}
    for q, line in zip(todo, qout):
        hops = []
        for tok in line.split():
            i, dg, sig, spkis = tok.split("/")
            keys = [s for s in spkis.split(",") if s]
            hops.append((dg, sig, keys))
            for s in keys:
                kk = (s, dg, sig)
                if kk not in vcache:
                    vcache[kk] = None
                    need.append(kk)
        hopinfo[id(q)] = hops
    # 2. independent verification (OpenSSL over SHA-256 of the spec octets)
    vout = R.impl(["verify %s %s %s" % (s, dg or "-", sig or "-") for s, dg, sig in need])
    for kk, o in zip(need, vout):
        vcache[kk] = o
    # 3. model decision, 4. implementation
    mlines, ilines = [], []
    for q in reqs:
        base = "validate %s %s" % (q.d.toks(), table_toks(q.table))
        ilines.append(base)
        if q.d.supported():
            outs = []
            for dg, sig, keys in hopinfo[id(q)]:
                outs.append("".join(vcache[(s, dg, sig)] for s in keys) or "-")
            mlines.append("%s O %s %s" % (base, mode, " ".join(outs)))
        else:
            mlines.append("%s O %s" % (base, mode))
    mout = R.model(mlines)
    iout = R.impl(ilines)
    # 5. the property's oracle
    for q, mo, io in zip(reqs, mout, iout):
        q.model, q.impl = mo, io
        pre = expected_precheck(q.d)
        if pre:
            q.oracle, q.oracle_why = pre, "pre-check"
            continue
        hops = hopinfo[id(q)]
        verdict = "VALID"
        for i, (dg, sig, keys) in enumerate(hops):
            ski = q.d.sigs[i][0]
            asn = q.d.path[i][2]
            by_ski = [(a, k) for a, s, k in q.table if s == ski]
            right = [k for a, k in by_ski if a == asn]
            if not right:
                verdict = "ROUTER_KEY_NOT_FOUND"
                q.oracle_why = "hop %d: no router key registered for SKI %s.. and AS %d" % (i, ski.hex()[:8], asn)
                if by_ski:
                    q.f10 = True      # a key with this SKI exists, but only under other AS numbers
                break
        if verdict == "VALID":
            for i, (dg, sig, keys) in enumerate(hops):
                ski = q.d.sigs[i][0]
                asn = q.d.path[i][2]
                ok = any(a == asn and vcache.get((k.hex(), dg, sig)) == "v" for a, s, k in q.table if s == ski)
                if not ok:
                    verdict = "NOT-VALID"       # NOT_VALID or ERROR: the property only demands "not VALID"
                    q.oracle_why = "hop %d: no key registered for (SKI, AS %d) verifies the signature over the RFC 8205 octets" % (i, asn)
                    if any(vcache.get((k.hex(), dg, sig)) == "v" for a, s, k in q.table if s == ski):
                        q.f10 = True
                    break
        q.oracle = verdict


def oracle_agrees(q):
    if q.oracle == "NOT-VALID":
        return q.impl in ("NOT_VALID", "ERROR")
    return q.impl == q.oracle


# ------------------------------------------------------------------------------------------
# corruptions
# ------------------------------------------------------------------------------------------

def corruptions(d):
    """every single-bit change of every field of a path description, as (class, mutated D).
    Signed at hop 0: target, every Secure_Path segment, every Signature Segment but the first, suite, AFI, SAFI,
    NLRI length and octets.  Not signed but still decisive: the first Signature Segment, nlri->afi."""
    out = []

    def mut(cls, f):
        m = d.copy()
        f(m)
        out.append((cls, m))
    for b in range(32):
        mut("target", lambda m, b=b: setattr(m, "target", m.target ^ (1 << b)))
    for i in range(len(d.path)):
        for fld, width in ((0, 8), (1, 8), (2, 32)):
            for b in range(width):
                def f(m, i=i, fld=fld, b=b):
                    p = list(m.path[i])
                    p[fld] ^= (1 << b)
                    m.path[i] = tuple(p)
                mut(("pcount", "flags", "asn")[fld], f)
    for i in range(len(d.sigs)):
        ski, sig = d.sigs[i]
        first = "0" if i == 0 else ""
        for b in range(160):
            def f(m, i=i, b=b):
                s, g = m.sigs[i]
                s = bytearray(s)
                s[b // 8] ^= (1 << (b % 8))
                m.sigs[i] = (bytes(s), g)
            mut("ski" + first, f)
        for b in range(16):
            def f(m, i=i, b=b):
                s, g = m.sigs[i]
                nl = len(g) ^ (1 << b)
                g = (g + bytes(nl))[:nl]
                m.sigs[i] = (s, g)
            mut("siglen" + first, f)
        for b in range(8 * len(sig)):
            def f(m, i=i, b=b):
                s, g = m.sigs[i]
                g = bytearray(g)
                g[b // 8] ^= (1 << (b % 8))
                m.sigs[i] = (s, bytes(g))
            mut("sig" + first, f)
    for b in range(8):
        mut("alg", lambda m, b=b: setattr(m, "alg", m.alg ^ (1 << b)))
    for b in range(16):
        mut("afi", lambda m, b=b: setattr(m, "afi", m.afi ^ (1 << b)))
    for b in range(8):
        mut("safi", lambda m, b=b: setattr(m, "safi", m.safi ^ (1 << b)))
    for b in range(8):
        def f(m, b=b):
            m.nlen ^= (1 << b)
            m.nbytes = (m.nbytes + bytes(32))[:nlri_bytes(m.nlen)]
        mut("nlrilen", f)
    for b in range(8 * len(d.nbytes)):
        def f(m, b=b):
            nb = bytearray(m.nbytes)
            nb[b // 8] ^= (1 << (b % 8))
            m.nbytes = bytes(nb)
        mut("nlri", f)
    for b in range(16):
        mut("nlri.afi", lambda m, b=b: setattr(m, "nafi", m.nafi ^ (1 << b)))
    return out


# ------------------------------------------------------------------------------------------
# building signed paths
# ------------------------------------------------------------------------------------------

def sign_cases_with_openssl(R, cases):
    """sign every hop with plain OpenSSL over the octets of the Lean spec, origin first"""
    maxn = max(len(c.d.path) for c in cases)
    for depth in range(maxn):
        todo = [c for c in cases if len(c.d.path) > depth]
        # hop index (most recent first) signed in this pass: n-1-depth
        dlines = []
        for c in todo:
            i = len(c.d.path) - 1 - depth
            dlines.append("digest %s %d" % (c.d.toks(), i))
        dg = R.model(dlines)
        sg = R.impl(["sign %s %s" % (c.signers[len(c.d.path) - 1 - depth].priv.hex(), x) for c, x in zip(todo, dg)])
        for c, o in zip(todo, sg):
            w = o.split()
            assert w[0] == "sig", o
            i = len(c.d.path) - 1 - depth
            c.d.sigs[i] = (c.signers[i].ski, bytes.fromhex(w[1]))


def make_signed_cases(R, r, count, lens_cycle, start_id=0):
    cases = []
    nk = 0
    shapes = []
    for c in range(count):
        n = [1, 2, 3, 8, 4, 5, 6, 7][c % 8] if c < 16 else r.randint(1, 8)
        shapes.append(n)
        nk += n + 3 * n
    keys = keygen(R, nk)
    kinds = ["plain", "multi", "otheras", "wrongas", "missing", "multi", "otheras", "plain"]
    for c in range(count):
        n = shapes[c]
        afi, nlen = lens_cycle[c % len(lens_cycle)]
        _, _, nb = rand_nlri(r, afi, nlen, canonical=True)
        case = Case(start_id + c)
        d = D(alg=1, afi=afi, safi=r.choice([1, 1, 2, r.getrandbits(8)]), nafi=afi, nlen=nlen, nbytes=nb, target=rand_asn(r))
        d.path = [rand_path_seg(r) for _ in range(n)]
        case.signers = [keys.pop() for _ in range(n)]
        d.sigs = [(k.ski, b"\x00") for k in case.signers]
        case.d = d
        extra = [keys.pop() for _ in range(3 * n)]
        build_tables(r, case, extra, kinds[c % len(kinds)] if c >= 3 else "plain")
        cases.append(case)
    sign_cases_with_openssl(R, cases)
    return cases


# ------------------------------------------------------------------------------------------
# main
# ------------------------------------------------------------------------------------------

def lens_cycle_all(r):
    lens = [(1, l) for l in range(33)] + [(2, l) for l in range(129)]
    r.shuffle(lens)
    return lens


def hist(dct, k, n=1):
    dct[k] = dct.get(k, 0) + n


def run(pid, tier):
    rep = vlib.Report(pid, tier)
    P = PROPS[pid]
    proved = vlib.prove(rep, P["modules"], P["theorems"], extra_targets=["bgpdriver"])
    drv = vlib.driver_path("bgpdriver")
    if not os.path.exists(drv):
        ok, log = vlib.lake_build(["bgpdriver"])
        if not ok:
            rep.build_log = log
            vlib.proof_failure(rep, "model driver bgpdriver does not build")
            return rep.finish()
    exe, blog = vlib.build_harness("bgpsec", ["bgpsec_harness.c"], exclude=["rtrlib/bgpsec/bgpsec_utils.c"])
    if exe is None:
        rep.build_log = blog
        vlib.proof_failure(rep, "harness build against the repository failed (correspondence bgpsec)")
        return rep.finish()
    R = Runner(exe, drv)
    r = vlib.rng(pid)
    thorough = tier == "thorough"
    stats = {"corpus": {}, "align_cases": 0, "hops": {}, "afi_len_covered": 0, "sig_len_covered": 0, "codes": {},
             "table_kinds": {}, "corruption_classes": {}, "corrupted_validations": 0, "signed_cases": 0,
             "verify_outcomes": {}, "gensig": {}, "hop_by_hop_paths": 0, "key_mode": None}
    violations = 0
    divergences = []      # (what, request line, impl, model)
    oracle_fails = []     # (signature or None, text)
    distinct = set()

    # ---------------- corpus first: known findings / past failures, each with its own replay --------------
    mode = "skias"
    stop = ""
    for fn in sorted(os.listdir(CORPUS)) if os.path.isdir(CORPUS) else []:
        if not fn.endswith(".ops"):
            continue
        prop, sig = CORPUS_FILES.get(fn, (None, None))
        fails = run_corpus_file(R, os.path.join(CORPUS, fn))
        stats["corpus"][fn] = "fails" if fails else "ok"
        for raw, exp in corpus_model_lines(os.path.join(CORPUS, fn)):
            mo = R.model([raw])[0]
            if mo != exp:
                divergences.append(("corpus " + fn + " (model as repaired)", raw[:300], exp, mo))
        if fn == "F10_key_as_mismatch.ops" and fails:
            mode = "ski"
        if fn == "Fbgp3_loop_overrun.ops" and not fails:
            stop = "+stop"
        if fails and (prop == pid or prop is None):
            raw, exp, out, err = fails[0]
            txt = "# corpus/bgpsec/%s: the implementation fails the property on this input\n# expected: reply %s %s\n# observed: %s\n%s\n%s" % (
                fn, exp[0] if exp else "", exp[1] if exp else "(no crash)", out, raw if len(raw) < 20000 else raw[:20000] + " …(see corpus file)",
                ("\n--- stderr ---\n" + err[-2500:]) if err else "")
            rep.violation("corpus_" + fn.split(".")[0], txt, signature=sig)
            violations += 1
    # which of the two behaviours (current / repaired) the tree under test shows decides which model variant the
    # tie is run against; the property theorems at full strength are about the repaired variant
    mode = mode + stop
    stats["key_mode"] = mode

    lens = lens_cycle_all(r)
    try:
        # ---------------- tie 1: align_byte_sequence / req_stream_size byte for byte ----------------------
        n_align = 400 if not thorough else 8000
        lines, meta = gen_align_cases(r, n_align, lens)
        io = R.impl(lines)
        mo = R.model(lines)
        k = vlib.first_divergence(io, mo)
        if k is not None:
            divergences.append(("align/size", lines[k], io[k] if k < len(io) else "<eof>", mo[k] if k < len(mo) else "<eof>"))
        stats["align_cases"] = len(meta)
        seen_len, seen_sl = set(), set()
        for (ty, n, afi, nlen, sls), o in zip(meta, io[0::2]):
            hist(stats["hops"], "align n=%d" % n)
            seen_len.add((afi, nlen))
            seen_sl.update(sls)
            distinct.add(o)
        stats["afi_len_covered"] = len(seen_len)
        stats["sig_len_covered"] = len(seen_sl)

        vcache = {}
        if pid == "C11":
            violations += run_c11(R, r, rep, stats, lens, mode, vcache, thorough, divergences, oracle_fails, distinct)
        else:
            violations += run_c12(R, r, rep, stats, lens, mode, vcache, thorough, divergences, oracle_fails, distinct)
    except Crash as c:
        sig = crash_signature(c.err)
        rep.violation("crash", "# implementation aborted (rc=%s) on this request after %d replies of the batch\n# %s\n%s\n--- stderr ---\n%s\n" % (
            c.rc, c.nout, sig, c.line if len(c.line) < 20000 else c.line[:20000] + " …", c.err[-3000:]), signature=pid + "/" + sig)
        violations += 1
    except RuntimeError as e:
        rep.build_log = str(e)
        vlib.proof_failure(rep, "model driver bgpdriver failed")
        return rep.finish()

    shown, seen_sigs = 0, set()
    for sig, txt in sorted(oracle_fails, key=lambda x: x[0] is not None):
        if sig is not None and sig in seen_sigs:
            continue
        if sig is None and shown >= 3:
            continue
        seen_sigs.add(sig)
        shown += sig is None
        rep.violation("oracle%d" % (len(seen_sigs) + shown), txt, signature=sig)
        violations += 1
    real_oracle = [x for x in oracle_fails if x[0] is None]
    if divergences and not real_oracle:
        what, line, a, b = divergences[0]
        rep.build_log = "%s\nrequest: %s\n impl : %s\n model: %s" % (what, line[:3000], a[:1500], b[:1500])
        vlib.proof_failure(rep, "correspondence bgpsec (model RtrModel.Bgpsec vs bgpsec.c / bgpsec_utils.c) diverges: " + what)
    if not proved and not divergences and not oracle_fails:
        vlib.proof_failure(rep, "\n".join(t for t, ok in rep.obligations.items() if not ok))

    rep.cov.update({
        "evaluations": R.impl_lines,
        "model_evaluations": R.model_lines,
        "distinct_nontrivial": len(distinct),
        "rule": "byte-level tie on random paths (1..8 hops, every IPv4/IPv6 prefix length, sig_len 0..80, arbitrary field values); "
                "end-to-end cases signed by plain OpenSSL over the octets of the Lean RFC 8205 spec, validated by rtrlib, "
                "with every single-bit corruption on a subset and sampled corruptions on the rest; key tables: plain / several "
                "keys per SKI incl. unusable ones / same key under other AS / key only under another AS / key missing; "
                "distinct = distinct aligned streams + distinct (validation request, answer) + distinct generated signatures",
        "traces_validated_against_impl": R.impl_lines - len(divergences),
        "distribution": stats,
    })
    rep.assumptions = [
        "ECDSA P-256, SHA-256, DER (de)coding and key loading are OpenSSL's (uninterpreted hash/verify/sign in the theorems; "
        "assumption verify pk (hash m) (sign sk (hash m)) = valid for matching pairs)",
        "counters and stream offsets do not wrap in the model (path_len < 2^8 segments, stream < 2^16 bytes in the unpatched tree: Fbgp1, Fbgp2)",
        "NLRI trailing bits zero is the caller's documented obligation (bgpsec.h); data->afi = nlri->afi is the caller's business",
        "current loop bound (stop=false): the loop stops after the last segment only because a verifying signature is longer than nlri octets - 13 (Fbgp3)",
    ]
    return rep.finish()


def minimise_request(R, q, mode, vcache):
    """smaller request on which the implementation still contradicts the oracle: cut the path to the suffix that
    starts at the first hop the oracle rejects (a suffix of a signed path is a signed path whose target is the AS
    of the hop before it), then drop router keys one by one"""
    def fails(d, table):
        x = VReq(d, table, q.tag)
        try:
            run_validations(R, [x], mode, vcache)
        except Crash:
            return None
        return x if not oracle_agrees(x) else None
    best = q
    m = re.search(r"hop (\d+):", q.oracle_why or "")
    if m and int(m.group(1)) > 0 and len(q.d.path) == len(q.d.sigs):
        h = int(m.group(1))
        d = q.d.copy()
        d.target = d.path[h - 1][2]
        d.path = d.path[h:]
        d.sigs = d.sigs[h:]
        x = fails(d, q.table)
        if x:
            best = x
    changed = True
    tests = 0
    while changed and tests < 60:
        changed = False
        for i in range(len(best.table)):
            tests += 1
            x = fails(best.d, best.table[:i] + best.table[i + 1:])
            if x:
                best = x
                changed = True
                break
    return best


MINIMISED = [0]


def describe_keys(q, vcache):
    if vcache is None or not q.d.supported():
        return "-"
    out = []
    for i, (ski, sig) in enumerate(q.d.sigs):
        ks = []
        for a, s_, k in q.table:
            if s_ == ski:
                v = [o for (sp, dg, sg), o in vcache.items() if sp == k.hex() and sg == sig.hex()]
                ks.append("AS%d:%s" % (a, "/".join(sorted(set(x for x in v if x))) or "?"))
        out.append("hop %d (AS%d, SKI %s..): [%s]" % (i, q.d.path[i][2], ski.hex()[:8], ", ".join(ks)))
    return "; ".join(out)


def check_requests(reqs, mode, divergences, oracle_fails, stats, distinct, note, R=None, vcache=None):
    bad = 0
    for q in reqs:
        hist(stats["codes"], q.impl)
        distinct.add((q.d.toks(), table_toks(q.table), q.impl))
        line = "validate %s %s" % (q.d.toks(), table_toks(q.table))
        if not oracle_agrees(q) and R is not None and MINIMISED[0] < 2 and not (mode == "ski" or mode.startswith("ski+")):
            MINIMISED[0] += 1
            q0 = q
            q = minimise_request(R, q, mode, vcache)
            q.tag = q0.tag + ", minimised"
            line = "validate %s %s" % (q.d.toks(), table_toks(q.table))
        if not oracle_agrees(q):
            # F10 class: the AS number is ignored when router keys are looked up (VALID with a key of another AS, or
            # NOT_VALID/ERROR instead of ROUTER_KEY_NOT_FOUND when the segment's AS has no key under that SKI)
            # (only when the corpus replay showed that this tree selects keys by SKI only; on a tree that passes the
            # replay any such failure is a new violation)
            sig = SIG_F10 if (mode.startswith("ski+") or mode == "ski") and (q.f10 and q.impl in ("VALID", "NOT_VALID", "ERROR")) else None
            oracle_fails.append((sig, "# C11 fails on the implementation (%s, %s)\n# rtr_bgpsec_validate_as_path answered %s; the property demands %s\n# because: %s\n# router keys carrying the SKIs of the path, in table order (AS, SKI.., verifies hop's signature over the RFC 8205 octets?): %s\n%s\n" % (
                note, q.tag, q.impl, q.oracle, q.oracle_why or "-", describe_keys(q, vcache), line if len(line) < 30000 else line[:30000] + " …")))
            bad += 1
        if q.impl != q.model:
            divergences.append(("decision logic (%s, %s, key mode %s)" % (note, q.tag, mode), line, q.impl, q.model))
    return bad


def run_c11(R, r, rep, stats, lens, mode, vcache, thorough, divergences, oracle_fails, distinct):
    n_cases = 170 if not thorough else 1600
    n_full = 5 if not thorough else 60            # cases with ALL single-bit corruptions
    n_sample = 16 if not thorough else 60         # sampled corruptions per remaining case
    cases = make_signed_cases(R, r, n_cases, lens)
    stats["signed_cases"] = len(cases)
    reqs = []
    for c in cases:
        hist(stats["hops"], "e2e n=%d" % len(c.d.path))
        hist(stats["table_kinds"], c.kind)
        reqs.append(VReq(c.d, c.table, "case %d (%s, %d hops, afi %d /%d)" % (c.cid, c.kind, len(c.d.path), c.d.afi, c.d.nlen)))
    run_validations(R, reqs, mode, vcache)
    check_requests(reqs, mode, divergences, oracle_fails, stats, distinct, "signed path", R, vcache)
    # systematic key tables: for a hop, every insertion order of every selection of
    # {right key/right AS, wrong key/right AS, right key/wrong AS, wrong key/wrong AS} under the hop's SKI
    plain_ok = [(c, q) for c, q in zip(cases, reqs) if c.kind == "plain" and q.impl == "VALID" and q.oracle == "VALID"]
    n_sys = 10 if not thorough else 120
    wrong = keygen(R, n_sys + 1)
    sreqs = []
    picked = sorted(plain_ok, key=lambda cq: (len(cq[0].d.path) > 3, cq[0].cid))[:n_sys]
    for idx, (c, q) in enumerate(picked):
        n = len(c.d.path)
        victims = range(n) if n <= 3 else sorted(set([0, n - 1, r.randrange(n)]))
        for v in victims:
            for label, tab in systematic_tables(c, v, wrong[idx], 4 if n <= 3 else 3):
                sreqs.append(VReq(c.d, tab, "case %d (%d hops), %s" % (c.cid, n, label)))
                hist(stats["table_kinds"], "systematic len=%d" % (label.count(">") + 1))
    stats["systematic_tables"] = len(sreqs)
    B0 = 3000
    for b0 in range(0, len(sreqs), B0):
        part = sreqs[b0:b0 + B0]
        run_validations(R, part, mode, vcache)
        check_requests(part, mode, divergences, oracle_fails, stats, distinct, "systematic key table", R, vcache)
    # the oracle must have said VALID exactly for the sequences containing RR (sanity of the generator itself)
    for q in sreqs:
        has_rr = "RR" in q.tag.split("keys ")[1].split(",")[0].split(">")
        if (q.oracle == "VALID") != has_rr:
            divergences.append(("generator self-check: oracle verdict %s for key sequence of %s" % (q.oracle, q.tag), "validate " + q.d.toks()[:300], q.impl, q.oracle))
            break
    for q in reqs:
        rep.sample({"request": "validate " + q.d.toks()[:160] + " …", "answer": q.impl})
    # expected VALID for every case whose table holds each signer's key under its AS
    for c, q in zip(cases, reqs):
        if c.kind in ("plain", "multi", "otheras") and q.oracle != "VALID":
            divergences.append(("independent OpenSSL verification of a harness-signed hop failed (spec digest vs. signature)", "validate " + q.d.toks(), q.impl, q.oracle))
    # error codes / precedence on unsigned shapes
    ereqs = []
    for c in cases[:40]:
        for _ in range(3):
            m = c.d.copy()
            for f in r.sample(["count", "alg", "nafi", "nosigs", "nopath"], r.randint(1, 3)):
                if f == "count":
                    if r.random() < 0.5 and len(m.path) > 1:
                        m.path = m.path[:-1]
                    else:
                        m.sigs = m.sigs + [c.d.sigs[-1]]
                elif f == "alg":
                    m.alg = r.choice([0, 2, 255])
                elif f == "nafi":
                    m.nafi = r.choice([0, 3, 8, 25, 65535])
                elif f == "nosigs":
                    m.sigs = []
                elif f == "nopath":
                    m.path = []
            tab = c.table
            if r.random() < 0.3 and tab:
                tab = tab[1:]
            ereqs.append(VReq(m, tab, "case %d, fault injection" % c.cid))
    run_validations(R, ereqs, mode, vcache)
    check_requests(ereqs, mode, divergences, oracle_fails, stats, distinct, "error codes")
    # corruptions
    creqs = []
    good = [(c, q) for c, q in zip(cases, reqs) if q.oracle == "VALID" and q.impl == "VALID"]
    order = sorted(good, key=lambda cq: len(cq[0].d.path))
    full = []
    # all bits: the shortest cases of 1, 2, 3 hops, plus a few more including the longest
    for want in (1, 2, 3):
        for cq in order:
            if len(cq[0].d.path) == want and cq not in full:
                full.append(cq)
                break
    if thorough and order and order[-1] not in full:
        full.append(order[-1])
    for cq in good:
        if len(full) >= n_full:
            break
        if cq not in full and len(cq[0].d.path) <= 5:
            full.append(cq)
    for c, q in good:
        muts = corruptions(c.d)
        if (c, q) not in full:
            # sample, but at least one of every class
            by = {}
            for cls, m in muts:
                by.setdefault(cls, []).append((cls, m))
            pick = [r.choice(v) for v in by.values()]
            pick += r.sample(muts, min(n_sample, len(muts)))
            muts = pick
        for cls, m in muts:
            hist(stats["corruption_classes"], cls)
            creqs.append(VReq(m, c.table, "case %d, one bit of %s flipped" % (c.cid, cls)))
    stats["corrupted_validations"] = len(creqs)
    stats["cases_with_all_bits"] = len(full)
    B = 4000
    for b0 in range(0, len(creqs), B):
        part = creqs[b0:b0 + B]
        run_validations(R, part, mode, vcache)
        check_requests(part, mode, divergences, oracle_fails, stats, distinct, "corruption")
        for q in part:
            if q.impl == "VALID" and q.oracle == "VALID":
                # independent verification of the changed octets agrees: would mean the changed field is not signed
                oracle_fails.append((None, "# C11: a single-bit corruption (%s) still validates as VALID\nvalidate %s %s\n" % (
                    q.tag, q.d.toks(), table_toks(q.table))))
        if (divergences or any(x[0] is None for x in oracle_fails)) and not thorough:
            break
    for o in vcache.values():
        hist(stats["verify_outcomes"], o or "?")
    return 0


def expected_gensig(d, key_ok):
    if not d.path:
        return "INVALID_ARGUMENTS"
    if d.alg != 1:
        return "UNSUPPORTED_ALGORITHM_SUITE"
    if d.nafi not in (1, 2):
        return "UNSUPPORTED_AFI"
    if len(d.path) != len(d.sigs) + 1:
        return "WRONG_SEGMENT_COUNT"
    if not key_ok:
        return "LOAD_PRIV_KEY_ERROR"
    return "SUCCESS"


def run_c12(R, r, rep, stats, lens, mode, vcache, thorough, divergences, oracle_fails, distinct):
    n_paths = 500 if not thorough else 10000
    shapes = [[1, 2, 3, 8, 4, 5, 6, 7][c % 8] if c < 16 else r.randint(1, 8) for c in range(n_paths)]
    keys = keygen(R, sum(shapes) + n_paths)
    paths = []
    for c, n in enumerate(shapes):
        afi, nlen = lens[c % len(lens)]
        _, _, nb = rand_nlri(r, afi, nlen, canonical=True)
        segs = [rand_path_seg(r) for _ in range(n)]          # most recent first
        ks = [keys.pop() for _ in range(n)]
        final_target = rand_asn(r)
        base = D(alg=1, afi=afi, safi=r.choice([1, 1, 2, r.getrandbits(8)]), nafi=afi, nlen=nlen, nbytes=nb, target=0)
        paths.append({"id": c, "segs": segs, "keys": ks, "base": base, "sigs": [], "final": final_target, "stages": []})
    stats["hop_by_hop_paths"] = len(paths)
    # stage k: the k-th speaker counted from the origin signs
    for depth in range(max(shapes)):
        todo = [p for p in paths if len(p["segs"]) > depth]
        glines, stage_d = [], []
        for p in todo:
            n = len(p["segs"])
            i = n - 1 - depth                                  # index of the signer (most recent first)
            d = p["base"].copy()
            d.path = p["segs"][i:]
            d.sigs = list(p["sigs"])                           # signatures of the older hops
            d.target = p["segs"][i - 1][2] if i > 0 else p["final"]
            stage_d.append(d)
            glines.append("gensig %s %s" % (d.toks(), p["keys"][i].priv.hex()))
        gout = R.impl(glines)
        sd = R.model(["sdigest " + d.toks() for d in stage_d])
        mrc = R.model(["%s O 1 %d" % (g, int(o.split()[1]) if o.split()[1].isdigit() else 0) for g, o in zip(glines, gout)])
        vlines = []
        for p, d, o, dg in zip(todo, stage_d, gout, sd):
            w = o.split()
            i = len(p["segs"]) - 1 - depth
            hist(stats["gensig"], w[0])
            if w[0] != "SUCCESS":
                oracle_fails.append((None, "# C12: rtr_bgpsec_generate_signature failed with %s on a well-formed request\n%s\n" % (w[0], glines[todo.index(p)][:4000])))
                p["dead"] = True
                vlines.append("verify %s 00 00" % p["keys"][i].spki.hex())
                continue
            sig = bytes.fromhex(w[2])
            if int(w[1]) != len(sig) or w[3] != "der-ok" or not (8 <= len(sig) <= 72):
                oracle_fails.append((None, "# C12: generated signature is not a well-formed DER ECDSA-Sig-Value of sig_len octets (sig_len=%s, %s)\n%s\n" % (w[1], w[3], glines[todo.index(p)][:4000])))
            distinct.add(w[2])
            vlines.append("verify %s %s %s" % (p["keys"][i].spki.hex(), dg, w[2]))
            p["sigs"] = [(p["keys"][i].ski, sig)] + p["sigs"]
            d2 = d.copy()
            d2.sigs = list(p["sigs"])
            p["stages"].append(d2)
        vout = R.impl(vlines)
        for p, d, o, line, m in zip(todo, stage_d, vout, glines, mrc):
            if p.get("dead"):
                continue
            hist(stats["verify_outcomes"], "gensig:" + o)
            if o != "v":
                oracle_fails.append((None, "# C12: the signature generated by rtrlib does not verify (OpenSSL ECDSA_verify = %s) over SHA-256 of the RFC 8205 signing octets computed by the Lean spec, under the matching public key\n%s\n" % (o, line[:6000])))
            if m != "SUCCESS":
                divergences.append(("generate_signature return code", line, "SUCCESS", m))
    # every stage of every path must validate (keys registered under SKI and AS; plus noise keys)
    reqs = []
    for p in paths:
        if p.get("dead"):
            continue
        n = len(p["segs"])
        tab = [(p["segs"][i][2], p["keys"][i].ski, p["keys"][i].spki) for i in range(n)]
        if r.random() < 0.5:
            e = keys.pop() if keys else None
            if e:
                tab.insert(r.randrange(len(tab) + 1), (p["segs"][0][2], p["keys"][0].ski, e.spki))
        r.shuffle(tab)
        for d in p["stages"]:
            hist(stats["hops"], "stage n=%d" % len(d.path))
            reqs.append(VReq(d, tab, "path %d after %d hops" % (p["id"], len(d.path))))
    B = 3000
    for b0 in range(0, len(reqs), B):
        part = reqs[b0:b0 + B]
        run_validations(R, part, mode, vcache)
        for q in part:
            hist(stats["codes"], q.impl)
            distinct.add((q.d.toks(), q.impl))
            line = "validate %s %s" % (q.d.toks(), table_toks(q.table))
            if q.impl != "VALID" or q.oracle != "VALID":
                oracle_fails.append((None, "# C12: a path built hop by hop from generated signatures does not validate (%s): rtrlib %s, independent oracle %s %s\n%s\n" % (
                    q.tag, q.impl, q.oracle, q.oracle_why, line[:20000])))
            if q.impl != q.model:
                divergences.append(("decision logic (hop-by-hop, key mode %s)" % mode, line, q.impl, q.model))
    for q in reqs[:3]:
        rep.sample({"request": "validate " + q.d.toks()[:160] + " …", "answer": q.impl})
    # error codes of generate_signature
    glines, exp = [], []
    good_key = keys.pop() if keys else paths[0]["keys"][0]
    for p in paths[:60]:
        for _ in range(4):
            n = len(p["segs"])
            d = p["base"].copy()
            d.path = list(p["segs"])
            d.sigs = list(p["sigs"][1:]) if p["sigs"] else []
            d.target = p["final"]
            key = good_key.priv
            key_ok = True
            for f in r.sample(["count", "alg", "nafi", "nopath", "key"], r.randint(1, 3)):
                if f == "count":
                    if r.random() < 0.5:
                        d.sigs = d.sigs + [(good_key.ski, b"\x30\x00")]
                    else:
                        d.path = d.path + [rand_path_seg(r)]
                elif f == "alg":
                    d.alg = r.choice([0, 2, 255])
                elif f == "nafi":
                    d.nafi = r.choice([0, 3, 8, 65535])
                elif f == "nopath":
                    d.path = []
                elif f == "key":
                    kind = r.randrange(4)
                    kb = bytearray(key)
                    if kind == 0:
                        kb = bytearray(r.getrandbits(8) for _ in range(121))
                    elif kind == 1:
                        kb = kb[:r.randrange(1, 100)]
                    elif kind == 2:
                        kb[0] ^= 0x01                  # not a SEQUENCE any more
                    else:
                        kb[7 + r.randrange(32)] ^= 1 << r.randrange(8)   # other private scalar, public key no longer matches
                    key = bytes(kb)
                    key_ok = False
            glines.append("gensig %s %s" % (d.toks(), key.hex()))
            exp.append((d, key_ok))
    gout = R.impl(glines)
    mout = R.model(["%s O %d 71" % (g, 1 if ok else 0) for g, (d, ok) in zip(glines, exp)])
    for line, (d, ok), o, m in zip(glines, exp, gout, mout):
        code = o.split()[0]
        hist(stats["gensig"], code)
        e = expected_gensig(d, ok)
        if code != e:
            oracle_fails.append((None, "# C12: rtr_bgpsec_generate_signature answered %s, the property demands %s\n%s\n" % (code, e, line[:6000])))
        if code != "SUCCESS" and o.split()[1] != "-":
            oracle_fails.append((None, "# C12: a signature is returned together with %s\n%s\n" % (code, line[:6000])))
        if code != m:
            divergences.append(("generate_signature return code", line, code, m))
    return 0



def replay(path):
    return vlib.generic_replay(path, lambda: vlib.build_harness("bgpsec", ["bgpsec_harness.c"], exclude=["rtrlib/bgpsec/bgpsec_utils.c"]), "bgpdriver")

if __name__ == "__main__":
    pid = sys.argv[1]
    tier = sys.argv[2] if len(sys.argv) > 2 else "quick"
    sys.exit(run(pid, tier))
