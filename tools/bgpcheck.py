"""Checks C11 and C12 (BGPsec): proofs about RtrModel.Bgpsec / Rtr.Rfc8205 + tie to bgpsec.c, bgpsec_utils.c.

Implementation side (harness/bgpsec_harness.c): the real align_byte_sequence / req_stream_size /
rtr_bgpsec_validate_as_path / rtr_bgpsec_generate_signature, plus plain-OpenSSL keygen / sign /
verify that never touch rtrlib's layout code.  Model side (bgpdriver): alignBytes, reqStreamSize,
the SPEC digests Rfc8205.digest / signDigest, key selection and decision logic over a verify oracle.

  tie 1  align / size      byte-for-byte on random paths (both alignment types)
  tie 2  end to end        fresh P-256 keys; every hop signed BY THE HARNESS WITH OPENSSL over SHA-256 of
                           the octets computed by the Lean SPEC; rtrlib validates: VALID; every single-bit
                           corruption of every signed field: not VALID; key tables with several keys per
                           SKI, unusable keys, keys under other AS numbers.  Every answer of rtrlib is
                           compared with (a) the property's own oracle evaluated from independent OpenSSL
                           verifications over the spec octets and (b) the model's decision logic.
  tie 3  signing           rtr_bgpsec_generate_signature: OpenSSL ECDSA_verify over SHA-256(Lean signDigest)
                           under the public key, strict DER, sig_len; paths built hop by hop by rtrlib and
                           then validated by rtrlib; error codes.
  tie 4  table changes     (C11) the SPKI table is shared with the RTR threads and every lookup of a validation takes
         during a call     its lock separately: the harness performs router-key withdrawals / additions / replacements
                           at EVERY point between two lookups of a call (before the k-th acquisition of the table's
                           lock) and inside EVERY allocation of the call (allocator hook), for 1- to 3-hop paths; the
                           model (`validateFull` over a `View`: one table snapshot per lookup) is run on the lookup
                           index the harness reports, and the oracle demands VALID exactly when every hop's signature
                           verifies under a key returned by THAT hop's own lookup.
  tie 5  encodings         (C11) every signature field is judged by an independent strict DER parser (der_ecdsa_sig
                           below, no OpenSSL): re-encodings of a valid signature that BER decoders accept (long-form
                           lengths, padded / negative integers, indefinite length, trailing octets) must not be VALID,
                           the other valid signature (r, n-s) must be.
  tie 6  histories         (C12, C11) calls REPEAT within one process (same key again, same unloadable key again,
                           A-B-A, same request twice); every call is judged on its own arguments, so any dependence on
                           earlier calls (caches, static state) contradicts the oracle.  History-independence of the
                           implementation is established by this correspondence over repeated-input histories; in the
                           model it holds by construction (pure functions).
  tie 7  threads           (C12) N threads execute the same list of sign / validate calls concurrently; every reply
                           must equal the single-threaded one and every generated signature must verify independently;
                           the same run under ThreadSanitizer reports unsynchronised static state directly.
"""
import copy
import os
import re
import sys

sys.path.insert(0, os.path.dirname(os.path.abspath(__file__)))
import vlib

PROPS = {
    "C11": {
        "modules": ["RtrProps.C11"],
        "theorems": ["Rtr.C11.align_eq_rfc", "Rtr.C11.align_length", "Rtr.C11.decision", "Rtr.C11.decision_partial", "Rtr.C11.decision_general",
                     "Rtr.C11.loop_overrun_current", "Rtr.C11.loop_overrun_repaired",
                     "Rtr.C11.witness_valid_skiOnly", "Rtr.C11.decision_fails_skiOnly", "Rtr.C11.witness_refused_skiAndAs",
                     "Rtr.C11.digest_injective", "Rtr.C11.digest_changes",
                     "Rtr.C11.err_null", "Rtr.C11.err_null_nlri", "Rtr.C11.err_arguments", "Rtr.C11.err_segment_count", "Rtr.C11.err_suite",
                     "Rtr.C11.err_afi", "Rtr.C11.err_missing_key", "Rtr.C11.never_valid_unless_supported",
                     "Rtr.C11.decision_lookups", "Rtr.C11.decision_lookups_general", "Rtr.C11.valid_needs_own_lookup",
                     "Rtr.C11.empty_lookup_never_valid", "Rtr.C11.empty_lookup_never_valid_repaired",
                     "Rtr.C11.malformed_signature_never_valid", "Rtr.C11.decision_wf"],
    },
    "C12": {
        "modules": ["RtrProps.C12"],
        "theorems": ["Rtr.C12.sign_digest_eq_rfc", "Rtr.C12.sign_stream_size", "Rtr.C12.generate_signs_rfc_digest",
                     "Rtr.C12.hop_by_hop_valid", "Rtr.C12.sign_err_null", "Rtr.C12.sign_err_null_nlri", "Rtr.C12.sign_err_arguments",
                     "Rtr.C12.sign_err_suite", "Rtr.C12.sign_err_afi", "Rtr.C12.sign_err_segment_count",
                     "Rtr.C12.sign_err_key", "Rtr.C12.sign_no_output_on_error",
                     "Rtr.C12.hop_by_hop_valid_wf", "Rtr.C12.generate_wellformed"],
    },
}

# rtrlib's calls of the rwlock functions go through the wrappers of the harness (schedule of table changes)
LOCK_WRAP = ["-Dpthread_rwlock_rdlock=bgh_rdlock", "-Dpthread_rwlock_wrlock=bgh_wrlock", "-Dpthread_rwlock_unlock=bgh_unlock"]
TSAN_FLAGS = ["-O1", "-g", "-fsanitize=thread", "-fno-omit-frame-pointer", "-UNDEBUG"]


def build_bgp_harness():
    return vlib.build_harness("bgpsec", ["bgpsec_harness.c"], exclude=["rtrlib/bgpsec/bgpsec_utils.c"],
                              flags=vlib.SAN_FLAGS + LOCK_WRAP)


def build_bgp_tsan():
    return vlib.build_harness("bgpsec_tsan", ["bgpsec_harness.c"], exclude=["rtrlib/bgpsec/bgpsec_utils.c"],
                              flags=TSAN_FLAGS + LOCK_WRAP, cc="clang-14", variant="tsan")


SIG_F10 = "C11/key-as-mismatch"
CORPUS = os.path.join(vlib.VERIF, "corpus", "bgpsec")
# corpus file -> (property, signature or None)
CORPUS_FILES = {
    "rfc8208_example.ops": ("C11", None),
    "seeded_C11_f_foreign_as_key_last.ops": ("C11", None),
    "F10_key_as_mismatch.ops": ("C11", SIG_F10),
    "Fbgp1_pathlen_wrap_validate.ops": ("C11", "C11/segment-count-wrap"),
    "Fbgp1_pathlen_wrap_sign.ops": ("C12", "C12/segment-count-wrap"),
    "Fbgp2_stream_size_overflow.ops": ("C11", "C11/stream-size-overflow"),
    "Fbgp3_loop_overrun.ops": ("C11", "C11/loop-overrun"),
    "Fbgp4_null_nlri_validate.ops": ("C11", "C11/null-nlri"),
    "Fbgp4_null_nlri_sign.ops": ("C12", "C12/null-nlri"),
    "sched_key_withdrawn_before_hop_lookup.ops": ("C11", None),
    "reenc_newest_signature.ops": ("C11", None),
    "hist_good_bad_samebad.ops": ("C12", None),
    "hist_bad_good_samebad.ops": ("C12", None),
    "hist_A_B_A.ops": ("C12", None),
    "mt_sign_validate.ops": ("C12", None),
}


# ------------------------------------------------------------------------------------------
# path description
# ------------------------------------------------------------------------------------------

class D:
    """struct rtr_bgpsec as the harness builds it (lists most recent first)"""

    def __init__(self, alg=1, afi=1, safi=1, nafi=1, nlen=24, nbytes=b"\xc0\x00\x02", target=65537, path=None, sigs=None):
        self.alg, self.afi, self.safi, self.nafi, self.nlen, self.nbytes, self.target = alg, afi, safi, nafi, nlen, nbytes, target
        self.path = list(path or [])      # (pcount, flags, asn)
        self.sigs = list(sigs or [])      # (ski bytes, sig bytes)

    def copy(self):
        return D(self.alg, self.afi, self.safi, self.nafi, self.nlen, self.nbytes, self.target, self.path, self.sigs)

    def toks(self):
        nb = self.nbytes.hex() or "-"
        t = [str(self.alg), str(self.afi), str(self.safi), str(self.nafi), str(self.nlen), nb, str(self.target),
             str(len(self.path))]
        t += ["%d:%d:%d" % p for p in self.path]
        t.append(str(len(self.sigs)))
        t += ["%s:%d:%s" % (ski.hex(), len(sig), sig.hex()) for ski, sig in self.sigs]
        return " ".join(t)

    def supported(self):
        return bool(self.path) and bool(self.sigs) and len(self.path) == len(self.sigs) and self.alg == 1 and self.nafi in (1, 2)


def table_toks(keys):
    return "K %d %s" % (len(keys), " ".join("%d:%s:%s" % (a, s.hex(), k.hex()) for a, s, k in keys))


def nlri_bytes(nlen):
    return (nlen + 7) // 8


def expected_precheck(d):
    """error-code order of rtr_bgpsec_validate_as_path as the property states it"""
    if not d.path or not d.sigs:
        return "INVALID_ARGUMENTS"
    if len(d.path) != len(d.sigs):
        return "WRONG_SEGMENT_COUNT"
    if d.alg != 1:
        return "UNSUPPORTED_ALGORITHM_SUITE"
    if d.nafi not in (1, 2):
        return "UNSUPPORTED_AFI"
    return None


# ------------------------------------------------------------------------------------------
# independent strict DER parser for ECDSA-Sig-Value ::= SEQUENCE { r INTEGER, s INTEGER }  (X.690 DER; no OpenSSL)
# ------------------------------------------------------------------------------------------

P256_N = 0xFFFFFFFF00000000FFFFFFFFFFFFFFFFBCE6FAADA7179E84F3B9CAC2FC632551


def _der_len(b, p):
    """definite length in its ONLY DER form (short form below 128, else the minimal number of length octets)"""
    if p >= len(b):
        return None
    l = b[p]
    p += 1
    if l < 0x80:
        return l, p
    n = l & 0x7f
    if n == 0 or n > 4 or p + n > len(b):        # 0x80 = indefinite (BER only), 0xff reserved
        return None
    v = int.from_bytes(b[p:p + n], "big")
    if b[p] == 0 or v < 0x80:                    # not the shortest form
        return None
    return v, p + n


def _der_int(b, p):
    if p >= len(b) or b[p] != 0x02:
        return None
    r = _der_len(b, p + 1)
    if r is None:
        return None
    l, p = r
    if l == 0 or p + l > len(b):
        return None
    c = b[p:p + l]
    if l > 1 and ((c[0] == 0x00 and c[1] < 0x80) or (c[0] == 0xff and c[1] >= 0x80)):   # superfluous leading octet
        return None
    return int.from_bytes(c, "big", signed=True), p + l


def der_ecdsa_sig(b):
    """(r, s) when the octets are exactly one strict DER SEQUENCE of two INTEGERs, else None"""
    b = bytes(b)
    if len(b) < 2 or b[0] != 0x30:
        return None
    r = _der_len(b, 1)
    if r is None:
        return None
    l, p = r
    if p + l != len(b):
        return None
    x = _der_int(b, p)
    if x is None:
        return None
    y = _der_int(b, x[1])
    if y is None or y[1] != len(b):
        return None
    return x[0], y[0]


def ecdsa_wellformed(b):
    """a well-formed ECDSA P-256 signature: strict DER and 1 <= r, s < n"""
    rs = der_ecdsa_sig(b)
    return rs is not None and 1 <= rs[0] < P256_N and 1 <= rs[1] < P256_N


def _enc_len(l):
    return bytes([l]) if l < 0x80 else (bytes([0x81, l]) if l < 0x100 else bytes([0x82, l >> 8, l & 0xff]))


def _enc_int(v):
    return v.to_bytes(v.bit_length() // 8 + 1, "big")


def der_encode_sig(r, s_):
    body = b"".join(b"\x02" + _enc_len(len(c)) + c for c in (_enc_int(r), _enc_int(s_)))
    return b"\x30" + _enc_len(len(body)) + body


REENC_REQUIRED = ["seq-long-len", "seq-long-len2", "r-long-len", "s-long-len", "r-lead0", "s-lead0", "r-neg", "s-neg",
                  "indefinite", "trail-in", "trail-out", "r-zero", "malleate-s"]


def reencodings(sig):
    """other octet strings for the signature value of a strict DER signature, as (class, octets, still a signature?):
    BER-only encodings of the same (r, s) / of a neighbouring value, and the second valid signature (r, n-s)"""
    rs = der_ecdsa_sig(sig)
    if rs is None or not ecdsa_wellformed(sig):
        return []
    r, s_ = rs
    R, S = _enc_int(r), _enc_int(s_)

    def tlv(c, ll=None):
        return b"\x02" + (ll if ll is not None else _enc_len(len(c))) + c

    def seq(body, ll=None):
        return b"\x30" + (ll if ll is not None else _enc_len(len(body))) + body
    body = tlv(R) + tlv(S)
    out = [("seq-long-len", seq(body, bytes([0x81, len(body)])), False),
           ("seq-long-len2", seq(body, bytes([0x82, 0, len(body)])), False),
           ("r-long-len", seq(tlv(R, bytes([0x81, len(R)])) + tlv(S)), False),
           ("s-long-len", seq(tlv(R) + tlv(S, bytes([0x81, len(S)]))), False),
           ("r-lead0", seq(tlv(b"\x00" + R) + tlv(S)), False),
           ("s-lead0", seq(tlv(R) + tlv(b"\x00" + S)), False),
           ("indefinite", b"\x30\x80" + body + b"\x00\x00", False),
           ("trail-in", seq(body + b"\x00"), False),
           ("trail-out", seq(body) + b"\x00", False),
           ("malleate-s", der_encode_sig(r, P256_N - s_), True)]
    if R[0] == 0 and len(R) > 1:
        out.append(("r-neg", seq(tlv(R[1:]) + tlv(S)), False))       # the sign octet dropped: a negative INTEGER
    if S[0] == 0 and len(S) > 1:
        out.append(("s-neg", seq(tlv(R) + tlv(S[1:])), False))
    out.append(("r-zero", der_encode_sig(0, s_), False))              # strict DER, but r out of range
    return out


# ------------------------------------------------------------------------------------------
# process helpers
# ------------------------------------------------------------------------------------------

class Crash(Exception):
    def __init__(self, line, nout, rc, err):
        self.line, self.nout, self.rc, self.err = line, nout, rc, err


class Runner:
    def __init__(self, exe, drv):
        self.exe, self.drv = exe, drv
        self.impl_lines = 0
        self.model_lines = 0

    def impl(self, lines, timeout=600):
        if not lines:
            return []
        out, rc, err = vlib.run_lines(self.exe, lines, timeout=timeout)
        self.impl_lines += len(lines)
        if rc != 0 or len(out) != len(lines):
            k = min(len(out), len(lines) - 1)
            raise Crash(lines[k], len(out), rc, err)
        return out

    def model(self, lines, timeout=600):
        if not lines:
            return []
        out, rc, err = vlib.run_lines(self.drv, lines, timeout=timeout)
        self.model_lines += len(lines)
        if rc != 0 or len(out) != len(lines):
            raise RuntimeError("model driver failed rc=%s after %d of %d lines: %s" % (rc, len(out), len(lines), err[-400:]))
        return out


def clean_err(err, n=3000):
    """stderr without rtrlib's debug chatter"""
    return "\n".join(l for l in err.splitlines() if not re.match(r"\(\d{4}/\d\d/\d\d ", l))[-n:]


def crash_signature(err):
    m = re.search(r"ERROR: AddressSanitizer: ([a-zA-Z-]+)", err)
    if m:
        fn = re.search(r"#1 0x[0-9a-f]+ in (\w+)", err)
        return "asan:%s%s" % (m.group(1), (":" + fn.group(1)) if fn else "")
    m = re.search(r"runtime error: ([^\n]*)", err)
    if m:
        return "ubsan:" + re.sub(r"0x[0-9a-f]+|\d+", "N", m.group(1))[:80]
    m = re.search(r"Assertion `([^']*)' failed", err)
    if m:
        return "assert:" + m.group(1)
    return "crash"


# ------------------------------------------------------------------------------------------
# corpus
# ------------------------------------------------------------------------------------------

def run_corpus_file(R, path):
    """returns list of (line, expectation, observed, stderr) that fail; a crash is a failure of that line.
    Expectations precede their request line:  `#= reply`  `#!= first word that must NOT be answered`  `#~ regex the reply must match`.
    A file containing the line `#! one-process` is a HISTORY: all its requests go to one process, in order."""
    import re as _re
    items = []
    exp = None
    one = False
    for raw in open(path):
        raw = raw.rstrip("\n")
        if raw.strip() == "#! one-process":
            one = True
            continue
        if raw.startswith("#= "):
            exp = ("=", raw[3:].strip())
            continue
        if raw.startswith("#!= "):
            exp = ("!=", raw[4:].strip())
            continue
        if raw.startswith("#~ "):
            exp = ("~", raw[3:].strip())
            continue
        if not raw.strip() or raw.startswith("#"):
            continue
        items.append((raw, exp))
        exp = None

    def judge(exp, out):
        if not exp:
            return True
        if exp[0] == "=":
            return out == exp[1]
        if exp[0] == "!=":
            return out.split()[0] != exp[1]
        return _re.search(exp[1], out) is not None
    fails = []
    if one:
        lines = [raw for raw, _ in items]
        out, rc, err = vlib.run_lines(R.exe, lines, timeout=600)
        R.impl_lines += len(lines)
        for (raw, exp), o in zip(items, out):
            if not judge(exp, o):
                fails.append((raw, exp, o, ""))
        if rc != 0 or len(out) != len(lines):
            k = min(len(out), len(lines) - 1)
            fails.append((lines[k], items[k][1], "CRASH " + crash_signature(err), err))
        return fails
    for raw, exp in items:
        try:
            out = R.impl([raw])[0]
        except Crash as c:
            out = "CRASH " + crash_signature(c.err)
            fails.append((raw, exp, out, c.err))
            continue
        if not judge(exp, out):
            fails.append((raw, exp, out, ""))
    return fails


def corpus_model_lines(path):
    """the `#=` lines of a corpus file whose request the model driver also understands verbatim"""
    res = []
    exp = None
    for raw in open(path):
        raw = raw.rstrip("\n")
        if raw.startswith("#= "):
            exp = raw[3:].strip()
            continue
        if not raw.strip() or raw.startswith("#"):
            continue
        if exp and raw.split()[0] in ("validate-nonlri", "gensig-nonlri"):
            res.append((raw, exp))
        exp = None
    return res


# ------------------------------------------------------------------------------------------
# generators
# ------------------------------------------------------------------------------------------

INTERESTING_ASN = [0, 1, 23456, 64496, 65535, 65536, 65537, 0x7fffffff, 0x80000000, 0xfffffffe, 0xffffffff]


def rand_asn(r):
    return r.choice(INTERESTING_ASN) if r.random() < 0.3 else r.getrandbits(32)


def rand_nlri(r, afi=None, nlen=None, canonical=True):
    if afi is None:
        afi = r.choice([1, 2])
    if nlen is None:
        nlen = r.randint(0, 32 if afi == 1 else 128)
    nb = bytearray(r.getrandbits(8) for _ in range(nlri_bytes(nlen)))
    if canonical and nlen % 8 and nb:
        nb[-1] &= (0xff << (8 - nlen % 8)) & 0xff
    return afi, nlen, bytes(nb)


def rand_path_seg(r):
    return (r.choice([0, 1, 1, 2, 255, r.getrandbits(8)]), r.choice([0, 0, 128, 255, r.getrandbits(8)]), rand_asn(r))


def gen_align_cases(r, count, lens_cycle):
    """request lines for the byte-level tie: arbitrary field values, sig lengths 0..80, NLRI of every length"""
    lines = []
    meta = []
    for c in range(count):
        n = 1 + (c % 8) if c < 64 else r.randint(1, 8)
        afi, nlen = lens_cycle[c % len(lens_cycle)]
        if r.random() < 0.1:
            nlen = r.randint(0, 255)           # beyond the family's maximum: the code does not care
        _, _, nb = rand_nlri(r, afi, nlen, canonical=(r.random() < 0.5))
        for ty in ("V", "S"):
            d = D(alg=r.choice([1, 1, 0, 2, 255, r.getrandbits(8)]), afi=r.choice([afi, afi, 0, 3, 0xffff, r.getrandbits(16)]),
                  safi=r.choice([1, 1, 2, 128, r.getrandbits(8)]), nafi=afi, nlen=nlen, nbytes=nb, target=rand_asn(r))
            d.path = [rand_path_seg(r) for _ in range(n)]
            if ty == "V":
                ns = n if r.random() < 0.8 else r.randint(1, n + 1)       # startSigs = ns-1 <= n
            else:
                ns = n - 1 if r.random() < 0.8 else r.randint(0, n)
            d.sigs = []
            for _ in range(ns):
                sl = (c + len(d.sigs) * 7) % 81 if r.random() < 0.5 else r.randint(0, 80)
                d.sigs.append((bytes(r.getrandbits(8) for _ in range(20)), bytes(r.getrandbits(8) for _ in range(sl))))
            lines.append("align %s %s" % (ty, d.toks()))
            lines.append("size %s %s" % (ty, d.toks()))
            meta.append((ty, n, afi, nlen, [len(s) for _, s in d.sigs]))
    return lines, meta


class Key:
    def __init__(self, priv, spki, ski):
        self.priv, self.spki, self.ski = priv, spki, ski


def keygen(R, n):
    out = R.impl(["keygen"] * n)
    ks = []
    for o in out:
        w = o.split()
        assert w[0] == "key" and len(w) == 4, o
        ks.append(Key(bytes.fromhex(w[1]), bytes.fromhex(w[2]), bytes.fromhex(w[3])))
    return ks


class Case:
    """one end-to-end case: a signed path + a key table + what the table is meant to exercise"""

    def __init__(self, cid):
        self.cid = cid
        self.d = None
        self.signers = []     # Key per hop (most recent first)
        self.table = []       # (asn, ski, spki)
        self.kind = ""


def build_tables(r, case, extra_keys, kind):
    """key table for a signed case.  kinds:
       plain      every signer's key under its own AS
       multi      additionally other keys with the same SKI (before/after), also under the same AS, and unusable keys
       otheras    additionally the SAME keys under other AS numbers and unrelated keys
       wrongas    one signer's key is ONLY filed under another AS number (F10 class)
       missing    one signer's key is missing altogether"""
    d = case.d
    tab = []
    n = len(d.path)
    victim = r.randrange(n)
    for i in range(n):
        k = case.signers[i]
        asn = d.path[i][2]
        own = (asn, k.ski, k.spki)
        before, after = [], []
        if kind == "multi":
            for _ in range(r.randint(1, 2)):
                e = extra_keys.pop()
                (before if r.random() < 0.5 else after).append((r.choice([asn, asn, rand_asn(r)]), k.ski, e.spki))
            if r.random() < 0.5:
                junk = bytes(r.getrandbits(8) for _ in range(91))
                (before if r.random() < 0.5 else after).append((asn, k.ski, junk))
        if kind == "otheras":
            (before if r.random() < 0.5 else after).append(((asn + 1) & 0xffffffff, k.ski, k.spki))
            e = extra_keys.pop()
            after.append((rand_asn(r), e.ski, e.spki))
        if kind == "wrongas" and i == victim:
            own = ((asn ^ (1 << r.randrange(32))), k.ski, k.spki)
            if r.random() < 0.5:
                e = extra_keys.pop()
                after.append((asn, e.ski, e.spki))      # a key of the right AS, but another SKI
        if kind == "missing" and i == victim:
            own = None
        tab += before + ([own] if own else []) + after
    # the table refuses exact duplicates; keep first occurrences (as both sides do)
    seen = set()
    res = []
    for e in tab:
        if e not in seen:
            seen.add(e)
            res.append(e)
    if r.random() < 0.3:
        r.shuffle(res)
    case.table = res
    case.kind = kind


KEY_ROLES = ("RR", "WR", "RW", "WW")     # (Right|Wrong key) under (Right|Wrong AS), all with the hop's SKI


def systematic_tables(case, victim, wrong_key, max_len=4):
    """For hop `victim` of a signed case: every sequence (all subsets, ALL insertion orders) of up to `max_len`
    of the four kinds of router key carrying the hop's SKI
        RR the signer's key under the hop's AS      WR another key under the hop's AS
        RW the signer's key under another AS        WW another key under another AS
    while every other hop has its own key under its own AS.  The victim's keys are inserted at the position of
    the hop's own key, so that table order = order of the sequence (spki_table_search_by_ski returns insertion
    order).  Yields (label, table)."""
    import itertools
    d = case.d
    n = len(d.path)
    asn = d.path[victim][2]
    k = case.signers[victim]
    other_asn = (asn ^ 0x10000) & 0xffffffff
    entry = {"RR": (asn, k.ski, k.spki), "WR": (asn, k.ski, wrong_key.spki),
             "RW": (other_asn, k.ski, k.spki), "WW": (other_asn, k.ski, wrong_key.spki)}
    plain = [(d.path[i][2], case.signers[i].ski, case.signers[i].spki) for i in range(n)]
    for ln in range(1, max_len + 1):
        for seq in itertools.permutations(KEY_ROLES, ln):
            tab = plain[:victim] + [entry[x] for x in seq] + plain[victim + 1:]
            # a hop further down the path may use the same AS/SKI only by accident (random 32-bit / SHA-1 values)
            yield "hop %d keys %s" % (victim, ">".join(seq)), tab


# ------------------------------------------------------------------------------------------
# the validation pipeline: spec digests -> independent verification -> oracle + model + implementation
# ------------------------------------------------------------------------------------------

class VReq:
    def __init__(self, d, table, tag, events=None):
        self.d, self.table, self.tag = d, table, tag
        self.impl = self.model = self.oracle = None
        self.oracle_why = ""
        self.f10 = False
        # table changes during the call: [(trigger "L3"/"A5", [("+"|"-", (asn, ski, spki)), …]), …]
        self.events = events
        self.js = None            # per event: number of lookups made when it happened (None: never), reported by the harness
        self.outs = None          # oracle part of the model's request line
        self.der_conflict = None

    def base_line(self):
        if self.events is None:
            return "validate %s %s" % (self.d.toks(), table_toks(self.table))
        ev = " ".join("%s %d %s" % (trig, len(ops), " ".join("%s%d:%s:%s" % (sg, a, s.hex(), k.hex()) for sg, (a, s, k) in ops))
                      for trig, ops in self.events)
        return "validate-sched %s %s E %d %s" % (self.d.toks(), table_toks(self.table), len(self.events), ev)

    def at_part(self):
        return " AT " + " ".join("-" if j is None else str(j) for j in self.js) if self.events is not None else ""

    def full_line(self, mode):
        """the request as the model driver needs it (the harness ignores everything from AT / O on)"""
        return "%s%s O %s%s" % (self.base_line(), self.at_part(), mode, (" " + " ".join(self.outs)) if self.outs else "")

    def tables(self):
        """table after each event (spki_table_add_entry refuses an exact duplicate, appends otherwise)"""
        res = []
        cur = list(self.table)
        for trig, ops in self.events or []:
            for sg, e in ops:
                if sg == "+":
                    if e not in cur:
                        cur.append(e)
                elif e in cur:
                    cur.remove(e)
            res.append(list(cur))
        return res

    def view(self, k):
        """the table lookup number k of the call finds"""
        t = self.table
        if self.events is not None:
            for j, tab in zip(self.js, self.tables()):
                if j is not None and j <= k:
                    t = tab
        return t


def run_validations(R, reqs, mode, vcache):
    """fills impl / model / oracle of every request"""
    # 0. requests with a schedule of table changes: the implementation runs first and reports where the events fell
    sched = [q for q in reqs if q.events is not None]
    if sched:
        for q, o in zip(sched, R.impl([q.base_line() for q in sched])):
            w = o.split()
            q.impl = w[0]
            q.js = [None if x == "-" else int(x) for x in w[1:]]
            if len(q.js) != len(q.events):
                raise RuntimeError("harness reply to validate-sched malformed: " + o)
    todo = [q for q in reqs if q.d.supported()]
    # 1. spec digests and selected keys from the model (per hop: the keys that hop's own lookup returns)
    qout = R.model([("queries-sched %s%s" % (q.base_line()[len("validate-sched "):], q.at_part())) if q.events is not None
                    else "queries %s %s" % (q.d.toks(), table_toks(q.table)) for q in todo])
    need = []
    hopinfo = {}
    for q, line in zip(todo, qout):
        hops = []
        for tok in line.split():
            i, dg, sig, spkis = tok.split("/")
            keys = [s for s in spkis.split(",") if s]
            hops.append((dg, sig, keys))
            for s in keys:
                kk = (s, dg, sig)
                if kk not in vcache:
                    vcache[kk] = None
                    need.append(kk)
        hopinfo[id(q)] = hops
    # 2. independent verification (OpenSSL over SHA-256 of the spec octets)
    vout = R.impl(["verify %s %s %s" % (s, dg or "-", sig or "-") for s, dg, sig in need])
    for kk, o in zip(need, vout):
        vcache[kk] = o
    # 3. model decision, 4. implementation
    mlines, ilines = [], []
    for q in reqs:
        if q.d.supported():
            outs = []
            for (dg, sig, keys), (ski, sigb) in zip(hopinfo[id(q)], q.d.sigs):
                letters = "".join(vcache[(s, dg, sig)] for s in keys) or "-"
                # the signature field judged by the independent strict DER parser
                strict = der_ecdsa_sig(sigb) is not None
                if not strict and any(c != "e" for c in letters if c != "-"):
                    q.der_conflict = "hop signature %s… is not strict DER (independent parser) but plain OpenSSL ECDSA_verify answered %s" % (sigb.hex()[:24], letters)
                outs.append(("" if strict else "!") + letters)
            q.outs = outs
        if q.events is None:
            ilines.append(q.base_line())
        mlines.append(q.full_line(mode))
    mout = R.model(mlines)
    iout = R.impl(ilines)
    it = iter(iout)
    # 5. the property's oracle
    for q, mo in zip(reqs, mout):
        q.model = mo
        if q.events is None:
            q.impl = next(it)
        else:
            q.model = mo.split()[0] if mo != "bad-op" else mo
        pre = expected_precheck(q.d)
        if pre:
            q.oracle, q.oracle_why = pre, "pre-check"
            continue
        hops = hopinfo[id(q)]
        n = len(hops)
        verdict = "VALID"
        for i, (dg, sig, keys) in enumerate(hops):
            ski = q.d.sigs[i][0]
            asn = q.d.path[i][2]
            tab = q.view(i)                                   # what the i-th lookup of check_router_keys finds
            by_ski = [(a, k) for a, s, k in tab if s == ski]
            right = [k for a, k in by_ski if a == asn]
            if not right:
                verdict = "ROUTER_KEY_NOT_FOUND"
                q.oracle_why = "hop %d: no router key registered for SKI %s.. and AS %d%s" % (
                    i, ski.hex()[:8], asn, " when check_router_keys looked (lookup %d)" % i if q.events is not None else "")
                if by_ski:
                    q.f10 = True      # a key with this SKI exists, but only under other AS numbers
                break
        if verdict == "VALID":
            for i, (dg, sig, keys) in enumerate(hops):
                ski = q.d.sigs[i][0]
                asn = q.d.path[i][2]
                tab = q.view(n + i)                           # what the lookup of loop iteration i finds
                if not ecdsa_wellformed(q.d.sigs[i][1]):
                    verdict = "NOT-VALID"
                    q.oracle_why = "hop %d: the signature field is not a well-formed (strict DER, 1 <= r,s < n) ECDSA P-256 signature" % i
                    break
                ok = any(a == asn and vcache.get((k.hex(), dg, sig)) == "v" for a, s, k in tab if s == ski)
                if not ok:
                    verdict = "NOT-VALID"       # NOT_VALID or ERROR: the property only demands "not VALID"
                    q.oracle_why = "hop %d: no key registered for (SKI, AS %d) %sverifies the signature over the RFC 8205 octets" % (
                        i, asn, "that this hop's own lookup (number %d of the call) returned " % (n + i) if q.events is not None else "")
                    if any(vcache.get((k.hex(), dg, sig)) == "v" for a, s, k in tab if s == ski):
                        q.f10 = True
                    break
        q.oracle = verdict


def oracle_agrees(q):
    if q.oracle == "NOT-VALID":
        # with the table changing under the call the property fixes "not VALID" only (rtrlib answers SUCCESS = 0 when a
        # hop's lookup comes back empty)
        return q.impl in ("NOT_VALID", "ERROR") or (q.events is not None and q.impl != "VALID")
    return q.impl == q.oracle


# ------------------------------------------------------------------------------------------
# corruptions
# ------------------------------------------------------------------------------------------

def corruptions(d):
    """every single-bit change of every field of a path description, as (class, mutated D).
    Signed at hop 0: target, every Secure_Path segment, every Signature Segment but the first, suite, AFI, SAFI,
    NLRI length and octets.  Not signed but still decisive: the first Signature Segment, nlri->afi."""
    out = []

    def mut(cls, f):
        m = d.copy()
        f(m)
        out.append((cls, m))
    for b in range(32):
        mut("target", lambda m, b=b: setattr(m, "target", m.target ^ (1 << b)))
    for i in range(len(d.path)):
        for fld, width in ((0, 8), (1, 8), (2, 32)):
            for b in range(width):
                def f(m, i=i, fld=fld, b=b):
                    p = list(m.path[i])
                    p[fld] ^= (1 << b)
                    m.path[i] = tuple(p)
                mut(("pcount", "flags", "asn")[fld], f)
    for i in range(len(d.sigs)):
        ski, sig = d.sigs[i]
        first = "0" if i == 0 else ""
        for b in range(160):
            def f(m, i=i, b=b):
                s, g = m.sigs[i]
                s = bytearray(s)
                s[b // 8] ^= (1 << (b % 8))
                m.sigs[i] = (bytes(s), g)
            mut("ski" + first, f)
        for b in range(16):
            def f(m, i=i, b=b):
                s, g = m.sigs[i]
                nl = len(g) ^ (1 << b)
                g = (g + bytes(nl))[:nl]
                m.sigs[i] = (s, g)
            mut("siglen" + first, f)
        for b in range(8 * len(sig)):
            def f(m, i=i, b=b):
                s, g = m.sigs[i]
                g = bytearray(g)
                g[b // 8] ^= (1 << (b % 8))
                m.sigs[i] = (s, bytes(g))
            mut("sig" + first, f)
    for b in range(8):
        mut("alg", lambda m, b=b: setattr(m, "alg", m.alg ^ (1 << b)))
    for b in range(16):
        mut("afi", lambda m, b=b: setattr(m, "afi", m.afi ^ (1 << b)))
    for b in range(8):
        mut("safi", lambda m, b=b: setattr(m, "safi", m.safi ^ (1 << b)))
    for b in range(8):
        def f(m, b=b):
            m.nlen ^= (1 << b)
            m.nbytes = (m.nbytes + bytes(32))[:nlri_bytes(m.nlen)]
        mut("nlrilen", f)
    for b in range(8 * len(d.nbytes)):
        def f(m, b=b):
            nb = bytearray(m.nbytes)
            nb[b // 8] ^= (1 << (b % 8))
            m.nbytes = bytes(nb)
        mut("nlri", f)
    for b in range(16):
        mut("nlri.afi", lambda m, b=b: setattr(m, "nafi", m.nafi ^ (1 << b)))
    return out


# ------------------------------------------------------------------------------------------
# building signed paths
# ------------------------------------------------------------------------------------------

def sign_cases_with_openssl(R, cases):
    """sign every hop with plain OpenSSL over the octets of the Lean spec, origin first"""
    maxn = max(len(c.d.path) for c in cases)
    for depth in range(maxn):
        todo = [c for c in cases if len(c.d.path) > depth]
        # hop index (most recent first) signed in this pass: n-1-depth
        dlines = []
        for c in todo:
            i = len(c.d.path) - 1 - depth
            dlines.append("digest %s %d" % (c.d.toks(), i))
        dg = R.model(dlines)
        sg = R.impl(["sign %s %s" % (c.signers[len(c.d.path) - 1 - depth].priv.hex(), x) for c, x in zip(todo, dg)])
        for c, o in zip(todo, sg):
            w = o.split()
            assert w[0] == "sig", o
            i = len(c.d.path) - 1 - depth
            c.d.sigs[i] = (c.signers[i].ski, bytes.fromhex(w[1]))


def make_signed_cases(R, r, count, lens_cycle, start_id=0):
    cases = []
    nk = 0
    shapes = []
    for c in range(count):
        n = [1, 2, 3, 8, 4, 5, 6, 7][c % 8] if c < 16 else r.randint(1, 8)
        shapes.append(n)
        nk += n + 3 * n
    keys = keygen(R, nk)
    kinds = ["plain", "multi", "otheras", "wrongas", "missing", "multi", "otheras", "plain"]
    for c in range(count):
        n = shapes[c]
        afi, nlen = lens_cycle[c % len(lens_cycle)]
        _, _, nb = rand_nlri(r, afi, nlen, canonical=True)
        case = Case(start_id + c)
        d = D(alg=1, afi=afi, safi=r.choice([1, 1, 2, r.getrandbits(8)]), nafi=afi, nlen=nlen, nbytes=nb, target=rand_asn(r))
        d.path = [rand_path_seg(r) for _ in range(n)]
        case.signers = [keys.pop() for _ in range(n)]
        d.sigs = [(k.ski, b"\x00") for k in case.signers]
        case.d = d
        extra = [keys.pop() for _ in range(3 * n)]
        build_tables(r, case, extra, kinds[c % len(kinds)] if c >= 3 else "plain")
        cases.append(case)
    sign_cases_with_openssl(R, cases)
    return cases


# ------------------------------------------------------------------------------------------
# main
# ------------------------------------------------------------------------------------------

def lens_cycle_all(r):
    lens = [(1, l) for l in range(33)] + [(2, l) for l in range(129)]
    r.shuffle(lens)
    return lens


def hist(dct, k, n=1):
    dct[k] = dct.get(k, 0) + n


def run(pid, tier):
    rep = vlib.Report(pid, tier)
    P = PROPS[pid]
    proved = vlib.prove(rep, P["modules"], P["theorems"], extra_targets=["bgpdriver"])
    drv = vlib.driver_path("bgpdriver")
    if not os.path.exists(drv):
        ok, log = vlib.lake_build(["bgpdriver"])
        if not ok:
            rep.build_log = log
            vlib.proof_failure(rep, "model driver bgpdriver does not build")
            return rep.finish()
    exe, blog = build_bgp_harness()
    if exe is None:
        rep.build_log = blog
        vlib.proof_failure(rep, "harness build against the repository failed (correspondence bgpsec)")
        return rep.finish()
    R = Runner(exe, drv)
    r = vlib.rng(pid)
    thorough = tier == "thorough"
    stats = {"corpus": {}, "align_cases": 0, "hops": {}, "afi_len_covered": 0, "sig_len_covered": 0, "codes": {},
             "table_kinds": {}, "corruption_classes": {}, "corrupted_validations": 0, "signed_cases": 0,
             "verify_outcomes": {}, "gensig": {}, "hop_by_hop_paths": 0, "key_mode": None}
    violations = 0
    divergences = []      # (what, request line, impl, model)
    oracle_fails = []     # (signature or None, text)
    distinct = set()

    # ---------------- corpus first: known findings / past failures, each with its own replay --------------
    mode = "skias"
    stop = ""
    for fn in sorted(os.listdir(CORPUS)) if os.path.isdir(CORPUS) else []:
        if not fn.endswith(".ops"):
            continue
        prop, sig = CORPUS_FILES.get(fn, (None, None))
        fails = run_corpus_file(R, os.path.join(CORPUS, fn))
        stats["corpus"][fn] = "fails" if fails else "ok"
        for raw, exp in corpus_model_lines(os.path.join(CORPUS, fn)):
            mo = R.model([raw])[0]
            if mo != exp:
                divergences.append(("corpus " + fn + " (model as repaired)", raw[:300], exp, mo))
        if fn == "F10_key_as_mismatch.ops" and fails:
            mode = "ski"
        if fn == "Fbgp3_loop_overrun.ops" and not fails:
            stop = "+stop"
        if fails and (prop == pid or prop is None):
            raw, exp, out, err = fails[0]
            whole = open(os.path.join(CORPUS, fn)).read()
            if "#! one-process" in whole:
                # a history: the whole file is the input (all requests to one process, in order)
                txt = "# corpus/bgpsec/%s: the implementation fails the property on this history\n# failing request: %s…\n# expected: reply %s %s\n# observed: %s\n%s%s" % (
                    fn, raw[:120], exp[0] if exp else "", exp[1] if exp else "(no crash)", out[:300], whole,
                    ("\n--- stderr ---\n" + clean_err(err, 2500)) if err else "")
            else:
                txt = "# corpus/bgpsec/%s: the implementation fails the property on this input\n# expected: reply %s %s\n# observed: %s\n%s\n%s" % (
                    fn, exp[0] if exp else "", exp[1] if exp else "(no crash)", out, raw if len(raw) < 20000 else raw[:20000] + " …(see corpus file)",
                    ("\n--- stderr ---\n" + clean_err(err, 2500)) if err else "")
            rep.violation("corpus_" + fn.split(".")[0], txt, signature=sig)
            violations += 1
    # which of the two behaviours (current / repaired) the tree under test shows decides which model variant the
    # tie is run against; the property theorems at full strength are about the repaired variant
    mode = mode + stop
    stats["key_mode"] = mode

    lens = lens_cycle_all(r)
    try:
        # ---------------- tie 1: align_byte_sequence / req_stream_size byte for byte ----------------------
        n_align = 400 if not thorough else 8000
        lines, meta = gen_align_cases(r, n_align, lens)
        io = R.impl(lines)
        mo = R.model(lines)
        k = vlib.first_divergence(io, mo)
        if k is not None:
            divergences.append(("align/size", lines[k], io[k] if k < len(io) else "<eof>", mo[k] if k < len(mo) else "<eof>"))
        stats["align_cases"] = len(meta)
        seen_len, seen_sl = set(), set()
        for (ty, n, afi, nlen, sls), o in zip(meta, io[0::2]):
            hist(stats["hops"], "align n=%d" % n)
            seen_len.add((afi, nlen))
            seen_sl.update(sls)
            distinct.add(o)
        stats["afi_len_covered"] = len(seen_len)
        stats["sig_len_covered"] = len(seen_sl)

        vcache = {}
        if pid == "C11":
            violations += run_c11(R, r, rep, stats, lens, mode, vcache, thorough, divergences, oracle_fails, distinct)
        else:
            violations += run_c12(R, r, rep, stats, lens, mode, vcache, thorough, divergences, oracle_fails, distinct)
    except Crash as c:
        sig = crash_signature(c.err)
        rep.violation("crash", "# implementation aborted (rc=%s) on this request after %d replies of the batch\n# %s\n%s\n--- stderr ---\n%s\n" % (
            c.rc, c.nout, sig, c.line if len(c.line) < 20000 else c.line[:20000] + " …", clean_err(c.err)), signature=pid + "/" + sig)
        violations += 1
    except RuntimeError as e:
        rep.build_log = str(e)
        vlib.proof_failure(rep, "model driver bgpdriver failed")
        return rep.finish()

    shown, seen_sigs = 0, set()
    for sig, txt in sorted(oracle_fails, key=lambda x: x[0] is not None):
        if sig is not None and sig in seen_sigs:
            continue
        if sig is None and shown >= 3:
            continue
        seen_sigs.add(sig)
        shown += sig is None
        rep.violation("oracle%d" % (len(seen_sigs) + shown), txt, signature=sig)
        violations += 1
    real_oracle = [x for x in oracle_fails if x[0] is None]
    if divergences and not real_oracle:
        what, line, a, b = divergences[0]
        rep.build_log = "%s\nrequest: %s\n impl : %s\n model: %s" % (what, line[:3000], a[:1500], b[:1500])
        vlib.proof_failure(rep, "correspondence bgpsec (model RtrModel.Bgpsec vs bgpsec.c / bgpsec_utils.c) diverges: " + what)
    if not proved and not divergences and not oracle_fails:
        vlib.proof_failure(rep, "\n".join(t for t, ok in rep.obligations.items() if not ok))
    # coverage gate: the classes the check claims to exercise must have been reached (only judged on a run that found nothing)
    if stats.get("coverage_gate_missing") and proved and not divergences and not oracle_fails and not violations:
        rep.build_log = "classes not reached:\n  " + "\n  ".join(stats["coverage_gate_missing"])
        vlib.proof_failure(rep, "coverage gate of tools/bgpcheck.py (a required class was never exercised)")

    rep.cov.update({
        "evaluations": R.impl_lines,
        "model_evaluations": R.model_lines,
        "distinct_nontrivial": len(distinct),
        "rule": "byte-level tie on random paths (1..8 hops, every IPv4/IPv6 prefix length, sig_len 0..80, arbitrary field values); "
                "end-to-end cases signed by plain OpenSSL over the octets of the Lean RFC 8205 spec, validated by rtrlib, "
                "with every single-bit corruption on a subset and sampled corruptions on the rest; key tables: plain / several "
                "keys per SKI incl. unusable ones / same key under other AS / key only under another AS / key missing; "
                "distinct = distinct aligned streams + distinct (validation request, answer) + distinct generated signatures",
        "traces_validated_against_impl": R.impl_lines - len(divergences),
        "distribution": stats,
    })
    rep.cov["history_independence"] = (
        "the model's answers are functions of the call's arguments by construction (pure Lean functions), which says nothing about the C code; "
        "that the implementation's answer to a call does not depend on earlier calls of the process is established by the correspondence over "
        "repeated-input histories in one process (C12: good key / unloadable key / the same unloadable key again, unloadable / good / same unloadable, "
        "A-B-A, same request twice, every key sequence of length 3 over 2 loadable + 4 unloadable keys; C11: the same validation requests asked again "
        "A B ... B A) and, for several threads, by replaying one call list from 2-4 threads (plus ThreadSanitizer) against its single-threaded answers")
    rep.assumptions = [
        "ECDSA P-256, SHA-256 and key loading are OpenSSL's (uninterpreted hash/verify/sign in the theorems; "
        "assumption verify pk (hash m) (sign sk (hash m)) = valid for matching pairs); whether a signature field is a strict DER ECDSA-Sig-Value "
        "(parameter wf of validateSignature) is judged by an independent parser (bgpcheck.der_ecdsa_sig), not by OpenSSL",
        "the router-key table may change between any two lookups of one validation call (View = one table snapshot per lookup); a single lookup is atomic "
        "because it holds the table's read lock (lock discipline: C16)",
        "counters and stream offsets do not wrap in the model (path_len < 2^8 segments, stream < 2^16 bytes in the unpatched tree: Fbgp1, Fbgp2)",
        "NLRI trailing bits zero is the caller's documented obligation (bgpsec.h); data->afi = nlri->afi is the caller's business",
        "current loop bound (stop=false): the loop stops after the last segment only because a verifying signature is longer than nlri octets - 13 (Fbgp3)",
    ]
    return rep.finish()


def minimise_request(R, q, mode, vcache):
    """smaller request on which the implementation still contradicts the oracle: cut the path to the suffix that
    starts at the first hop the oracle rejects (a suffix of a signed path is a signed path whose target is the AS
    of the hop before it), then drop router keys one by one"""
    def fails(d, table):
        x = VReq(d, table, q.tag)
        try:
            run_validations(R, [x], mode, vcache)
        except Crash:
            return None
        return x if not oracle_agrees(x) else None
    best = q
    m = re.search(r"hop (\d+):", q.oracle_why or "")
    if m and int(m.group(1)) > 0 and len(q.d.path) == len(q.d.sigs):
        h = int(m.group(1))
        d = q.d.copy()
        d.target = d.path[h - 1][2]
        d.path = d.path[h:]
        d.sigs = d.sigs[h:]
        x = fails(d, q.table)
        if x:
            best = x
    changed = True
    tests = 0
    while changed and tests < 60:
        changed = False
        for i in range(len(best.table)):
            tests += 1
            x = fails(best.d, best.table[:i] + best.table[i + 1:])
            if x:
                best = x
                changed = True
                break
    return best


MINIMISED = [0]


def describe_keys(q, vcache):
    if vcache is None or not q.d.supported():
        return "-"
    out = []
    for i, (ski, sig) in enumerate(q.d.sigs):
        ks = []
        for a, s_, k in q.table:
            if s_ == ski:
                v = [o for (sp, dg, sg), o in vcache.items() if sp == k.hex() and sg == sig.hex()]
                ks.append("AS%d:%s" % (a, "/".join(sorted(set(x for x in v if x))) or "?"))
        out.append("hop %d (AS%d, SKI %s..): [%s]" % (i, q.d.path[i][2], ski.hex()[:8], ", ".join(ks)))
    return "; ".join(out)


def check_requests(reqs, mode, divergences, oracle_fails, stats, distinct, note, R=None, vcache=None):
    bad = 0
    for q in reqs:
        hist(stats["codes"], q.impl)
        distinct.add((q.base_line(), q.impl))
        if not oracle_agrees(q) and R is not None and q.events is None and MINIMISED[0] < 2 and not (mode == "ski" or mode.startswith("ski+")):
            MINIMISED[0] += 1
            q0 = q
            q = minimise_request(R, q, mode, vcache)
            q.tag = q0.tag + ", minimised"
        line = q.full_line(mode)
        if not oracle_agrees(q):
            # F10 class: the AS number is ignored when router keys are looked up (VALID with a key of another AS, or
            # NOT_VALID/ERROR instead of ROUTER_KEY_NOT_FOUND when the segment's AS has no key under that SKI)
            # (only when the corpus replay showed that this tree selects keys by SKI only; on a tree that passes the
            # replay any such failure is a new violation)
            sig = SIG_F10 if (mode.startswith("ski+") or mode == "ski") and (q.f10 and q.impl in ("VALID", "NOT_VALID", "ERROR")) else None
            sched_note = ""
            if q.events is not None:
                sched_note = "# key table changed during the call: %s\n" % "; ".join(
                    "event %d (%s: %s) happened after %s table lookups of the call" % (
                        e, trig, ", ".join("%s AS%d/%s../%s.." % ("add" if sg == "+" else "remove", a, sk.hex()[:8], k.hex()[52:60]) for sg, (a, sk, k) in ops),
                        "-" if j is None else j) for e, ((trig, ops), j) in enumerate(zip(q.events, q.js)))
            oracle_fails.append((sig, "# C11 fails on the implementation (%s, %s)\n# rtr_bgpsec_validate_as_path answered %s; the property demands %s (model: %s)\n# because: %s\n%s# router keys carrying the SKIs of the path, in table order (AS, SKI.., verifies hop's signature over the RFC 8205 octets?): %s\n%s\n" % (
                note, q.tag, q.impl, q.oracle, q.model, q.oracle_why or "-", sched_note, describe_keys(q, vcache), line if len(line) < 30000 else line[:30000] + " …")))
            bad += 1
        if q.impl != q.model:
            divergences.append(("decision logic (%s, %s, key mode %s)" % (note, q.tag, mode), line, q.impl, q.model))
        if q.der_conflict:
            divergences.append(("independent strict DER parser vs. plain OpenSSL (%s, %s)" % (note, q.tag), line, q.der_conflict, "-"))
    return bad


def run_c11(R, r, rep, stats, lens, mode, vcache, thorough, divergences, oracle_fails, distinct):
    n_cases = 170 if not thorough else 1600
    n_full = 5 if not thorough else 60            # cases with ALL single-bit corruptions
    n_sample = 16 if not thorough else 60         # sampled corruptions per remaining case
    cases = make_signed_cases(R, r, n_cases, lens)
    stats["signed_cases"] = len(cases)
    reqs = []
    for c in cases:
        hist(stats["hops"], "e2e n=%d" % len(c.d.path))
        hist(stats["table_kinds"], c.kind)
        reqs.append(VReq(c.d, c.table, "case %d (%s, %d hops, afi %d /%d)" % (c.cid, c.kind, len(c.d.path), c.d.afi, c.d.nlen)))
    run_validations(R, reqs, mode, vcache)
    check_requests(reqs, mode, divergences, oracle_fails, stats, distinct, "signed path", R, vcache)
    # long paths: one AS with one router key prepends itself n-1 times over an origin segment.  n around and beyond 2^8 (a hop
    # counter kept in a narrow integer shows only here); honest paths, and the same paths with the ORIGIN's signature forged
    # (a byte flipped) or signed by a key the table does not hold: only the honest one may be VALID
    long_ns = [255, 256, 257] if not thorough else [254, 255, 256, 257, 300, 511, 512, 513, 600]
    lk = keygen(R, 2)
    lcases = []
    for j, n in enumerate(long_ns):
        afi, nlen = lens[(7 * j) % len(lens)]
        _, _, nb = rand_nlri(r, afi, nlen, canonical=True)
        case = Case(100000 + j)
        asn = rand_asn(r)
        d = D(alg=1, afi=afi, safi=1, nafi=afi, nlen=nlen, nbytes=nb, target=rand_asn(r))
        d.path = [(1, 0, asn) for _ in range(n)]
        case.signers = [lk[0]] * n
        d.sigs = [(lk[0].ski, b"\x00") for _ in range(n)]
        case.d = d
        case.table = [(asn, lk[0].ski, lk[0].spki)]
        case.kind = "long"
        lcases.append(case)
    sign_cases_with_openssl(R, lcases)
    lreqs = []
    for c in lcases:
        n = len(c.d.path)
        lreqs.append(VReq(c.d, c.table, "long path: %d hops of one AS, honest" % n))
        f = copy.deepcopy(c.d)
        ski, sg = f.sigs[n - 1]
        f.sigs[n - 1] = (ski, sg[:-1] + bytes([sg[-1] ^ 1]))
        lreqs.append(VReq(f, c.table, "long path: %d hops of one AS, the origin's signature forged (last byte flipped)" % n))
        hist(stats["hops"], "long n=%d" % n)
    run_validations(R, lreqs, mode, vcache)
    check_requests(lreqs, mode, divergences, oracle_fails, stats, distinct, "long path", R, vcache)
    stats["long_paths"] = {"hops": long_ns, "honest_valid": sum(1 for q in lreqs if "honest" in q.tag and q.impl == "VALID" and q.oracle == "VALID"),
                           "forged_not_valid": sum(1 for q in lreqs if "forged" in q.tag and q.oracle != "VALID")}
    # systematic key tables: for a hop, every insertion order of every selection of
    # {right key/right AS, wrong key/right AS, right key/wrong AS, wrong key/wrong AS} under the hop's SKI
    plain_ok = [(c, q) for c, q in zip(cases, reqs) if c.kind == "plain" and q.impl == "VALID" and q.oracle == "VALID"]
    n_sys = 10 if not thorough else 120
    wrong = keygen(R, n_sys + 1)
    sreqs = []
    picked = sorted(plain_ok, key=lambda cq: (len(cq[0].d.path) > 3, cq[0].cid))[:n_sys]
    for idx, (c, q) in enumerate(picked):
        n = len(c.d.path)
        victims = range(n) if n <= 3 else sorted(set([0, n - 1, r.randrange(n)]))
        for v in victims:
            for label, tab in systematic_tables(c, v, wrong[idx], 4 if n <= 3 else 3):
                sreqs.append(VReq(c.d, tab, "case %d (%d hops), %s" % (c.cid, n, label)))
                hist(stats["table_kinds"], "systematic len=%d" % (label.count(">") + 1))
    stats["systematic_tables"] = len(sreqs)
    B0 = 3000
    for b0 in range(0, len(sreqs), B0):
        part = sreqs[b0:b0 + B0]
        run_validations(R, part, mode, vcache)
        check_requests(part, mode, divergences, oracle_fails, stats, distinct, "systematic key table", R, vcache)
    # the oracle must have said VALID exactly for the sequences containing RR (sanity of the generator itself)
    for q in sreqs:
        has_rr = "RR" in q.tag.split("keys ")[1].split(",")[0].split(">")
        if (q.oracle == "VALID") != has_rr:
            divergences.append(("generator self-check: oracle verdict %s for key sequence of %s" % (q.oracle, q.tag), "validate " + q.d.toks()[:300], q.impl, q.oracle))
            break
    for q in reqs:
        rep.sample({"request": "validate " + q.d.toks()[:160] + " …", "answer": q.impl})
    # expected VALID for every case whose table holds each signer's key under its AS
    for c, q in zip(cases, reqs):
        if c.kind in ("plain", "multi", "otheras") and q.oracle != "VALID":
            divergences.append(("independent OpenSSL verification of a harness-signed hop failed (spec digest vs. signature)", "validate " + q.d.toks(), q.impl, q.oracle))
    # error codes / precedence on unsigned shapes
    ereqs = []
    for c in cases[:40]:
        for _ in range(3):
            m = c.d.copy()
            for f in r.sample(["count", "alg", "nafi", "nosigs", "nopath"], r.randint(1, 3)):
                if f == "count":
                    if r.random() < 0.5 and len(m.path) > 1:
                        m.path = m.path[:-1]
                    else:
                        m.sigs = m.sigs + [c.d.sigs[-1]]
                elif f == "alg":
                    m.alg = r.choice([0, 2, 255])
                elif f == "nafi":
                    m.nafi = r.choice([0, 3, 8, 25, 65535])
                elif f == "nosigs":
                    m.sigs = []
                elif f == "nopath":
                    m.path = []
            tab = c.table
            if r.random() < 0.3 and tab:
                tab = tab[1:]
            ereqs.append(VReq(m, tab, "case %d, fault injection" % c.cid))
    run_validations(R, ereqs, mode, vcache)
    check_requests(ereqs, mode, divergences, oracle_fails, stats, distinct, "error codes")
    # corruptions
    creqs = []
    good = [(c, q) for c, q in zip(cases, reqs) if q.oracle == "VALID" and q.impl == "VALID"]
    order = sorted(good, key=lambda cq: len(cq[0].d.path))
    full = []
    # all bits: the shortest cases of 1, 2, 3 hops, plus a few more including the longest
    for want in (1, 2, 3):
        for cq in order:
            if len(cq[0].d.path) == want and cq not in full:
                full.append(cq)
                break
    if thorough and order and order[-1] not in full:
        full.append(order[-1])
    for cq in good:
        if len(full) >= n_full:
            break
        if cq not in full and len(cq[0].d.path) <= 5:
            full.append(cq)
    for c, q in good:
        muts = corruptions(c.d)
        if (c, q) not in full:
            # sample, but at least one of every class
            by = {}
            for cls, m in muts:
                by.setdefault(cls, []).append((cls, m))
            pick = [r.choice(v) for v in by.values()]
            pick += r.sample(muts, min(n_sample, len(muts)))
            muts = pick
        for cls, m in muts:
            hist(stats["corruption_classes"], cls)
            creqs.append(VReq(m, c.table, "case %d, one bit of %s flipped" % (c.cid, cls)))
    stats["corrupted_validations"] = len(creqs)
    stats["cases_with_all_bits"] = len(full)
    B = 4000
    for b0 in range(0, len(creqs), B):
        part = creqs[b0:b0 + B]
        run_validations(R, part, mode, vcache)
        check_requests(part, mode, divergences, oracle_fails, stats, distinct, "corruption")
        for q in part:
            if q.impl == "VALID" and q.oracle == "VALID":
                # independent verification of the changed octets agrees: would mean the changed field is not signed
                oracle_fails.append((None, "# C11: a single-bit corruption (%s) still validates as VALID\nvalidate %s %s\n" % (
                    q.tag, q.d.toks(), table_toks(q.table))))
        if (divergences or any(x[0] is None for x in oracle_fails)) and not thorough:
            break
    if not thorough and (divergences or any(x[0] is None for x in oracle_fails)):
        for o in vcache.values():
            hist(stats["verify_outcomes"], o or "?")
        return 0
    gate = []
    import time as _t
    t0 = _t.time()
    # ---------------- other encodings of a valid signature (tie 5) ----------------
    short = sorted([cq for cq in good if len(cq[0].d.path) <= 3], key=lambda cq: (len(cq[0].d.path), cq[0].cid))
    n_re = 24 if not thorough else 300
    rreqs = []
    seen_cls = {}
    for c, q in short[:n_re]:
        for h in range(len(c.d.sigs)):
            for cls, enc, still in reencodings(c.d.sigs[h][1]):
                m = c.d.copy()
                m.sigs[h] = (m.sigs[h][0], enc)
                x = VReq(m, c.table, "case %d (%d hops), signature of hop %d re-encoded: %s" % (c.cid, len(c.d.path), h, cls))
                x.reenc = (cls, h, still)
                rreqs.append(x)
                # self-check of the independent parser on its own products
                # (a dropped sign octet leaves a strict DER negative INTEGER unless the value then starts ff 80..ff: either way not a signature)
                if cls not in ("r-neg", "s-neg") and (der_ecdsa_sig(enc) is not None) != (cls in ("malleate-s", "r-zero")):
                    divergences.append(("generator self-check: strict DER parser on re-encoding %s" % cls, enc.hex(), "-", "-"))
    run_validations(R, rreqs, mode, vcache)
    check_requests(rreqs, mode, divergences, oracle_fails, stats, distinct, "re-encoded signature", R, vcache)
    stats["reencodings"] = {}
    for x in rreqs:
        cls, h, still = x.reenc
        hist(stats["reencodings"], cls)
        if h == 0:
            seen_cls[cls] = seen_cls.get(cls, 0) + 1
            # the newest signature is signed by nobody: (r, n-s) must be VALID, every BER-only form must not
            if still and x.oracle != "VALID":
                divergences.append(("generator self-check: (r, n-s) of a valid newest signature is not VALID for the independent oracle", x.base_line()[:300], x.impl, x.oracle))
            if not still and x.oracle == "VALID":
                divergences.append(("generator self-check: the oracle accepts re-encoding %s" % cls, x.base_line()[:300], x.impl, x.oracle))
    miss = [c for c in REENC_REQUIRED if not seen_cls.get(c)]
    if miss:
        gate.append("signature re-encodings never exercised on a newest Signature Segment: %s" % ", ".join(miss))
    stats.setdefault("phase_s", {})["reencodings"] = round(_t.time() - t0, 2)
    t0 = _t.time()
    # ---------------- the key table changes during the call (tie 4) ----------------
    n_sets = 2 if not thorough else 12
    sets = []
    for k in range(n_sets):
        for want in (1, 2, 3):
            cand = [cq for cq in plain_ok if len(cq[0].d.path) == want and cq not in sets]
            if cand:
                sets.append(cand[0])
    qreqs = []
    stats["sched"] = {}
    for idx, (c, q) in enumerate(sets):
        n = len(c.d.path)
        wk = wrong[idx % len(wrong)]
        plain = [(c.d.path[i][2], c.signers[i].ski, c.signers[i].spki) for i in range(n)]
        lpts = ["L%d" % j for j in range(2 * n + 1)]
        apts = ["A%d" % j for j in range(2 * n + 4)]
        for h in range(n):
            asn, ski, spki = plain[h]
            own = plain[h]
            oth = ((asn ^ 0x10000) & 0xffffffff, ski, spki)
            wr = (asn, ski, wk.spki)
            without = plain[:h] + plain[h + 1:]
            singles = [("remove", plain, [("-", own)]),
                       ("replace-as", plain, [("-", own), ("+", oth)]),
                       ("replace-key", plain, [("-", own), ("+", wr)]),
                       ("add-second", plain, [("+", wr)]),
                       ("add-other-as", plain, [("+", oth)]),
                       ("late-key", without, [("+", own)]),
                       ("wrong-then-right", plain[:h] + [wr] + plain[h + 1:], [("-", wr), ("+", own)])]
            for kind, tab, ops in singles:
                for pt in lpts + apts:
                    x = VReq(c.d, tab, "case %d (%d hops), hop %d: %s at %s" % (c.cid, n, h, kind, pt), events=[(pt, ops)])
                    x.sched = (kind, h)
                    qreqs.append(x)
            for a in range(len(lpts)):
                for b in range(a + 1, len(lpts)):
                    x = VReq(c.d, plain, "case %d (%d hops), hop %d: withdrawn at %s, back at %s" % (c.cid, n, h, lpts[a], lpts[b]),
                             events=[(lpts[a], [("-", own)]), (lpts[b], [("+", own)])])
                    x.sched = ("withdrawn-and-back", h)
                    qreqs.append(x)
    BQ = 2500
    for b0 in range(0, len(qreqs), BQ):
        part = qreqs[b0:b0 + BQ]
        run_validations(R, part, mode, vcache)
        check_requests(part, mode, divergences, oracle_fails, stats, distinct, "key table changed during the call", R, vcache)
    placed = {"before-precheck": 0, "between-precheck-and-own-lookup": 0, "after-own-lookup": 0, "never": 0}
    empty_own = 0
    for x in qreqs:
        kind, h = x.sched
        n = len(x.d.path)
        hist(stats["sched"], kind)
        j = x.js[0]
        placed["never" if j is None else "before-precheck" if j <= h else "between-precheck-and-own-lookup" if j <= n + h else "after-own-lookup"] += 1
        if x.oracle != "ROUTER_KEY_NOT_FOUND" and not [1 for a, s_, k in x.view(n + h) if s_ == x.d.sigs[h][0]]:
            # every earlier hop must have verified for the loop to get here; what matters is that the class occurs
            empty_own += 1
            hist(stats["sched"], "own lookup empty -> " + x.impl)
    stats["sched_placement"] = placed
    stats["sched_empty_own_lookup"] = empty_own
    stats["sched_validations"] = len(qreqs)
    for k_, v in placed.items():
        if not v:
            gate.append("no table change placed %s" % k_)
    if not empty_own:
        gate.append("no validation in which a hop's own lookup came back empty after the pre-check had found its key")
    for kind in ("remove", "replace-as", "replace-key", "add-second", "add-other-as", "late-key", "wrong-then-right", "withdrawn-and-back"):
        if not stats["sched"].get(kind):
            gate.append("table change of kind %s never exercised" % kind)
    stats["phase_s"]["table_changes"] = round(_t.time() - t0, 2)
    t0 = _t.time()
    # ---------------- repeated requests within one process (tie 6) ----------------
    pool = reqs[:30] + sreqs[:20] + creqs[:40] + rreqs[:30]
    rep_reqs = [VReq(x.d, x.table, x.tag + ", asked again (A B … A B)") for x in pool + pool[::-1]]
    run_validations(R, rep_reqs, mode, vcache)
    check_requests(rep_reqs, mode, divergences, oracle_fails, stats, distinct, "repeated request")
    for x, y in zip(pool + pool[::-1], rep_reqs):
        if x.impl != y.impl and x.events is None:
            oracle_fails.append((None, "# C11: the same validation request got two different answers within one process (%s, then %s): %s\n%s\n" % (
                x.impl, y.impl, x.tag, y.full_line(mode)[:20000])))
    stats["repeated_requests"] = len(rep_reqs)
    stats["phase_s"]["repeated"] = round(_t.time() - t0, 2)
    if not rep_reqs:
        gate.append("no repeated requests")
    lp = stats.get("long_paths", {})
    if lp and (lp.get("honest_valid", 0) < len(lp.get("hops", [])) or lp.get("forged_not_valid", 0) < len(lp.get("hops", []))):
        gate.append("long paths: not every honest path of %s hops was VALID for rtrlib and the oracle, or a forged one was VALID for the oracle (%s)" % (lp.get("hops"), lp))
    stats["coverage_gate_missing"] = gate
    for o in vcache.values():
        hist(stats["verify_outcomes"], o or "?")
    return 0


def expected_gensig(d, key_ok):
    if not d.path:
        return "INVALID_ARGUMENTS"
    if d.alg != 1:
        return "UNSUPPORTED_ALGORITHM_SUITE"
    if d.nafi not in (1, 2):
        return "UNSUPPORTED_AFI"
    if len(d.path) != len(d.sigs) + 1:
        return "WRONG_SEGMENT_COUNT"
    if not key_ok:
        return "LOAD_PRIV_KEY_ERROR"
    return "SUCCESS"


def run_c12(R, r, rep, stats, lens, mode, vcache, thorough, divergences, oracle_fails, distinct):
    del MT_SIGN_CALLS[:]
    gensigs = set()
    n_paths = 500 if not thorough else 10000
    shapes = [[1, 2, 3, 8, 4, 5, 6, 7][c % 8] if c < 16 else r.randint(1, 8) for c in range(n_paths)]
    keys = keygen(R, sum(shapes) + n_paths)
    paths = []
    for c, n in enumerate(shapes):
        afi, nlen = lens[c % len(lens)]
        _, _, nb = rand_nlri(r, afi, nlen, canonical=True)
        segs = [rand_path_seg(r) for _ in range(n)]          # most recent first
        ks = [keys.pop() for _ in range(n)]
        final_target = rand_asn(r)
        base = D(alg=1, afi=afi, safi=r.choice([1, 1, 2, r.getrandbits(8)]), nafi=afi, nlen=nlen, nbytes=nb, target=0)
        paths.append({"id": c, "segs": segs, "keys": ks, "base": base, "sigs": [], "final": final_target, "stages": []})
    stats["hop_by_hop_paths"] = len(paths)
    # stage k: the k-th speaker counted from the origin signs
    for depth in range(max(shapes)):
        todo = [p for p in paths if len(p["segs"]) > depth]
        glines, stage_d = [], []
        for p in todo:
            n = len(p["segs"])
            i = n - 1 - depth                                  # index of the signer (most recent first)
            d = p["base"].copy()
            d.path = p["segs"][i:]
            d.sigs = list(p["sigs"])                           # signatures of the older hops
            d.target = p["segs"][i - 1][2] if i > 0 else p["final"]
            stage_d.append(d)
            glines.append("gensig %s %s" % (d.toks(), p["keys"][i].priv.hex()))
        gout = R.impl(glines)
        sd = R.model(["sdigest " + d.toks() for d in stage_d])
        mrc = R.model(["%s O 1 %d" % (g, int(o.split()[1]) if o.split()[1].isdigit() else 0) for g, o in zip(glines, gout)])
        vlines = []
        for p, d, o, dg in zip(todo, stage_d, gout, sd):
            w = o.split()
            i = len(p["segs"]) - 1 - depth
            hist(stats["gensig"], w[0])
            if w[0] != "SUCCESS":
                oracle_fails.append((None, "# C12: rtr_bgpsec_generate_signature failed with %s on a well-formed request\n%s\n" % (w[0], glines[todo.index(p)][:4000])))
                p["dead"] = True
                vlines.append("verify %s 00 00" % p["keys"][i].spki.hex())
                continue
            sig = bytes.fromhex(w[2])
            if int(w[1]) != len(sig) or w[3] != "der-ok" or not (8 <= len(sig) <= 72):
                oracle_fails.append((None, "# C12: generated signature is not a well-formed DER ECDSA-Sig-Value of sig_len octets (sig_len=%s, %s)\n%s\n" % (w[1], w[3], glines[todo.index(p)][:4000])))
            distinct.add(w[2])
            gensigs.add(w[2])
            if len(MT_SIGN_CALLS) < 24 and len(d.path) <= 4:
                MT_SIGN_CALLS.append("gensig %s %s V %s %s" % (d.toks(), p["keys"][i].priv.hex(), p["keys"][i].spki.hex(), dg))
            vlines.append("verify %s %s %s" % (p["keys"][i].spki.hex(), dg, w[2]))
            p["sigs"] = [(p["keys"][i].ski, sig)] + p["sigs"]
            d2 = d.copy()
            d2.sigs = list(p["sigs"])
            p["stages"].append(d2)
        vout = R.impl(vlines)
        for p, d, o, line, m in zip(todo, stage_d, vout, glines, mrc):
            if p.get("dead"):
                continue
            hist(stats["verify_outcomes"], "gensig:" + o)
            if o != "v":
                oracle_fails.append((None, "# C12: the signature generated by rtrlib does not verify (OpenSSL ECDSA_verify = %s) over SHA-256 of the RFC 8205 signing octets computed by the Lean spec, under the matching public key\n%s\n" % (o, line[:6000])))
            if m != "SUCCESS":
                divergences.append(("generate_signature return code", line, "SUCCESS", m))
    # every stage of every path must validate (keys registered under SKI and AS; plus noise keys)
    reqs = []
    for p in paths:
        if p.get("dead"):
            continue
        n = len(p["segs"])
        tab = [(p["segs"][i][2], p["keys"][i].ski, p["keys"][i].spki) for i in range(n)]
        if r.random() < 0.5:
            e = keys.pop() if keys else None
            if e:
                tab.insert(r.randrange(len(tab) + 1), (p["segs"][0][2], p["keys"][0].ski, e.spki))
        r.shuffle(tab)
        for d in p["stages"]:
            hist(stats["hops"], "stage n=%d" % len(d.path))
            reqs.append(VReq(d, tab, "path %d after %d hops" % (p["id"], len(d.path))))
    B = 3000
    for b0 in range(0, len(reqs), B):
        part = reqs[b0:b0 + B]
        run_validations(R, part, mode, vcache)
        for q in part:
            hist(stats["codes"], q.impl)
            distinct.add((q.d.toks(), q.impl))
            line = "validate %s %s" % (q.d.toks(), table_toks(q.table))
            if q.impl != "VALID" or q.oracle != "VALID":
                oracle_fails.append((None, "# C12: a path built hop by hop from generated signatures does not validate (%s): rtrlib %s, independent oracle %s %s\n%s\n" % (
                    q.tag, q.impl, q.oracle, q.oracle_why, line[:20000])))
            if q.impl != q.model:
                divergences.append(("decision logic (hop-by-hop, key mode %s)" % mode, line, q.impl, q.model))
    for q in reqs[:3]:
        rep.sample({"request": "validate " + q.d.toks()[:160] + " …", "answer": q.impl})
    # error codes of generate_signature
    glines, exp = [], []
    good_key = keys.pop() if keys else paths[0]["keys"][0]
    for p in paths[:60]:
        for _ in range(4):
            n = len(p["segs"])
            d = p["base"].copy()
            d.path = list(p["segs"])
            d.sigs = list(p["sigs"][1:]) if p["sigs"] else []
            d.target = p["final"]
            key = good_key.priv
            key_ok = True
            for f in r.sample(["count", "alg", "nafi", "nopath", "key"], r.randint(1, 3)):
                if f == "count":
                    if r.random() < 0.5:
                        d.sigs = d.sigs + [(good_key.ski, b"\x30\x00")]
                    else:
                        d.path = d.path + [rand_path_seg(r)]
                elif f == "alg":
                    d.alg = r.choice([0, 2, 255])
                elif f == "nafi":
                    d.nafi = r.choice([0, 3, 8, 65535])
                elif f == "nopath":
                    d.path = []
                elif f == "key":
                    kind = r.randrange(4)
                    kb = bytearray(key)
                    if kind == 0:
                        kb = bytearray(r.getrandbits(8) for _ in range(121))
                    elif kind == 1:
                        kb = kb[:r.randrange(1, 100)]
                    elif kind == 2:
                        kb[0] ^= 0x01                  # not a SEQUENCE any more
                    else:
                        kb[7 + r.randrange(32)] ^= 1 << r.randrange(8)   # other private scalar, public key no longer matches
                    key = bytes(kb)
                    key_ok = False
            glines.append("gensig %s %s" % (d.toks(), key.hex()))
            exp.append((d, key_ok))
    gout = R.impl(glines)
    mout = R.model(["%s O %d 71" % (g, 1 if ok else 0) for g, (d, ok) in zip(glines, exp)])
    for line, (d, ok), o, m in zip(glines, exp, gout, mout):
        code = o.split()[0]
        hist(stats["gensig"], code)
        e = expected_gensig(d, ok)
        if code != e:
            oracle_fails.append((None, "# C12: rtr_bgpsec_generate_signature answered %s, the property demands %s\n%s\n" % (code, e, line[:6000])))
        if code != "SUCCESS" and o.split()[1] != "-":
            oracle_fails.append((None, "# C12: a signature is returned together with %s\n%s\n" % (code, line[:6000])))
        if code != m:
            divergences.append(("generate_signature return code", line, code, m))
    # other valid encodings of the signer's private key (RFC 5915: the public key is optional; the point may be compressed): a router
    # key exported in such a form is the same key - the signature must be produced and must verify under the same public key
    import re as _re
    fl, fmeta = [], []
    sel = [p for p in paths if not p.get("dead")][:24 if not thorough else 400]
    forms = R.impl(["keyforms " + p["keys"][len(p["segs"]) - 1].priv.hex() for p in sel])
    fd = []
    for p in sel:
        n = len(p["segs"])
        d = p["base"].copy()
        d.path = p["segs"][n - 1:]
        d.sigs = []
        d.target = p["segs"][n - 2][2] if n > 1 else p["final"]
        fd.append(d)
    fdg = R.model(["sdigest " + d.toks() for d in fd])
    for p, d, fo, dg in zip(sel, fd, forms, fdg):
        w = fo.split()
        if len(w) != 3 or w[0] != "forms":
            continue
        k = p["keys"][len(p["segs"]) - 1]
        for label, hx in (("without the optional public key", w[1]), ("public point compressed", w[2])):
            fl.append("gensig %s %s V %s %s" % (d.toks(), hx, k.spki.hex(), dg))
            fmeta.append((label, len(hx) // 2))
    fout = R.impl(fl)
    stats["private_key_encodings"] = {"requests": len(fl), "lengths": sorted(set(m[1] for m in fmeta)), "signed_and_verified": 0}
    for line, (label, ln), o in zip(fl, fmeta, fout):
        if _re.match(GOOD_RE, o):
            stats["private_key_encodings"]["signed_and_verified"] += 1
        else:
            oracle_fails.append((None, "# C12: the router's private key in another valid RFC 5915 encoding (%s, %d octets): rtr_bgpsec_generate_signature "
                                 "answered '%s' - no signature that verifies under the key's public half\n%s\n" % (label, ln, o[:120], line[:6000])))
            break
    # well-formedness of every generated signature, judged by the independent strict DER parser
    stats["generated_signatures_strict_der_checked"] = len(gensigs)
    for hx in sorted(gensigs):
        if not ecdsa_wellformed(bytes.fromhex(hx)):
            oracle_fails.append((None, "# C12: a generated signature is not a well-formed ECDSA P-256 signature (independent strict DER parser: SEQUENCE of two minimal positive INTEGERs in 1..n-1, nothing else)\n# %s\n" % hx))
            break
    if not thorough and (divergences or any(x[0] is None for x in oracle_fails)):
        return 0
    gate = []
    import time as _t
    t0 = _t.time()
    histories_c12(R, r, rep, keys, paths, stats, thorough, divergences, oracle_fails, distinct, gate)
    stats.setdefault("phase_s", {})["histories"] = round(_t.time() - t0, 2)
    t0 = _t.time()
    threads_c12(R, r, rep, stats, thorough, oracle_fails, reqs, gate)
    stats["phase_s"]["threads"] = round(_t.time() - t0, 2)
    pk = stats.get("private_key_encodings", {})
    if not pk.get("requests") or sorted(pk.get("lengths", [])) == [121]:
        gate.append("private key encodings: no signing request with a key in another valid encoding ran (%s)" % pk)
    stats["coverage_gate_missing"] = gate
    return 0


GOOD_RE = r"^SUCCESS \d+ [0-9a-f]+ der-ok v$"
BAD_RE = r"^LOAD_PRIV_KEY_ERROR - - -$"


class HCall:
    """one signing call of a history: judged on ITS OWN arguments only"""

    def __init__(self, sym, d, keybytes, good, spki, msg):
        self.sym, self.d, self.key, self.good, self.spki, self.msg = sym, d, keybytes, good, spki, msg
        self.line = "gensig %s %s V %s %s" % (d.toks(), keybytes.hex(), spki.hex(), msg)
        self.mline = "gensig %s %s O %d 71" % (d.toks(), keybytes.hex(), 1 if good else 0)
        self.exp = GOOD_RE if good else BAD_RE

    def ok(self, reply):
        if not re.search(self.exp, reply):
            return False
        return (not self.good) or ecdsa_wellformed(bytes.fromhex(reply.split()[2]))


def history_text(title, calls, replies=None, note=""):
    t = ["# C12, history of signing calls in ONE process; every call is judged on its own arguments:",
         "#   a loadable key -> SUCCESS, strict DER signature that verifies (plain OpenSSL) under THAT key over the RFC 8205 octets of the Lean spec",
         "#   an unloadable key -> LOAD_PRIV_KEY_ERROR and no signature, every time it is offered",
         "# " + title]
    if note:
        t.append("# " + note)
    t.append("#! one-process")
    for i, c in enumerate(calls):
        t.append("# call %d: key %s (%s)%s" % (i + 1, c.sym, "loadable" if c.good else "unloadable",
                                               ("   observed: " + replies[i][:60]) if replies else ""))
        t.append("#~ " + c.exp)
        t.append(c.line)
    return "\n".join(t) + "\n"


def histories_c12(R, r, rep, keys, paths, stats, thorough, divergences, oracle_fails, distinct, gate):
    """tie 6: inputs repeat within one process"""
    import itertools
    G1 = keys.pop() if keys else paths[0]["keys"][0]
    G2 = keys.pop() if keys else paths[1]["keys"][0]

    def flip_scalar(k, pos, bit):
        kb = bytearray(k.priv)
        kb[7 + pos] ^= 1 << bit          # another private scalar: the public key inside no longer matches
        return bytes(kb)
    b2 = bytes(r.getrandbits(8) for _ in range(121))
    b3 = bytearray(G2.priv)
    b3[0] ^= 0x01                        # not a SEQUENCE any more
    syms = {"G1": (G1.priv, True, G1.spki), "G2": (G2.priv, True, G2.spki),
            "B1": (flip_scalar(G1, r.randrange(32), r.randrange(8)), False, G1.spki), "B2": (b2, False, G2.spki),
            "B3": (bytes(b3), False, G2.spki), "B4": (G1.priv[:r.randrange(40, 110)], False, G1.spki)}
    # two requests to sign: an origination and a forwarding step of a longer path
    da = paths[0]["base"].copy()
    da.path, da.sigs, da.target = [paths[0]["segs"][-1]], [], paths[0]["final"]
    pl = next((p for p in paths if len(p["segs"]) >= 3 and not p.get("dead")), paths[0])
    db = pl["stages"][-1].copy() if pl["stages"] else da.copy()
    if pl["stages"]:
        db.path = [rand_path_seg(r)] + db.path
        db.target = rand_asn(r)
    ds = [da, db]
    msgs = R.model(["sdigest " + d.toks() for d in ds])

    def call(sym, which):
        kb, good, spki = syms[sym]
        return HCall(sym, ds[which], kb, good, spki, msgs[which])

    def run_history(calls):
        out, rc, err = vlib.run_lines(R.exe, [c.line for c in calls], timeout=600)
        R.impl_lines += len(calls)
        return out, rc, err

    def first_bad(calls, out, rc):
        for i, c in enumerate(calls):
            if i >= len(out) or not c.ok(out[i]):
                return i
        return None if rc == 0 else len(out)
    named = [("good key, unloadable key, the SAME unloadable key again", ["G1", "B1", "B1"]),
             ("unloadable key, good key, the SAME unloadable key again", ["B1", "G1", "B1"]),
             ("key A, key B, key A", ["G1", "G2", "G1"]),
             ("good key, unloadable key, the good key again", ["G1", "B1", "G1"]),
             ("the same request twice", ["G1", "G1"]),
             ("good key, random octets twice", ["G2", "B2", "B2"]),
             ("good key, damaged header twice", ["G1", "B3", "B3"]),
             ("good key, truncated key twice", ["G2", "B4", "B4"])]
    stats["histories"] = {}
    reported = 0
    histories = [(title, [call(x, i % 2 if "request twice" not in title else 0) for i, x in enumerate(seq)]) for title, seq in named]
    # all sequences of three keys over the alphabet, concatenated into one long history (thorough: four)
    ln = 3 if not thorough else 4
    allseq = list(itertools.product(sorted(syms), repeat=ln))
    r.shuffle(allseq)
    long_calls = []
    for seq in allseq:
        w = r.randrange(2)
        long_calls += [call(x, w if r.random() < 0.7 else 1 - w) for x in seq]
    histories.append(("every sequence of %d keys over {%s}, concatenated" % (ln, ", ".join(sorted(syms))), long_calls))
    for title, calls in histories:
        out, rc, err = run_history(calls)
        hist(stats["histories"], "calls", len(calls))
        hist(stats["histories"], "histories")
        for c, o in zip(calls, out):
            hist(stats["gensig"], o.split()[0])
            if o.startswith("SUCCESS"):
                distinct.add(o.split()[2])
        # model (stateless by construction): same codes
        mo = R.model([c.mline for c in calls])
        for c, o, m in zip(calls, out, mo):
            if o.split()[0] != m:
                divergences.append(("generate_signature return code within a history (%s)" % title, c.line[:3000], o.split()[0], m))
                break
        k = first_bad(calls, out, rc)
        if k is None:
            continue
        if reported >= 2:
            continue
        reported += 1
        # minimise the history: drop calls while some call still contradicts its own expectation
        def still(cs):
            o2, rc2, _ = run_history(cs)
            return first_bad(cs, o2, rc2) is not None
        small = vlib.ddmin(calls[:k + 1], still, max_tests=120) if len(calls) > 3 else calls
        o2, rc2, err2 = run_history(small)
        kk = first_bad(small, o2, rc2)
        obs = o2[kk] if kk is not None and kk < len(o2) else "(aborted: %s)" % crash_signature(err2)
        why = "call %d of this history (key %s, %s) was answered `%s`" % (
            (kk or 0) + 1, small[kk].sym if kk is not None and kk < len(small) else "?",
            "loadable" if kk is not None and kk < len(small) and small[kk].good else "unloadable", obs[:120])
        if kk is not None and kk < len(small) and not small[kk].good and obs.startswith("SUCCESS"):
            why += " - a signature was produced although THIS key cannot be loaded" + (
                "; it verifies under the public key of an EARLIER call's key" if obs.endswith(" v") else "")
        oracle_fails.append((None, history_text(title + " (minimised)", small, o2, why) +
                             (("--- stderr ---\n" + clean_err(err2, 2500)) if rc2 != 0 else "")))
    for need in ("good key, unloadable key, the SAME unloadable key again", "unloadable key, good key, the SAME unloadable key again",
                 "key A, key B, key A"):
        if need not in [t for t, _ in histories]:
            gate.append("history class never exercised: " + need)
    if stats["histories"].get("calls", 0) < 200:
        gate.append("fewer than 200 signing calls inside histories")


def threads_c12(R, r, rep, stats, thorough, oracle_fails, reqs, gate):
    """tie 7: the same calls from several threads at once"""
    # calls: signing requests (verified independently inside the harness) and validations, answers known single-threaded
    sign_calls = MT_SIGN_CALLS[:24]
    val_calls = [q.base_line() for q in reqs if q.events is None and len(q.d.path) <= 4][:12]
    calls = sign_calls + val_calls
    if len(sign_calls) < 8 or not val_calls:
        gate.append("threaded run: not enough calls (%d signing, %d validation)" % (len(sign_calls), len(val_calls)))
        return
    rounds = 10 if not thorough else 150
    ops = ["mt-begin"] + calls + ["mt-run %d %d" % (n, rounds) for n in (2, 3, 4)]
    out, rc, err = vlib.run_lines(R.exe, ops, timeout=900)
    R.impl_lines += len(ops)
    single = out[1:1 + len(calls)]
    stats["threads"] = {"calls": len(calls), "rounds": rounds, "thread_counts": [2, 3, 4],
                        "executions": len(calls) * rounds * 9, "asan": "ok", "tsan": "not run"}

    def mt_text(title, ops_, expect, extra=""):
        t = ["# C12 (threads): " + title, "#! one-process"]
        for o in ops_:
            if o.startswith("mt-run"):
                t.append("#= mt ok")
            t.append(o)
        return "\n".join(t) + "\n" + extra
    bad = [o for o in out[1 + len(calls):] if o != "mt ok"]
    if rc != 0 or len(out) != len(ops) or bad:
        stats["threads"]["asan"] = "fails"
        what = bad[0] if bad else "the process aborted (rc=%s, %s) after %d of %d replies" % (rc, crash_signature(err), len(out), len(ops))
        oracle_fails.append((None, mt_text("%d calls (sign / validate) executed by 2, 3 and 4 threads at once, %d rounds each; every reply must equal the "
                                           "single-threaded reply of the same call and every generated signature must verify independently\n# observed: %s" % (
                                               len(calls), rounds, what[:700]), ops, None,
                                           ("--- stderr ---\n" + clean_err(err)) if rc != 0 else "")))
        if len(single) != len(calls):
            return
    for o, c in zip(single, calls):
        if c.startswith("gensig") and not re.search(GOOD_RE, o):
            oracle_fails.append((None, "# C12: signing call of the threaded set fails already single-threaded: %s\n%s\n" % (o[:100], c[:4000])))
            return
    # the same under ThreadSanitizer; the calls are NOT executed before the threads start, so that first use of any
    # lazily initialised static state happens concurrently
    texe, tlog = build_bgp_tsan()
    if texe is None:
        stats["threads"]["tsan"] = "build failed"
        gate.append("ThreadSanitizer build of the harness failed: " + tlog[-300:])
        return
    tops = ["mt-defer"]
    for c, o in zip(calls, single):
        tops += ["mt-expect " + o, c]
    trounds = 3 if not thorough else 30
    tops.append("mt-run 4 %d" % trounds)
    tout, trc, terr = vlib.run_lines(texe, tops, env={"TSAN_OPTIONS": "halt_on_error=0 exitcode=0 report_signal_unsafe=0 history_size=4"}, timeout=900)
    R.impl_lines += len(tops)
    races = re.findall(r"WARNING: ThreadSanitizer: [^\n]*", terr)
    summaries = sorted(set(re.findall(r"SUMMARY: ThreadSanitizer: ([^\n]*)", terr)))
    stats["threads"]["tsan"] = "ok" if not races and tout and tout[-1] == "mt ok" and trc == 0 else "fails"
    stats["threads"]["tsan_reports"] = len(races)
    if stats["threads"]["tsan"] != "ok":
        what = "; ".join(summaries)[:900] if races else (tout[-1] if tout else "no reply (rc=%s)" % trc)
        terr = clean_err(terr, 10 ** 7)
        first = terr[terr.find("WARNING: ThreadSanitizer"):][:3500] if races else terr[-2000:]
        oracle_fails.append((None, mt_text("4 threads execute %d calls (sign / validate) concurrently under ThreadSanitizer (first execution inside the threads)\n"
                                           "# observed: %d report(s): %s" % (len(calls), len(races), what), ["mt-begin"] + calls + ["mt-run 4 %d" % rounds], None,
                                           "--- ThreadSanitizer ---\n" + first)))


MT_SIGN_CALLS = []



def replay(path):
    txt = open(path, errors="replace").read()
    if "#! one-process" in txt:
        # a history / a threaded run: judged by the expectations written next to each request, implementation only
        print(txt)
        exe, blog = build_bgp_harness()
        if exe is None:
            print(blog)
            return 1
        fails = run_corpus_file(Runner(exe, None), path)
        for raw, exp, out, err in fails:
            print("FAILS: %s\n   expected %s %s\n   observed %s\n%s" % (raw[:200], exp[0] if exp else "", exp[1] if exp else "(no abort)", out[:300], err[-2000:]))
        print("replay: %s" % ("FAILS" if fails else "passes on the current tree (every reply meets its expectation, no abort)"))
        return 1 if fails else 0
    return vlib.generic_replay(path, build_bgp_harness, "bgpdriver")

if __name__ == "__main__":
    pid = sys.argv[1]
    tier = sys.argv[2] if len(sys.argv) > 2 else "quick"
    sys.exit(run(pid, tier))
