"""Check C18: allocation failure is contained; the configured allocator is used consistently.

 * proofs: RtrProps.C18 (model RtrModel.Alloc = the table models extended by an allocator oracle)
 * tie: harness/alloc_harness.c runs the real table functions and the real rtr_sync under an injected
   allocator (registry of live blocks, k-th request refused, libc free wrapped); every reply carries the
   return code, the allocator trace of the operation and the number of live blocks, and is compared
   with the reply of the model driver (allocdriver) on the same line.
 * the histories are generated ADAPTIVELY against the implementation: an operation is repeated with
   k = 0, 1, 2, ... until a run passes without refusal, so every allocation site that the operation
   reaches in that state is refused once; the recorded op file is then replayed on the model.
 * oracle: the statement of C18 in plain Python over sets (class Judge).
"""
import collections
import os
import re
import subprocess
import sys
import tempfile

sys.path.insert(0, os.path.dirname(os.path.abspath(__file__)))
import vlib
import pfxgen
import spkigen
import rtrpdu

THEOREMS = [
    "Rtr.C18.failure_free_coincides", "Rtr.C18.preqs_counts", "Rtr.C18.fail_contained", "Rtr.C18.fail_contained_pfx",
    "Rtr.C18.copy_success_complete",
    "Rtr.C18.fail_contained_queries", "Rtr.C18.fail_contained_spki", "Rtr.C18.hashlin_grow_optional",
    "Rtr.C18.fail_keeps_invariant", "Rtr.C18.alloc_count", "Rtr.C18.balanced", "Rtr.C18.configured_free_only",
    "Rtr.C18.sync_fail_clean", "Rtr.C18.sync_no_leak",
    "Rtr.C18.F15_unfixed_violates", "Rtr.C18.F16a_unfixed_crashes", "Rtr.C18.F16c_unfixed_violates",
    "Rtr.C18.F16d_unfixed_leaks",
]
MODULES = ["RtrProps.C18"]
HARNESS_EXCLUDE = ["rtrlib/spki/hashtable/ht-spkitable.c"]
NT = 4
ME = 0                     # the synchronising socket
SESSION, SERIAL0 = 7, 5    # what the harness puts into socket 0 before every sync


def build_harness():
    return vlib.build_harness("alloc", ["alloc_harness.c"], exclude=HARNESS_EXCLUDE,
                              flags=vlib.SAN_FLAGS_NOALIGN, link=["-Wl,--wrap=free"])


# ------------------------------------------------------------------------------------------
# talking to the implementation
# ------------------------------------------------------------------------------------------

class Harness:
    """the C harness as an interactive process: one line in, one line out"""

    def __init__(self, exe):
        self.err = tempfile.TemporaryFile(mode="w+")
        e = dict(os.environ)
        e.update(vlib.SAN_ENV)
        self.p = subprocess.Popen([exe], stdin=subprocess.PIPE, stdout=subprocess.PIPE, stderr=self.err, text=True,
                                  env=e, bufsize=1)
        self.dead = False

    def ask(self, line):
        if self.dead:
            return None
        try:
            self.p.stdin.write(line + "\n")
            self.p.stdin.flush()
            out = self.p.stdout.readline()
        except (BrokenPipeError, OSError):
            out = ""
        if not out:
            self.dead = True
            return None
        return out.rstrip("\n")

    def stderr_text(self):
        self.err.seek(0)
        t = self.err.read()
        # debug output of the library is not interesting, sanitizer reports are
        keep = [l for l in t.splitlines() if not re.match(r"^\(\d{4}/\d\d/\d\d ", l)]
        return "\n".join(keep)[-4000:]

    def close(self):
        try:
            self.p.stdin.close()
        except OSError:
            pass
        try:
            self.p.wait(timeout=20)
        except subprocess.TimeoutExpired:
            self.p.kill()
        rc = self.p.returncode
        return rc


def get_sizes(exe):
    out, rc, err = vlib.run_lines(exe, ["sizes"])
    if rc != 0 or not out or not out[0].startswith("sizes "):
        return None
    return dict((k, int(v)) for k, v in (w.split("=") for w in out[0].split()[1:]))


def setsizes_line(sz):
    return "setsizes " + " ".join("%s=%d" % kv for kv in sz.items())


# ------------------------------------------------------------------------------------------
# reply parsing, canonicalisation
# ------------------------------------------------------------------------------------------

def split_reply(reply):
    """'res ; trace ; live=n' -> (res, [tokens], live) or None"""
    parts = reply.split(" ; ")
    if len(parts) != 3 or not parts[2].startswith("live="):
        return None
    try:
        live = int(parts[2][5:])
    except ValueError:
        return None
    return parts[0].strip(), parts[1].split(), live


_RT = re.compile(r"^R(\d+)>(\d+)(!?)$")


def canon(reply):
    """sizes of released blocks and the old size of a realloc depend on whether an earlier SHRINKING
    realloc was refused (the block then stays larger than the model's element count says): compare
    only 'released' and 'old block was NULL / not NULL'"""
    sp = split_reply(reply)
    if sp is None:
        return reply
    res, toks, live = sp
    out = []
    for t in toks:
        m = _RT.match(t)
        if m:
            out.append("R%s>%s%s" % ("0" if m.group(1) == "0" else "+", m.group(2), m.group(3)))
        elif t[0] == "F":
            out.append("F")
        else:
            out.append(t)
    return "%s ; %s ; live=%d" % (res, " ".join(out), live)


def refused_tokens(toks):
    return [(i, t) for i, t in enumerate(toks) if t.endswith("!")]


# ------------------------------------------------------------------------------------------
# the oracle: C18 over plain sets
# ------------------------------------------------------------------------------------------

def _tab(s):
    return int(s) if s.isdigit() and len(s) < 3 and int(s) < NT else None


def _prec(w):
    try:
        return (int(w[0]), int(w[1], 16), int(w[2]), int(w[3]), int(w[4]), int(w[5]))
    except (ValueError, IndexError):
        return None


def _krec(w):
    try:
        return (int(w[0]), int(w[1], 16), int(w[2], 16), int(w[3]))
    except (ValueError, IndexError):
        return None


def decode_items(hexstream):
    """the payload PDUs of a well-formed answer: ('p', add, rec) / ('k', add, rec), and the serial of EOD"""
    pdus, left = rtrpdu.decode_stream(bytes.fromhex(hexstream))
    items = []
    sn = None
    for p in pdus:
        raw = p["raw"]
        if p["type"] == rtrpdu.IPV4_PREFIX:
            items.append(("p4", raw[8] == 1, (4, int.from_bytes(raw[12:16], "big"), raw[9], raw[10],
                                              int.from_bytes(raw[16:20], "big"), ME)))
        elif p["type"] == rtrpdu.IPV6_PREFIX:
            items.append(("p6", raw[8] == 1, (6, int.from_bytes(raw[12:28], "big"), raw[9], raw[10],
                                              int.from_bytes(raw[28:32], "big"), ME)))
        elif p["type"] == rtrpdu.ROUTER_KEY:
            items.append(("k", raw[2] == 1, (int.from_bytes(raw[28:32], "big"), int.from_bytes(raw[8:28], "big"),
                                            int.from_bytes(raw[32:123], "big"), ME)))
        elif p["type"] == rtrpdu.EOD:
            sn = int.from_bytes(raw[8:12], "big")
    return items, sn


class Judge:
    """consumes (op line, implementation reply) pairs of one history in order and evaluates the
    statement of C18; self.fails = [(clause, index, message)]"""

    def __init__(self, sz):
        self.sz = sz
        self.P = [set() for _ in range(NT)]
        self.Pcb = [True] * NT
        self.K = [None] * NT
        self.Kcb = [True] * NT
        self.between = {}            # ('P'|'K', t) -> (lo, hi): target of a failed copy until dumped
        self.RP = [set() for _ in range(NT)]       # replay of callback streams
        self.RK = [set() for _ in range(NT)]
        self.logok = {("P", t): True for t in range(NT)}
        self.logok.update({("K", t): True for t in range(NT)})
        self.fails = []
        self.i = -1
        self.dist = collections.Counter()
        self.stats = {}              # latest pstat / kstat per table
        self.last_live = None
        self.nrefused = 0

    def fail(self, clause, msg):
        self.fails.append((clause, self.i, msg))

    # ---- classification of a refused request
    def absorbable(self, op, toks, idx):
        t = toks[idx]
        m = _RT.match(t)
        if m:
            return int(m.group(1)) > 0 and int(m.group(2)) < int(m.group(1))      # a shrinking realloc
        if t[0] == "M" and op in ("kadd", "kcopyx", "sync"):
            n = int(t[1:-1])
            seg = n >= 64 * self.sz["ptr"] and n % self.sz["ptr"] == 0 and (n // self.sz["ptr"]) & ((n // self.sz["ptr"]) - 1) == 0
            after_ktab = idx > 0 and toks[idx - 1] == "M%d" % self.sz["ktab"]
            return seg and not after_ktab                                         # a new hash segment (growing)
        return False

    def site_name(self, op, toks, idx):
        t = toks[idx]
        m = _RT.match(t)
        z = self.sz
        if m:
            o, n = int(m.group(1)), int(m.group(2))
            kind = "shrink" if n < o else ("first" if o == 0 else "grow")
            return "realloc-" + kind
        n = int(t[1:-1])
        for name in ("node", "ndata", "entry", "ptab", "ktab"):
            if n == z[name]:
                return "malloc-" + name
        if n % z["ptr"] == 0 and n >= 64 * z["ptr"]:
            return "malloc-segment"
        return "malloc-%d" % n

    # ---- one pair
    def feed(self, op, reply):
        self.i += 1
        w = op.split()
        if not w:
            return
        cmd = w[0]
        if cmd == "kstat" and reply == "bad-op" and len(w) == 2 and _tab(w[1]) is not None:
            self.stats[("K", _tab(w[1]))] = 0          # no router-key table in this slot
            return
        if reply == "bad-op" or reply == "ok":
            return
        if cmd in ("pdump", "kdump", "plog", "klog", "pstat", "kstat", "live"):
            return self.observe(cmd, w, reply)
        self.stats = {}                                 # block accounting must be re-read after a mutation
        sp = split_reply(reply)
        if sp is None:
            self.fail("answer", "operation did not answer in the protocol: %r" % reply[:120])
            return
        res, toks, live = sp
        self.last_live = live
        for t in toks:
            if t[0] == "X":
                self.fail("foreign-free", "%s: a block of the configured allocator was released through libc free (%s)" % (cmd, t))
            if t[0] == "A":
                self.fail("alien-free", "%s: a block that did not come from the configured allocator reached its free/realloc" % cmd)
        ref = refused_tokens(toks)
        refused = bool(ref)
        absorb = refused and self.absorbable(cmd, toks, ref[0][0])
        if refused:
            self.nrefused += 1
        rw = res.split()
        try:
            rc = int(rw[0])
        except (ValueError, IndexError):
            self.fail("answer", "no return code in %r" % res[:80])
            return
        outcome = None

        def judge(spec_rc, unchanged, full, err=-1):
            """unchanged / full: callables applying 'nothing' / the complete effect to the spec;
            returns the outcome class"""
            if not refused:
                if rc != spec_rc:
                    self.fail("set", "%s returned %d, set semantics says %d (no allocation was refused)" % (cmd, rc, spec_rc))
                full()
                return "ok" if spec_rc == 0 else "rc%d" % spec_rc
            if rc == err:
                unchanged()
                return "error-unchanged"
            if absorb and rc == spec_rc:
                full()
                return "absorbed-complete"
            self.fail("error-reported", "%s: allocation request %s was refused but the call returned %d" % (cmd, ref[0][1], rc))
            full()
            return "refusal-not-reported"

        t = _tab(w[2]) if len(w) > 2 else None
        if cmd == "pnew" and t is not None:
            self.Pcb[t] = w[3] == "1"
            self.RP[t] = set()
            self.logok[("P", t)] = True
            outcome = "ok"
        elif cmd in ("padd", "prm") and t is not None:
            rec = _prec(w[3:])
            if rec is None or ("P", t) in self.between:
                return
            S = self.P[t]
            if cmd == "padd":
                outcome = judge(-2 if rec in S else 0, lambda: None, lambda: S.add(rec))
            else:
                outcome = judge(0 if rec in S else -3, lambda: None, lambda: S.discard(rec))
        elif cmd == "psrcrm" and t is not None:
            s = int(w[3])

            def full():
                self.P[t] = set(x for x in self.P[t] if x[5] != s)
            outcome = judge(0, lambda: None, full)
        elif cmd == "pval" and t is not None:
            if refused:
                if rc != -1:
                    self.fail("error-reported", "pval: request %s refused but the call returned %d" % (ref[0][1], rc))
                if "DANGLING" in res:
                    self.fail("error-reported", "pval: failed call leaves a reason pointer / length behind")
                outcome = "error-unchanged"
            else:
                v, q, n, asn = int(w[3]), int(w[4], 16), int(w[5]), int(w[6])
                if rc != 0 or len(rw) < 2:
                    self.fail("set", "pval returned %d without a refused allocation" % rc)
                else:
                    reasons = [pfxgen.parse_rec_str(x) for x in rw[2:]]
                    msg = pfxgen.check_validation(self.P[t], v, q, n, asn, rw[1], reasons)
                    if msg:
                        self.fail("set", "pval %d:%x/%d AS%d: %s" % (v, q, n, asn, msg))
                outcome = "ok"
        elif cmd == "pcopyx" and t is not None:
            b = _tab(w[3])
            s = int(w[4])
            filt = set(x for x in self.P[t] if x[5] != s)
            clash = bool(filt & self.P[b])
            if rc == 0 and not clash and (not refused or absorb):
                self.P[b] = self.P[b] | filt
                outcome = "ok" if not refused else "absorbed-complete"
            elif rc == -1 and (refused or clash):
                self.between[("P", b)] = (set(self.P[b]), self.P[b] | filt)
                outcome = "error-target-partial"
            else:
                self.fail("error-reported" if refused else "set", "pcopyx returned %d (refused=%s clash=%s)" % (rc, refused, clash))
                self.between[("P", b)] = (set(self.P[b]), self.P[b] | filt)
                outcome = "refusal-not-reported"
        elif cmd == "pfree" and t is not None:
            self.P[t] = set()
            self.between.pop(("P", t), None)
            self.logok[("P", t)] = False
            outcome = "ok"
        elif cmd == "knew" and t is not None:
            self.Kcb[t] = w[3] == "1"
            self.RK[t] = set()
            self.logok[("K", t)] = True
            if refused and rc != -1:
                self.fail("error-reported", "knew: the allocation of the first hash segment was refused but spki_table_init reported nothing")
                self.K[t] = set()
                outcome = "refusal-not-reported"
            elif rc == 0:
                self.K[t] = set()
                outcome = "ok"
            else:
                if not refused:
                    self.fail("set", "knew failed without a refused allocation")
                outcome = "error-unchanged"
        elif cmd in ("kadd", "krm") and t is not None and self.K[t] is not None:
            rec = _krec(w[3:])
            if rec is None or ("K", t) in self.between:
                return
            S = self.K[t]
            if cmd == "kadd":
                outcome = judge(-2 if rec in S else 0, lambda: None, lambda: S.add(rec))
            else:
                outcome = judge(0 if rec in S else -3, lambda: None, lambda: S.discard(rec))
        elif cmd == "ksrcrm" and t is not None and self.K[t] is not None:
            s = int(w[3])

            def fullk():
                self.K[t] = set(x for x in self.K[t] if x[3] != s)
            outcome = judge(0, lambda: None, fullk)
        elif cmd in ("kget", "kbyski") and t is not None and self.K[t] is not None:
            if refused:
                if rc != -1:
                    self.fail("error-reported", "%s: request %s refused but the call returned %d" % (cmd, ref[0][1], rc))
                outcome = "error-unchanged"
            else:
                if cmd == "kget":
                    a, ski = int(w[3]), int(w[4], 16)
                    exp = set(x for x in self.K[t] if x[0] == a and x[1] == ski)
                else:
                    ski = int(w[3], 16)
                    exp = set(x for x in self.K[t] if x[1] == ski)
                try:
                    n = int(rw[1])
                    recs = [spkigen.parse_rec_str(x) for x in rw[2:]]
                except (ValueError, IndexError):
                    n, recs = -1, []
                if rc != 0 or n != len(recs) or len(set(recs)) != len(recs) or set(recs) != exp:
                    self.fail("set", "%s answered %r, the stored keys with these fields are %d" % (cmd, res[:100], len(exp)))
                outcome = "ok"
        elif cmd == "kcopyx" and t is not None and self.K[t] is not None:
            b = _tab(w[3])
            s = int(w[4])
            if self.K[b] is None:
                return
            filt = set(x for x in self.K[t] if x[3] != s)
            clash = bool(filt & self.K[b])
            if rc == 0 and not clash and (not refused or absorb):
                self.K[b] = self.K[b] | filt
                outcome = "ok" if not refused else "absorbed-complete"
            elif rc == -1 and (refused or clash):
                self.between[("K", b)] = (set(self.K[b]), self.K[b] | filt)
                outcome = "error-target-partial"
            else:
                self.fail("error-reported" if refused else "set", "kcopyx returned %d (refused=%s clash=%s)" % (rc, refused, clash))
                self.between[("K", b)] = (set(self.K[b]), self.K[b] | filt)
                outcome = "refusal-not-reported"
        elif cmd in ("kfree", "kfreenn") and t is not None:
            self.K[t] = None
            self.between.pop(("K", t), None)
            self.logok[("K", t)] = False
            outcome = "ok"
        elif cmd == "sync":
            outcome = self.judge_sync(w, res, rc, refused, absorb, ref)
        if outcome is not None:
            if refused:
                self.dist["%s/%s@%d/%s" % (cmd, self.site_name(cmd, toks, ref[0][0]), min(ref[0][0], 9), outcome)] += 1
            else:
                self.dist["%s/-/%s" % (cmd, outcome)] += 1

    def judge_sync(self, w, res, rc, refused, absorb, ref):
        reset = w[2] == "1"
        items, sn = decode_items(w[3])
        kv = dict(x.split("=") for x in res.split()[1:])
        req, serial = int(kv["req"]), int(kv["serial"])
        if self.K[0] is None:
            return None
        P0, K0 = self.P[0], self.K[0]
        othersP = set(x for x in P0 if x[5] != ME)
        othersK = set(x for x in K0 if x[3] != ME)
        newP = set(othersP) if reset else set(P0)
        newK = set(othersK) if reset else set(K0)
        applicable = True
        for kind in ("p4", "p6", "k"):
            for (kd, add, rec) in items:
                if kd != kind or not applicable:
                    continue
                S = newK if kd == "k" else newP
                if add:
                    if rec in S:
                        applicable = False
                    else:
                        S.add(rec)
                else:
                    if rec not in S:
                        applicable = False
                    else:
                        S.discard(rec)
        # what the call may leave behind; decided at the next dump of P0 / K0
        self.sync_pending = {
            "rc": rc, "req": req, "before": (set(P0), set(K0)), "new": (newP, newK), "purged": (othersP, othersK),
            "req0": 1 if reset else 0,
        }
        if rc == 0:
            if not applicable:
                self.fail("sync", "rtr_sync succeeded on an answer with a duplicate announcement / unknown withdrawal")
            if refused and not absorb:
                self.fail("error-reported", "sync: request %s was refused but rtr_sync returned success" % ref[0][1])
            if req != 0 or serial != sn:
                self.fail("sync", "successful sync leaves request_session_id=%d serial=%d (End of Data says %s)" % (req, serial, sn))
            self.P[0], self.K[0] = set(newP), set(newK)
            self.sync_expect = [("new", newP, newK)]
            return "absorbed-complete" if refused else "ok"
        if not refused and applicable:
            self.fail("sync", "rtr_sync failed on a correct answer without a refused allocation")
        if serial != SERIAL0:
            self.fail("sync", "failed sync changed the serial number to %d" % serial)
        # tables as before (and the next query as before) or this socket's records purged (and a Reset Query next)
        self.sync_expect = [("purged", othersP, othersK)] if req == 1 and not reset else \
            [("before", set(P0), set(K0)), ("purged", othersP, othersK)] if req == 1 else [("before", set(P0), set(K0))]
        if req == 0 and reset:
            self.fail("sync", "failed reload cleared request_session_id")
        self.sync_wait = 2
        return "error"

    # ---- observers
    def observe(self, cmd, w, reply):
        t = _tab(w[1]) if len(w) > 1 else None
        if cmd == "live":
            m = re.match(r"live=(-?\d+) foreign=(\d+) alien=(\d+)", reply)
            if not m:
                return
            live, foreign, alien = int(m.group(1)), int(m.group(2)), int(m.group(3))
            nothing = all(not s for s in self.P) and all(k is None for k in self.K)
            if nothing and live != 0:
                self.fail("balanced", "every table is freed but %d blocks of the configured allocator are still allocated" % live)
            if foreign:
                self.fail("foreign-free", "%d blocks of the configured allocator were released through libc free" % foreign)
            if alien:
                self.fail("alien-free", "%d blocks that did not come from the configured allocator reached its free" % alien)
            # alloc_count: live blocks as a function of the tables
            if len(self.stats) == 2 * NT:
                exp = 0
                for k, v in self.stats.items():
                    exp += v
                if live != exp:
                    self.fail("alloc-count", "%d blocks are allocated, the tables account for %d (3 per trie node; entries + hash segments)" % (live, exp))
            return
        if t is None:
            return
        if cmd == "pstat":
            m = re.match(r"pstat nodes=(\d+) elems=(\d+) empty=(\d+)", reply)
            if m:
                if int(m.group(3)):
                    self.fail("invariant", "a trie node with an empty payload is linked in the table")
                self.stats[("P", t)] = 3 * int(m.group(1))
                if int(m.group(2)) != len(self.P[t]) and ("P", t) not in self.between and not getattr(self, "sync_expect", None):
                    self.fail("set", "table holds %s elements, the set %d" % (m.group(2), len(self.P[t])))
            return
        if cmd == "kstat":
            m = re.match(r"kstat entries=(\d+) count=(\d+) bit=(\d+)", reply)
            if m:
                self.stats[("K", t)] = int(m.group(1)) + int(m.group(3)) - 5
                if m.group(1) != m.group(2):
                    self.fail("invariant", "hash table count %s differs from the list length %s" % (m.group(2), m.group(1)))
            elif reply == "bad-op":
                self.stats[("K", t)] = 0
            return
        if cmd in ("pdump", "kdump"):
            key = ("P" if cmd == "pdump" else "K", t)
            toks = reply.split()[1:]
            try:
                recs = [pfxgen.parse_rec_str(x) if cmd == "pdump" else spkigen.parse_rec_str(x) for x in toks]
            except (ValueError, IndexError):
                self.fail("answer", "unreadable dump")
                return
            if len(set(recs)) != len(recs):
                self.fail("set", "enumeration yields a record twice")
            got = set(recs)
            S = self.P if cmd == "pdump" else self.K
            if S[t] is None:
                return
            exps = getattr(self, "sync_expect", None)
            if exps and t == 0:
                idx = 1 if cmd == "pdump" else 2
                if not any(got == e[idx] for e in exps):
                    self.fail("sync", "after rtr_sync returned %s the %s table is neither %s: missing %s extra %s" % (
                        "success" if exps[0][0] == "new" else "an error", "prefix" if cmd == "pdump" else "router-key",
                        " nor ".join("as " + e[0] if e[0] != "new" else "the announced state" for e in exps),
                        sorted(exps[0][idx] - got)[:3], sorted(got - exps[0][idx])[:3]))
                # which alternative was taken must agree between the two tables
                taken = [e[0] for e in exps if got == e[idx]]
                prev = getattr(self, "sync_taken", None)
                if prev is not None and taken and not (set(prev) & set(taken)):
                    self.fail("sync", "prefix table and router-key table took different alternatives (%s / %s)" % (prev, taken))
                self.sync_taken = taken
                S[t] = got
                self.sync_wait = getattr(self, "sync_wait", 2) - 1
                if cmd == "kdump":
                    self.sync_expect = None
                    self.sync_taken = None
                return
            if key in self.between:
                lo, hi = self.between.pop(key)
                if not (lo <= got <= hi):
                    self.fail("set", "after a failed copy the target is not between its old contents and the full copy")
                S[t] = got
                return
            if got != S[t]:
                self.fail("contained" if self.nrefused else "set",
                          "contents differ from the set: missing %s extra %s" % (sorted(S[t] - got)[:3], sorted(got - S[t])[:3]))
                S[t] = got
            return
        if cmd in ("plog", "klog"):
            key = ("P" if cmd == "plog" else "K", t)
            R = self.RP[t] if cmd == "plog" else self.RK[t]
            cb = self.Pcb[t] if cmd == "plog" else self.Kcb[t]
            S = self.P[t] if cmd == "plog" else self.K[t]
            toks = reply.split()[1:]
            if toks and not cb:
                self.fail("log", "table without callback produced callbacks")
            for tok in toks:
                try:
                    rec = pfxgen.parse_rec_str(tok[1:]) if cmd == "plog" else spkigen.parse_rec_str(tok[1:])
                except (ValueError, IndexError):
                    continue
                if tok[0] == "+":
                    R.add(rec)
                else:
                    R.discard(rec)
            if cb and S is not None and self.logok[key] and key not in self.between and not getattr(self, "sync_expect", None):
                if R != S:
                    self.fail("log", "callback stream does not mirror the table: only in stream %s, only in table %s" % (
                        sorted(R - S)[:3], sorted(S - R)[:3]))
                    R.clear()
                    R.update(S)


# ------------------------------------------------------------------------------------------
# adaptive generation
# ------------------------------------------------------------------------------------------

class Session:
    """one history: a harness process, the judge, the recorded ops and replies"""

    def __init__(self, exe, sz, hid, kind):
        self.h = Harness(exe)
        self.j = Judge(sz)
        self.hid = hid
        self.kind = kind
        self.ops = []
        self.out = []
        self.crashed = False
        self.send(setsizes_line(sz))

    def send(self, line):
        if self.crashed:
            return None
        rep = self.h.ask(line)
        self.ops.append(line)
        if rep is None:
            self.crashed = True
            return None
        self.out.append(rep)
        self.j.feed(line, rep)
        return rep

    def observe(self, ptabs=(0,), ktabs=(0,), full=False):
        for t in ptabs:
            self.send("pdump %d" % t)
            self.send("plog %d" % t)
        for t in ktabs:
            self.send("kdump %d" % t)
            self.send("klog %d" % t)
        if full:
            for t in range(NT):
                self.send("pstat %d" % t)
                self.send("kstat %d" % t)
            self.send("live")

    def sweep(self, tmpl, r, mode="sweep", after=None, before=None, maxk=60):
        """tmpl contains one '{F}'.  sweep: k = 0, 1, 2, ... until a run passes without refusal or takes
        effect; one: a single random k, then (if nothing happened) once without refusal; none: '-'.
        `before()` restores the preconditions before every try, `after()` observes after every try."""
        if mode == "none":
            if before:
                before()
            rep = self.send(tmpl.replace("{F}", "-"))
            if after:
                after()
            return rep
        ks = range(0, maxk) if mode == "sweep" else [r.randrange(0, 6)]
        rep = None
        for k in ks:
            if before:
                before()
            rep = self.send(tmpl.replace("{F}", str(k)))
            if rep is None:
                return None
            if after:
                after()
            sp = split_reply(rep)
            if sp is None:
                return rep
            res, toks, live = sp
            if not refused_tokens(toks):
                return rep                       # k is past the last request: the operation ran undisturbed
            try:
                rc = int(res.split()[0])
            except (ValueError, IndexError):
                return rep
            if rc != -1:
                return rep                       # the refusal was absorbed: the operation has taken effect
        if before:
            before()
        rep = self.send(tmpl.replace("{F}", "-"))
        if after:
            after()
        return rep

    def finish(self):
        """release everything; nothing may remain allocated"""
        for t in range(NT):
            self.send("pfree - %d" % t)
            if self.j.K[t] is not None:
                self.send("kfree - %d" % t)
        for t in range(NT):
            self.send("pstat %d" % t)
            self.send("kstat %d" % t)
        self.send("live")
        rc = self.h.close()
        if not self.crashed and rc not in (0, None):
            self.crashed = True
        return self


def mode_for(r, p_sweep):
    x = r.random()
    return "sweep" if x < p_sweep else ("one" if x < p_sweep + (1 - p_sweep) * 0.6 else "none")


def hist_pfx(exe, sz, r, hid, nops, p_sweep):
    s = Session(exe, sz, hid, "pfx")
    u = pfxgen.Universe(r)
    s.send("pnew - 0 %d" % r.choice([0, 1, 1]))
    stored = []
    obs = lambda: s.observe(ptabs=(0,), ktabs=(), full=r.random() < 0.3)
    for _ in range(nops):
        if s.crashed:
            break
        x = r.random()
        m = mode_for(r, p_sweep)
        if x < 0.45 or not stored:
            rec = u.rec(r)
            if stored and r.random() < 0.5:
                # same prefix, other payload: the array of an existing node grows
                o = r.choice(stored)
                rec = o[:3] + (r.choice([o[2], min(pfxgen.W(o[0]), o[2] + 1)]), r.choice(pfxgen.ASNS), r.choice(pfxgen.SRCS))
            s.sweep("padd {F} 0 " + pfxgen.fmt_rec_args(rec), r, m, after=obs)
            stored.append(rec)
        elif x < 0.5:
            s.sweep("padd {F} 0 " + pfxgen.fmt_rec_args(r.choice(stored)), r, m, after=obs)
        elif x < 0.68:
            s.sweep("prm {F} 0 " + pfxgen.fmt_rec_args(r.choice(stored)), r, m, after=obs)
        elif x < 0.72:
            s.sweep("prm {F} 0 " + pfxgen.fmt_rec_args(u.rec(r)), r, m, after=obs)
        elif x < 0.80:
            # a random k: refusals of the later shrinking reallocs are reached too
            src = r.choice(pfxgen.SRCS)
            k = r.choice(["-", 0, 1, 1, 2, 3, r.randrange(0, 8)])
            s.send("psrcrm %s 0 %d" % (k, src))
            obs()
        elif x < 0.92:
            q = u.query(r, stored)
            s.sweep("pval {F} 0 %d %s %d %d" % (q[0], pfxgen.hexaddr(q[0], q[1]), q[2], q[3]), r, m, after=None)
        else:
            # what a full reload does first: copy everything except one source into a fresh table
            src = r.choice(pfxgen.SRCS)
            s.sweep("pcopyx {F} 0 1 %d" % src, r, "sweep" if r.random() < 0.5 else "one",
                    after=lambda: (s.observe(ptabs=(0, 1), ktabs=(), full=True), s.send("pfree - 1")), maxk=40)
    s.observe(ptabs=(0,), ktabs=(), full=True)
    return s.finish()


def hist_spki(exe, sz, r, hid, nops, p_sweep, big=False):
    s = Session(exe, sz, hid, "spki-big" if big else "spki")
    u = spkigen.Universe(r, small=not big)
    s.sweep("knew {F} 0 %d" % r.choice([0, 1, 1]), r, "sweep")
    stored = []
    sset = set()
    obs = lambda: s.observe(ptabs=(), ktabs=(0,), full=r.random() < 0.3)

    def add(rec, m):
        s.sweep("kadd {F} 0 " + spkigen.rec_args(rec), r, m, after=obs if not big or r.random() < 0.2 else None)
        if rec not in sset:
            sset.add(rec)
            stored.append(rec)

    def rm(rec, m):
        s.sweep("krm {F} 0 " + spkigen.rec_args(rec), r, m, after=obs if not big or r.random() < 0.2 else None)
        if rec in sset:
            sset.discard(rec)
            stored.remove(rec)

    if big:
        # drive the table across the resize thresholds of tommy_hashlin (grow at > max/2, shrink at < max/8)
        targets = [r.choice([34, 40, 66, 70]), r.choice([3, 5, 12]), r.choice([33, 36]), 0]
        serial = 0
        for tgt in targets:
            guard = 0
            while len(stored) != tgt and guard < 400 and not s.crashed:
                guard += 1
                near = len(stored) in (31, 32, 33, 63, 64, 65)
                m = "sweep" if near or r.random() < p_sweep * 0.3 else "none"
                if len(stored) < tgt:
                    serial += 1
                    add((r.choice(u.asns), r.choice(u.skis), serial, r.choice(u.srcs)), m)
                else:
                    rm(r.choice(stored), m)
            s.observe(ptabs=(), ktabs=(0,), full=True)
            if tgt and r.random() < 0.5:
                src = r.choice(spkigen.SRCS)
                s.sweep("kcopyx {F} 0 1 %d" % src, r, "one", before=lambda: s.send("knew - 1 0"),
                        after=lambda: (s.observe(ptabs=(), ktabs=(0, 1), full=True), s.send("kfree - 1")))
        return s.finish()
    for _ in range(nops):
        if s.crashed:
            break
        x = r.random()
        m = mode_for(r, p_sweep)
        if x < 0.45 or not stored:
            add(u.rec(r), m)
        elif x < 0.5:
            add(r.choice(stored), m)
        elif x < 0.65:
            rm(r.choice(stored), m)
        elif x < 0.7:
            rm(u.rec(r), m)
        elif x < 0.75:
            src = r.choice(spkigen.SRCS)
            s.send("ksrcrm - 0 %d" % src)
            stored = [x for x in stored if x[3] != src]
            sset = set(stored)
            obs()
        elif x < 0.9:
            if stored and r.random() < 0.8:
                a, ski = r.choice(stored)[:2]
            else:
                a, ski = r.choice(u.asns), r.choice(u.skis)
            if r.random() < 0.5:
                s.sweep("kget {F} 0 %d %x" % (a, ski), r, m)
            else:
                s.sweep("kbyski {F} 0 %x" % ski, r, m)
        else:
            src = r.choice(spkigen.SRCS)
            s.sweep("kcopyx {F} 0 1 %d" % src, r, "sweep" if r.random() < 0.5 else "one",
                    before=lambda: s.send("knew - 1 0"),
                    after=lambda: (s.observe(ptabs=(), ktabs=(0, 1), full=True), s.send("kfree - 1")), maxk=40)
    s.observe(ptabs=(), ktabs=(0,), full=True)
    return s.finish()


def pdu_of(item):
    kind, add, rec = item
    if kind == "p4":
        return rtrpdu.ipv4(1, 1 if add else 0, rec[2], rec[3], rec[1], rec[4])
    if kind == "p6":
        return rtrpdu.ipv6(1, 1 if add else 0, rec[2], rec[3], rec[1], rec[4])
    return rtrpdu.router_key(1, 1 if add else 0, rec[1].to_bytes(20, "big"), rec[0], rec[2].to_bytes(91, "big"))


def hist_sync(exe, sz, r, hid, maxk):
    """one scenario = tables with records of this socket and of two others, one answer of the cache;
    the real rtr_sync is run on it once per allocation request (k = 0, 1, ...), every time from the
    same tables"""
    s = Session(exe, sz, hid, "sync")
    pu = pfxgen.Universe(r)
    ku = spkigen.Universe(r, small=True)
    reset = r.random() < 0.55
    pcb, kcb = r.choice([0, 1]), r.choice([0, 1])
    pre_p = []
    for _ in range(r.randrange(0, 9)):
        rec = pu.rec(r)
        rec = rec[:5] + (r.choice([ME, ME, 1, 2]),)
        if rec not in pre_p:
            pre_p.append(rec)
    pre_k = []
    for _ in range(r.randrange(0, 6)):
        rec = ku.rec(r)
        rec = rec[:3] + (r.choice([ME, ME, 1, 2]),)
        if rec not in pre_k:
            pre_k.append(rec)
    # the answer
    items = []
    ownP = [x for x in pre_p if x[5] == ME]
    ownK = [x for x in pre_k if x[3] == ME]
    curP = set() if reset else set(ownP)
    curK = set() if reset else set(ownK)
    n = r.randrange(0, 9)
    bad_at = r.randrange(0, n + 1) if r.random() < 0.45 else None
    for i in range(n):
        x = r.random()
        wrong = bad_at == i
        if x < 0.7:
            if (r.random() < 0.3 or wrong) and curP and not (wrong and r.random() < 0.5):
                rec = r.choice(sorted(curP))
                if wrong:
                    items.append(("p4" if rec[0] == 4 else "p6", True, rec))      # duplicate announcement
                else:
                    curP.discard(rec)
                    items.append(("p4" if rec[0] == 4 else "p6", False, rec))
            else:
                rec = pu.rec(r)[:5] + (ME,)
                if wrong or rec in curP:
                    if rec in curP:
                        items.append(("p4" if rec[0] == 4 else "p6", True, rec))
                    else:
                        items.append(("p4" if rec[0] == 4 else "p6", False, rec))  # unknown withdrawal
                else:
                    curP.add(rec)
                    items.append(("p4" if rec[0] == 4 else "p6", True, rec))
        else:
            if (r.random() < 0.3) and curK:
                rec = r.choice(sorted(curK))
                curK.discard(rec)
                items.append(("k", False, rec))
            else:
                rec = ku.rec(r)[:3] + (ME,)
                if rec in curK:
                    items.append(("k", True, rec))
                else:
                    curK.add(rec)
                    items.append(("k", not wrong, rec))
    stream = rtrpdu.cache_response(1, SESSION) + b"".join(pdu_of(it) for it in items) + rtrpdu.eod(1, SESSION, 40 + hid % 50)
    line = "sync {F} %d %s" % (1 if reset else 0, stream.hex())

    def setup():
        s.send("pfree - 0")
        if s.j.K[0] is not None:
            s.send("kfree - 0")
        s.send("pnew - 0 %d" % pcb)
        s.send("knew - 0 %d" % kcb)
        for rec in pre_p:
            s.send("padd - 0 " + pfxgen.fmt_rec_args(rec))
        for rec in pre_k:
            s.send("kadd - 0 " + spkigen.rec_args(rec))
        s.send("plog 0")
        s.send("klog 0")

    def look():
        s.send("pdump 0")
        s.send("kdump 0")
        for t in range(NT):
            s.send("pstat %d" % t)
            s.send("kstat %d" % t)
        s.send("live")

    if r.random() < 0.7:
        s.sweep(line, r, "sweep", before=setup, after=look, maxk=maxk)
    else:
        for _ in range(3):
            setup()
            s.send(line.replace("{F}", str(r.randrange(0, 40))))
            look()
    return s.finish()


# ------------------------------------------------------------------------------------------
# replay of a recorded op file (corpus, minimisation, model side)
# ------------------------------------------------------------------------------------------

def replay(exe, sz, ops):
    """run the op lines on a fresh harness; returns (replies, crashed, stderr, judge)"""
    h = Harness(exe)
    j = Judge(sz)
    out = []
    crashed = False
    for op in ops:
        rep = h.ask(op)
        if rep is None:
            crashed = True
            break
        out.append(rep)
        j.feed(op, rep)
    rc = h.close()
    if not crashed and rc not in (0, None):
        crashed = True
    return out, crashed, h.stderr_text(), j


def crash_signature(err):
    m = re.search(r"Assertion `([^']*)' failed", err)
    if m:
        return "assert:" + m.group(1)
    m = re.search(r"runtime error: ([^\n]*)", err)
    if m:
        return "ubsan:" + re.sub(r"0x[0-9a-f]+|\d+", "N", m.group(1))[:80]
    m = re.search(r"ERROR: AddressSanitizer: ([a-zA-Z-]+)", err)
    if m:
        return "asan:" + m.group(1)
    return "crash"


def load_corpus():
    cdir = os.path.join(vlib.VERIF, "corpus", "alloc")
    res = []
    if os.path.isdir(cdir):
        for f in sorted(os.listdir(cdir)):
            if f.endswith(".ops"):
                ops = [l.strip() for l in open(os.path.join(cdir, f)) if l.strip() and not l.startswith("#")]
                res.append((f, ops))
    return res


def run(pid, tier):
    rep = vlib.Report(pid, tier)
    if os.environ.get("ALLOC_NOPROVE"):               # development aid: correspondence and oracle only
        proved = True
    else:
        proved = vlib.prove(rep, MODULES, THEOREMS, extra_targets=["allocdriver"])
    drv = vlib.driver_path("allocdriver")
    exe, blog = build_harness()
    if exe is None:
        rep.build_log = blog
        vlib.proof_failure(rep, "harness build against the repository failed (correspondence alloc)")
        return rep.finish()
    sz = get_sizes(exe)
    if sz is None:
        rep.build_log = "harness did not report its block sizes"
        vlib.proof_failure(rep, "harness start-up failed (correspondence alloc)")
        return rep.finish()

    r = vlib.rng(pid)
    quick = tier == "quick"
    sessions = []            # finished Session-like records: (hid, kind, ops, out, crashed, stderr, fails, dist)

    def record(hid, kind, ops, out, crashed, err, judge):
        sessions.append({"hid": hid, "kind": kind, "ops": ops, "out": out, "crashed": crashed, "err": err,
                         "fails": list(judge.fails), "dist": judge.dist})

    # corpus first
    corpus = load_corpus()
    for name, ops in corpus:
        ops = [setsizes_line(sz)] + [o for o in ops if not o.startswith("setsizes")]
        out, crashed, err, j = replay(exe, sz, ops)
        record("corpus:" + name, "corpus", ops, out, crashed, err, j)

    plan = []
    mult = 1 if quick else 20
    plan += [("pfx", 250 * mult), ("spki", 200 * mult), ("spki-big", 30 * mult), ("sync", 350 * mult)]
    hid = 0
    nbad = collections.Counter()
    for kind, count in plan:
        for _ in range(count):
            hid += 1
            if nbad[kind] >= 12:
                break                      # this kind of history keeps failing: enough material
            if kind == "pfx":
                s = hist_pfx(exe, sz, r, hid, r.randrange(8, 40), 0.6)
            elif kind == "spki":
                s = hist_spki(exe, sz, r, hid, r.randrange(8, 40), 0.6)
            elif kind == "spki-big":
                s = hist_spki(exe, sz, r, hid, 0, 0.6, big=True)
            else:
                s = hist_sync(exe, sz, r, hid, 90)
            record(hid, kind, s.ops, s.out, s.crashed, s.h.stderr_text() if s.crashed else "", s.j)
            if s.crashed or s.j.fails:
                nbad[kind] += 1

    # ---- model side: replay every recorded op file on the driver, compare
    divergences = []
    nlines = 0
    good = 0
    B = 1          # one driver process per history: both sides start from the initial state
    todo = [x for x in sessions if not x["crashed"]]
    for b0 in range(0, len(todo), B):
        batch = todo[b0:b0 + B]
        ops = [l for x in batch for l in x["ops"]]
        model, mrc, merr = vlib.run_lines(drv, ops, timeout=600)
        if mrc != 0 or len(model) != len(ops):
            rep.build_log = "model driver failed: rc=%s lines %d/%d %s" % (mrc, len(model), len(ops), merr[-500:])
            vlib.proof_failure(rep, "model driver (allocdriver) crashed")
            return rep.finish()
        pos = 0
        for x in batch:
            n = len(x["ops"])
            mo = model[pos:pos + n]
            pos += n
            nlines += n
            io = [canon(l) for l in x["out"]]
            mo = [canon(l) for l in mo]
            d = vlib.first_divergence(io, mo)
            if d is not None:
                divergences.append((x, d, x["out"][d] if d < len(x["out"]) else "<eof>", mo[d] if d < len(mo) else "<eof>"))
            else:
                good += 1

    # ---- evidence
    dist = collections.Counter()
    for x in sessions:
        dist.update(x["dist"])
    kinds = collections.Counter(x["kind"] for x in sessions)
    refused_runs = sum(v for k, v in dist.items() if "/-/" not in k)
    sites = collections.Counter()
    for k, v in dist.items():
        op, site, outc = k.split("/")
        if site != "-":
            sites["%s %s -> %s" % (op, site.split("@")[0], outc)] += v
    distinct = len([k for k in dist if "/-/" not in k])
    rep.cov.update({
        "evaluations": nlines,
        "distinct_nontrivial": distinct,
        "rule": "adaptive histories against the implementation: every operation is repeated with the k-th allocation "
                "request refused for k = 0, 1, 2, ... until it runs undisturbed (tables: prefix universes of pfxgen, "
                "router keys colliding under tommy_inthash_u32, table sizes driven across the hash-table resize "
                "thresholds; synchronisations: real rtr_sync on scripted answers incl. duplicate announcements / "
                "unknown withdrawals, incremental and full reload, with and without update callbacks); distinct = "
                "distinct (operation, refused allocation site, position, outcome) classes observed on the implementation",
        "traces_validated_against_impl": good,
        "distribution": {"histories": dict(kinds), "operations_run_with_a_refused_request": refused_runs,
                         "op_site_outcome": dict(sorted(sites.items())),
                         "undisturbed": {k: v for k, v in sorted(dist.items()) if "/-/" in k}},
    })
    for x in sessions[len(corpus):len(corpus) + 2]:
        rep.sample({"history": x["hid"], "kind": x["kind"], "ops": x["ops"][1:10]})
    rep.assumptions = ["the allocator is an oracle that may refuse any single request (one refusal per operation)",
                       "pthread rwlocks are not exercised here (single thread)",
                       "sizes of released blocks are not compared (they depend on absorbed shrink refusals)"]

    # coverage gate: classes that must have been reached on a tree where the property holds
    bad_sessions = [x for x in sessions if x["crashed"] or x["fails"]]
    if not bad_sessions and not divergences:
        need = ["padd malloc-node", "padd malloc-ndata", "padd realloc-first", "padd realloc-grow", "prm realloc-shrink",
                "psrcrm realloc-shrink", "pval realloc-first", "pval realloc-grow", "pcopyx malloc-node",
                "knew malloc-segment", "kadd malloc-entry", "kadd malloc-segment", "kget realloc-first", "kget realloc-grow",
                "kbyski realloc-grow", "kcopyx malloc-entry", "sync malloc-ptab", "sync malloc-ktab", "sync malloc-segment",
                "sync realloc-first", "sync malloc-node", "sync malloc-entry"]
        missing = [n for n in need if not any(k.startswith(n + " ") for k in sites)]
        rep.cov["coverage_gate_missing"] = missing
        if missing:
            rep.build_log = "generator did not reach: %s" % missing
            vlib.proof_failure(rep, "coverage gate of the C18 generator (allocation sites never refused)")

    # ---- verdicts: one replay per distinct failure class (crash signature / violated clause), corpus first
    seen_sig = set()
    shown = 0
    for x in bad_sessions:
        if shown >= 8:
            break
        if x["crashed"]:
            sig0 = "crash:" + crash_signature(x["err"])
        else:
            sig0 = x["fails"][0][0] + ":" + x["kind"]
        if sig0 in seen_sig and not str(x["hid"]).startswith("corpus:"):
            continue
        seen_sig.add(sig0)
        if x["crashed"]:
            ops = minimise(exe, sz, x["ops"], lambda o, c, e, j: c)
            out, crashed, err, j = replay(exe, sz, ops)
            sig = crash_signature(err)
            rep.violation("crash_%s" % shown, "# C18 / no crash: the implementation aborted (%s) when an allocation request was refused\n"
                          "# history %s (%s); replies before the abort: %d\n%s\n--- stderr ---\n%s\n" % (
                              sig, x["hid"], x["kind"], len(out), "\n".join(ops), err[-3000:]),
                          signature="C18/" + sig)
            shown += 1
        else:
            clause, idx, msg = x["fails"][0]
            ops = minimise(exe, sz, x["ops"], lambda o, c, e, j: (not c) and any(f[0] == clause for f in j.fails))
            out, crashed, err, j = replay(exe, sz, ops)
            f = [f for f in j.fails if f[0] == clause]
            at = f[0][1] if f else 0
            rep.violation("oracle_%s" % shown, "# C18 / %s fails on the implementation: %s\n# history %s (%s); failing line %d: %s\n"
                          "# observed: %s\n%s\n" % (clause, f[0][2] if f else msg, x["hid"], x["kind"], at,
                                                    ops[at] if at < len(ops) else "", out[at] if at < len(out) else "",
                                                    "\n".join(ops)), signature="C18/" + clause)
            shown += 1
    if divergences and not bad_sessions:
        x, d, a, b = divergences[0]
        rep.build_log = "history %s (%s) line %d: %s\n impl : %s\n model: %s\nops:\n%s" % (
            x["hid"], x["kind"], d, x["ops"][d] if d < len(x["ops"]) else "", a, b, "\n".join(x["ops"][:d + 1][-60:]))
        vlib.proof_failure(rep, "correspondence alloc (model RtrModel.Alloc vs trie-pfx.c / ht-spkitable.c / tommyhashlin.c / packets.c) diverges")
    if not proved and not bad_sessions and not divergences:
        vlib.proof_failure(rep, "\n".join(t for t, ok in rep.obligations.items() if not ok))
    return rep.finish()


def minimise(exe, sz, ops, pred):
    head = ops[0]

    def fails(idx):
        sub = [head] + [ops[i] for i in idx]
        out, crashed, err, j = replay(exe, sz, sub)
        return pred(out, crashed, err, j)
    idx = vlib.ddmin(list(range(1, len(ops))), fails, max_tests=120)
    return [head] + [ops[i] for i in idx]



def replay_file(path):
    return vlib.generic_replay(path, build_harness, "allocdriver")

if __name__ == "__main__":
    pid = sys.argv[1] if len(sys.argv) > 1 else "C18"
    tier = sys.argv[2] if len(sys.argv) > 2 else "quick"
    sys.exit(run(pid, tier))
