"""Check C18: allocation failure is contained; the configured allocator is used consistently.

 * proofs: RtrProps.C18 (model RtrModel.Alloc = the table models extended by an allocator oracle)
 * tie: harness/alloc_harness.c runs the real table functions and the real rtr_sync under an injected
   allocator (registry of live blocks, k-th request refused, libc free wrapped); every reply carries the
   return code, the allocator trace of the operation and the number of live blocks, and is compared
   with the reply of the model driver (allocdriver) on the same line.
 * the histories are generated ADAPTIVELY against the implementation: an operation is repeated with
   k = 0, 1, 2, ... until a run passes without refusal, so every allocation site that the operation
   reaches in that state is refused once; the recorded op file is then replayed on the model.
 * oracle: the statement of C18 in plain Python over sets (class Judge).
 * long answers: the capacity of the temporary PDU stores of rtr_sync is MEASURED on the tree under test
   (first request of a one-PDU answer); answers with capacity+1 ... 2*capacity+1 PDUs of one kind (and with
   L+1 PDUs for the integer literals L of the sources, vlib.source_literals) are run with the refused request
   concentrated on the requests that grow an existing block (found by an undisturbed counting run).
 * block accounting: the injected allocator keeps a table of live and of returned blocks; a block returned
   twice (trace token D) or a block it never handed out (A) is reported, not handed to the real free().
 * two threads: `pair` lines run two table operations in two threads under a deterministic schedule driven
   from the allocator hook (harness/alloc_harness.c, sched_hook); the oracle accepts the return codes and
   contents of either serial order and checks the accounting (failure-free runs are part of C18).
"""
import collections
import os
import time
import re
import subprocess
import sys
import tempfile

sys.path.insert(0, os.path.dirname(os.path.abspath(__file__)))
import vlib
import pfxgen
import spkigen
import rtrpdu

THEOREMS = [
    "Rtr.C18.failure_free_coincides", "Rtr.C18.preqs_counts", "Rtr.C18.fail_contained", "Rtr.C18.fail_contained_pfx",
    "Rtr.C18.copy_success_complete",
    "Rtr.C18.fail_contained_queries", "Rtr.C18.fail_contained_spki", "Rtr.C18.hashlin_grow_optional",
    "Rtr.C18.fail_keeps_invariant", "Rtr.C18.alloc_count", "Rtr.C18.balanced", "Rtr.C18.configured_free_only",
    "Rtr.C18.sync_fail_clean", "Rtr.C18.sync_no_leak",
    "Rtr.C18.store_released_exactly_once", "Rtr.C18.sync_store_fail_exact",
    "Rtr.C18.F15_unfixed_violates", "Rtr.C18.F16a_unfixed_crashes", "Rtr.C18.F16c_unfixed_violates",
    "Rtr.C18.F16d_unfixed_leaks",
]
MODULES = ["RtrProps.C18"]
HARNESS_EXCLUDE = ["rtrlib/spki/hashtable/ht-spkitable.c"]
NT = 4
CAPS = {}                  # capacity step of the temporary PDU stores, measured on the tree under test (probe_caps)
ME = 0                     # the synchronising socket
SESSION, SERIAL0 = 7, 5    # what the harness puts into socket 0 before every sync


def build_harness():
    return vlib.build_harness("alloc", ["alloc_harness.c"], exclude=HARNESS_EXCLUDE,
                              flags=vlib.SAN_FLAGS_NOALIGN, link=["-Wl,--wrap=free"])


# ------------------------------------------------------------------------------------------
# talking to the implementation
# ------------------------------------------------------------------------------------------

class Harness:
    """the C harness as an interactive process: one line in, one line out"""

    def __init__(self, exe):
        self.err = tempfile.TemporaryFile(mode="w+")
        e = dict(os.environ)
        e.update(vlib.SAN_ENV)
        self.p = subprocess.Popen([exe], stdin=subprocess.PIPE, stdout=subprocess.PIPE, stderr=self.err, text=True,
                                  env=e, bufsize=1)
        self.dead = False

    def ask(self, line):
        if self.dead:
            return None
        try:
            self.p.stdin.write(line + "\n")
            self.p.stdin.flush()
            out = self.p.stdout.readline()
        except (BrokenPipeError, OSError):
            out = ""
        if not out:
            self.dead = True
            return None
        return out.rstrip("\n")

    def stderr_text(self):
        self.err.seek(0)
        t = self.err.read()
        # debug output of the library is not interesting, sanitizer reports are
        keep = [l for l in t.splitlines() if not re.match(r"^\(\d{4}/\d\d/\d\d ", l)]
        return "\n".join(keep)[-4000:]

    def close(self):
        try:
            self.p.stdin.close()
        except OSError:
            pass
        try:
            self.p.wait(timeout=20)
        except subprocess.TimeoutExpired:
            self.p.kill()
        rc = self.p.returncode
        return rc


def get_sizes(exe):
    out, rc, err = vlib.run_lines(exe, ["sizes"])
    if rc != 0 or not out or not out[0].startswith("sizes "):
        return None
    return dict((k, int(v)) for k, v in (w.split("=") for w in out[0].split()[1:]))


def setsizes_line(sz):
    return "setsizes " + " ".join("%s=%d" % kv for kv in sz.items())


# ------------------------------------------------------------------------------------------
# reply parsing, canonicalisation
# ------------------------------------------------------------------------------------------

def split_reply(reply):
    """'res ; trace ; live=n' -> (res, [tokens], live) or None"""
    parts = reply.split(" ; ")
    if len(parts) != 3 or not parts[2].startswith("live="):
        return None
    try:
        live = int(parts[2][5:])
    except ValueError:
        return None
    return parts[0].strip(), parts[1].split(), live


_RT = re.compile(r"^R(\d+)>(\d+)(!?)$")


def canon(reply):
    """sizes of released blocks and the old size of a realloc depend on whether an earlier SHRINKING
    realloc was refused (the block then stays larger than the model's element count says): compare
    only 'released' and 'old block was NULL / not NULL'"""
    sp = split_reply(reply)
    if sp is None:
        return reply
    res, toks, live = sp
    if " sched=" in res:
        # two threads: the interleaving of the two allocator traces and the schedule class are not part of the
        # correspondence; return codes and the number of live blocks are
        return "%s ; ; live=%d" % (res.split(" sched=")[0], live)
    out = []
    for t in toks:
        m = _RT.match(t)
        if m:
            out.append("R%s>%s%s" % ("0" if m.group(1) == "0" else "+", m.group(2), m.group(3)))
        elif t[0] == "F":
            out.append("F")
        else:
            out.append(t)
    return "%s ; %s ; live=%d" % (res, " ".join(out), live)


def refused_tokens(toks):
    return [(i, t) for i, t in enumerate(toks) if t.endswith("!")]


# ------------------------------------------------------------------------------------------
# the oracle: C18 over plain sets
# ------------------------------------------------------------------------------------------

def _tab(s):
    return int(s) if s.isdigit() and len(s) < 3 and int(s) < NT else None


def _prec(w):
    try:
        return (int(w[0]), int(w[1], 16), int(w[2]), int(w[3]), int(w[4]), int(w[5]))
    except (ValueError, IndexError):
        return None


def _krec(w):
    try:
        return (int(w[0]), int(w[1], 16), int(w[2], 16), int(w[3]))
    except (ValueError, IndexError):
        return None


_DECODED = {}


def decode_items(hexstream):
    """the payload PDUs of a well-formed answer: ('p', add, rec) / ('k', add, rec), and the serial of EOD"""
    hit = _DECODED.get(hexstream)
    if hit is None:
        if len(_DECODED) > 64:
            _DECODED.clear()
        hit = _DECODED[hexstream] = _decode_items(hexstream)
    return hit


def _decode_items(hexstream):
    pdus, left = rtrpdu.decode_stream(bytes.fromhex(hexstream))
    items = []
    sn = None
    for p in pdus:
        raw = p["raw"]
        if p["type"] == rtrpdu.IPV4_PREFIX:
            items.append(("p4", raw[8] == 1, (4, int.from_bytes(raw[12:16], "big"), raw[9], raw[10],
                                              int.from_bytes(raw[16:20], "big"), ME)))
        elif p["type"] == rtrpdu.IPV6_PREFIX:
            items.append(("p6", raw[8] == 1, (6, int.from_bytes(raw[12:28], "big"), raw[9], raw[10],
                                              int.from_bytes(raw[28:32], "big"), ME)))
        elif p["type"] == rtrpdu.ROUTER_KEY:
            items.append(("k", raw[2] == 1, (int.from_bytes(raw[28:32], "big"), int.from_bytes(raw[8:28], "big"),
                                            int.from_bytes(raw[32:123], "big"), ME)))
        elif p["type"] == rtrpdu.EOD:
            sn = int.from_bytes(raw[8:12], "big")
    return items, sn


class Judge:
    """consumes (op line, implementation reply) pairs of one history in order and evaluates the
    statement of C18; self.fails = [(clause, index, message)]"""

    def __init__(self, sz, caps=None):
        self.sz = sz
        self.caps = caps if caps is not None else CAPS     # measured capacity of the PDU stores (elements)
        self.pair_order = {}         # index of a pair line -> "AB" | "BA": the serial order the outcome agrees with
        self.pairs = collections.Counter()      # class of the pair / schedule -> runs
        self.first_empty = {4: {"refused": set(), "nreq": 0}, 6: {"refused": set(), "nreq": 0}}
        self.P = [set() for _ in range(NT)]
        self.Pcb = [True] * NT
        self.K = [None] * NT
        self.Kcb = [True] * NT
        self.between = {}            # ('P'|'K', t) -> (lo, hi): target of a failed copy until dumped
        self.RP = [set() for _ in range(NT)]       # replay of callback streams
        self.RK = [set() for _ in range(NT)]
        self.logok = {("P", t): True for t in range(NT)}
        self.logok.update({("K", t): True for t in range(NT)})
        self.fails = []
        self.i = -1
        self.dist = collections.Counter()
        self.stats = {}              # latest pstat / kstat per table
        self.last_live = None
        self.nrefused = 0

    def fail(self, clause, msg):
        self.fails.append((clause, self.i, msg))

    # ---- classification of a refused request
    def absorbable(self, op, toks, idx):
        t = toks[idx]
        m = _RT.match(t)
        if m:
            return int(m.group(1)) > 0 and int(m.group(2)) < int(m.group(1))      # a shrinking realloc
        if t[0] == "M" and op in ("kadd", "kcopyx", "sync"):
            n = int(t[1:-1])
            seg = n >= 64 * self.sz["ptr"] and n % self.sz["ptr"] == 0 and (n // self.sz["ptr"]) & ((n // self.sz["ptr"]) - 1) == 0
            after_ktab = idx > 0 and toks[idx - 1] == "M%d" % self.sz["ktab"]
            return seg and not after_ktab                                         # a new hash segment (growing)
        return False

    def site_name(self, op, toks, idx):
        t = toks[idx]
        m = _RT.match(t)
        z = self.sz
        if m:
            o, n = int(m.group(1)), int(m.group(2))
            if op == "sync":
                for name in ("pdu4", "pdu6", "pduk"):
                    step = (self.caps.get(name) or 0) * z[name]
                    if step and n - o == step and o % step == 0:
                        return "store-%s-%s" % ("first" if o == 0 else "grow", name)
            kind = "shrink" if n < o else ("first" if o == 0 else "grow")
            return "realloc-" + kind
        n = int(t[1:-1])
        for name in ("node", "ndata", "entry", "ptab", "ktab"):
            if n == z[name]:
                return "malloc-" + name
        if n % z["ptr"] == 0 and n >= 64 * z["ptr"]:
            return "malloc-segment"
        return "malloc-%d" % n

    # ---- one pair
    def feed(self, op, reply):
        self.i += 1
        w = op.split()
        if not w:
            return
        cmd = w[0]
        if cmd == "kstat" and reply == "bad-op" and len(w) == 2 and _tab(w[1]) is not None:
            self.stats[("K", _tab(w[1]))] = 0          # no router-key table in this slot
            return
        if reply == "bad-op" or reply == "ok":
            return
        if cmd in ("pdump", "kdump", "plog", "klog", "pstat", "kstat", "live"):
            return self.observe(cmd, w, reply)
        self.stats = {}                                 # block accounting must be re-read after a mutation
        sp = split_reply(reply)
        if sp is None:
            self.fail("answer", "operation did not answer in the protocol: %r" % reply[:120])
            return
        res, toks, live = sp
        self.last_live = live
        for t in toks:
            if t[0] == "X":
                self.fail("foreign-free", "%s: a block of the configured allocator was released through libc free (%s)" % (cmd, t))
            if t[0] == "D":
                self.fail("double-free", "%s: block returned twice: a block of %s bytes that the configured allocator had already "
                          "taken back reached its free/realloc again" % (cmd, t[1:]))
            if t[0] == "A":
                self.fail("alien-free", "%s: foreign block: a block that did not come from the configured allocator reached its free/realloc" % cmd)
        ref = refused_tokens(toks)
        refused = bool(ref)
        absorb = refused and self.absorbable(cmd, toks, ref[0][0])
        if refused:
            self.nrefused += 1
        rw = res.split()
        try:
            rc = int(rw[0])
        except (ValueError, IndexError):
            self.fail("answer", "no return code in %r" % res[:80])
            return
        outcome = None

        def judge(spec_rc, unchanged, full, err=-1):
            """unchanged / full: callables applying 'nothing' / the complete effect to the spec;
            returns the outcome class"""
            if not refused:
                if rc != spec_rc:
                    self.fail("set", "%s returned %d, set semantics says %d (no allocation was refused)" % (cmd, rc, spec_rc))
                full()
                return "ok" if spec_rc == 0 else "rc%d" % spec_rc
            if rc == err:
                unchanged()
                return "error-unchanged"
            if absorb and rc == spec_rc:
                full()
                return "absorbed-complete"
            self.fail("error-reported", "%s: allocation request %s was refused but the call returned %d" % (cmd, ref[0][1], rc))
            full()
            return "refusal-not-reported"

        t = _tab(w[2]) if len(w) > 2 else None
        if cmd == "pnew" and t is not None:
            self.Pcb[t] = w[3] == "1"
            self.RP[t] = set()
            self.logok[("P", t)] = True
            outcome = "ok"
        elif cmd in ("padd", "prm") and t is not None:
            rec = _prec(w[3:])
            if rec is None or ("P", t) in self.between:
                return
            S = self.P[t]
            if cmd == "padd":
                empty_family = not any(x[0] == rec[0] for x in S)
                outcome = judge(-2 if rec in S else 0, lambda: None, lambda: S.add(rec))
                if empty_family and rec[0] in self.first_empty:
                    fe = self.first_empty[rec[0]]
                    if refused:
                        fe["refused"].add(sum(1 for x in toks[:ref[0][0]] if x[0] in "MR"))
                    else:
                        fe["nreq"] = max(fe["nreq"], sum(1 for x in toks if x[0] in "MR"))
            else:
                outcome = judge(0 if rec in S else -3, lambda: None, lambda: S.discard(rec))
        elif cmd == "psrcrm" and t is not None:
            s = int(w[3])

            def full():
                self.P[t] = set(x for x in self.P[t] if x[5] != s)
            outcome = judge(0, lambda: None, full)
        elif cmd == "pval" and t is not None:
            if refused:
                if rc != -1:
                    self.fail("error-reported", "pval: request %s refused but the call returned %d" % (ref[0][1], rc))
                if "DANGLING" in res:
                    self.fail("error-reported", "pval: failed call leaves a reason pointer / length behind")
                outcome = "error-unchanged"
            else:
                v, q, n, asn = int(w[3]), int(w[4], 16), int(w[5]), int(w[6])
                if rc != 0 or len(rw) < 2:
                    self.fail("set", "pval returned %d without a refused allocation" % rc)
                else:
                    reasons = [pfxgen.parse_rec_str(x) for x in rw[2:]]
                    msg = pfxgen.check_validation(self.P[t], v, q, n, asn, rw[1], reasons)
                    if msg:
                        self.fail("set", "pval %d:%x/%d AS%d: %s" % (v, q, n, asn, msg))
                outcome = "ok"
        elif cmd == "pcopyx" and t is not None:
            b = _tab(w[3])
            s = int(w[4])
            filt = set(x for x in self.P[t] if x[5] != s)
            clash = bool(filt & self.P[b])
            if rc == 0 and not clash and (not refused or absorb):
                self.P[b] = self.P[b] | filt
                outcome = "ok" if not refused else "absorbed-complete"
            elif rc == -1 and (refused or clash):
                self.between[("P", b)] = (set(self.P[b]), self.P[b] | filt)
                outcome = "error-target-partial"
            else:
                self.fail("error-reported" if refused else "set", "pcopyx returned %d (refused=%s clash=%s)" % (rc, refused, clash))
                self.between[("P", b)] = (set(self.P[b]), self.P[b] | filt)
                outcome = "refusal-not-reported"
        elif cmd == "pfree" and t is not None:
            self.P[t] = set()
            self.between.pop(("P", t), None)
            self.logok[("P", t)] = False
            outcome = "ok"
        elif cmd == "knew" and t is not None:
            self.Kcb[t] = w[3] == "1"
            self.RK[t] = set()
            self.logok[("K", t)] = True
            if refused and rc != -1:
                self.fail("error-reported", "knew: the allocation of the first hash segment was refused but spki_table_init reported nothing")
                self.K[t] = set()
                outcome = "refusal-not-reported"
            elif rc == 0:
                self.K[t] = set()
                outcome = "ok"
            else:
                if not refused:
                    self.fail("set", "knew failed without a refused allocation")
                outcome = "error-unchanged"
        elif cmd in ("kadd", "krm") and t is not None and self.K[t] is not None:
            rec = _krec(w[3:])
            if rec is None or ("K", t) in self.between:
                return
            S = self.K[t]
            if cmd == "kadd":
                outcome = judge(-2 if rec in S else 0, lambda: None, lambda: S.add(rec))
            else:
                outcome = judge(0 if rec in S else -3, lambda: None, lambda: S.discard(rec))
        elif cmd == "ksrcrm" and t is not None and self.K[t] is not None:
            s = int(w[3])

            def fullk():
                self.K[t] = set(x for x in self.K[t] if x[3] != s)
            outcome = judge(0, lambda: None, fullk)
        elif cmd in ("kget", "kbyski") and t is not None and self.K[t] is not None:
            if refused:
                if rc != -1:
                    self.fail("error-reported", "%s: request %s refused but the call returned %d" % (cmd, ref[0][1], rc))
                outcome = "error-unchanged"
            else:
                if cmd == "kget":
                    a, ski = int(w[3]), int(w[4], 16)
                    exp = set(x for x in self.K[t] if x[0] == a and x[1] == ski)
                else:
                    ski = int(w[3], 16)
                    exp = set(x for x in self.K[t] if x[1] == ski)
                try:
                    n = int(rw[1])
                    recs = [spkigen.parse_rec_str(x) for x in rw[2:]]
                except (ValueError, IndexError):
                    n, recs = -1, []
                if rc != 0 or n != len(recs) or len(set(recs)) != len(recs) or set(recs) != exp:
                    self.fail("set", "%s answered %r, the stored keys with these fields are %d" % (cmd, res[:100], len(exp)))
                outcome = "ok"
        elif cmd == "kcopyx" and t is not None and self.K[t] is not None:
            b = _tab(w[3])
            s = int(w[4])
            if self.K[b] is None:
                return
            filt = set(x for x in self.K[t] if x[3] != s)
            clash = bool(filt & self.K[b])
            if rc == 0 and not clash and (not refused or absorb):
                self.K[b] = self.K[b] | filt
                outcome = "ok" if not refused else "absorbed-complete"
            elif rc == -1 and (refused or clash):
                self.between[("K", b)] = (set(self.K[b]), self.K[b] | filt)
                outcome = "error-target-partial"
            else:
                self.fail("error-reported" if refused else "set", "kcopyx returned %d (refused=%s clash=%s)" % (rc, refused, clash))
                self.between[("K", b)] = (set(self.K[b]), self.K[b] | filt)
                outcome = "refusal-not-reported"
        elif cmd in ("kfree", "kfreenn") and t is not None:
            self.K[t] = None
            self.between.pop(("K", t), None)
            self.logok[("K", t)] = False
            outcome = "ok"
        elif cmd == "sync":
            outcome = self.judge_sync(w, res, rc, refused, absorb, ref)
        elif cmd == "pair" and t is not None:
            self.judge_pair(w, t, rw, res)
        if outcome is not None:
            if refused:
                self.dist["%s/%s@%d/%s" % (cmd, self.site_name(cmd, toks, ref[0][0]), min(ref[0][0], 9), outcome)] += 1
            else:
                self.dist["%s/-/%s" % (cmd, outcome)] += 1

    # ---- two operations in two threads
    @staticmethod
    def parse_half(side):
        if len(side) == 7 and side[0] in ("padd", "prm"):
            rec = _prec(side[1:])
            return ("P", side[0][1:], rec) if rec else None
        if len(side) == 5 and side[0] in ("kadd", "krm"):
            rec = _krec(side[1:])
            return ("K", side[0][1:], rec) if rec else None
        return None

    def pair_class(self, t, a, b):
        (ka, oa, ra), (kb, ob, rb) = a, b
        name = "%s%s+%s%s" % (ka.lower(), oa, kb.lower(), ob)
        if ka != kb:
            return name + ":mixed:-"
        if ka == "P":
            S = self.P[t]
            rel = "same-rec" if ra == rb else "same-prefix" if ra[:3] == rb[:3] else "other"
            st = "rec-present" if ra in S else "node-present" if any(x[:3] == ra[:3] for x in S) else \
                "node-absent" if any(x[0] == ra[0] for x in S) else "family-empty"
        else:
            S = self.K[t]
            rel = "same-rec" if ra == rb else "same-key" if ra[:2] == rb[:2] else "other"
            st = "present" if ra in S else "absent"
        return "%s:%s:%s" % (name, rel, st)

    def judge_pair(self, w, t, rw, res):
        """the two calls ran concurrently; whatever the interleaving, their return codes and the contents
        afterwards must be those of one of the two serial orders (the table functions are atomic)"""
        if "|" not in w:
            return
        bar = w.index("|")
        a, b = self.parse_half(w[3:bar]), self.parse_half(w[bar + 1:])
        if a is None or b is None:
            return
        for x in (a, b):
            if (x[0], t) in self.between or (x[0] == "K" and self.K[t] is None):
                return
        # the callbacks of the two calls are made after the table lock is released: their order in the stream need not be the
        # order in which the table changed, so the replayed stream is re-based on the table at the next log (the contents after
        # the pair are still judged, against the two serial orders)
        if not hasattr(self, "pair_dirty"):
            self.pair_dirty = set()
        for x in (a, b):
            self.pair_dirty.add((x[0], t))
        try:
            got = [int(rw[0]), int(rw[1])]
        except (ValueError, IndexError):
            self.fail("answer", "no return codes in %r" % res[:80])
            return
        m = re.search(r"sched=(\w+)", res)
        sched = m.group(1) if m else "?"
        cls = self.pair_class(t, a, b)

        def serial(first, second):
            P = set(self.P[t])
            K = set(self.K[t]) if self.K[t] is not None else None
            rcs = []
            for (kind, opn, rec) in (first, second):
                S = P if kind == "P" else K
                if opn == "add":
                    rcs.append(-2 if rec in S else 0)
                    S.add(rec)
                else:
                    rcs.append(0 if rec in S else -3)
                    S.discard(rec)
            return rcs, P, K
        ab, Pab, Kab = serial(a, b)
        ba, Pba, Kba = serial(b, a)
        ba = [ba[1], ba[0]]
        if got == ab:
            order, newP, newK = "AB", Pab, Kab
        elif got == ba:
            order, newP, newK = "BA", Pba, Kba
        else:
            self.fail("pair", "two threads: '%s' returned %d and '%s' returned %d; run one after the other they return %s "
                      "(first one first) or %s (second one first)" % (" ".join(w[3:bar]), got[0], " ".join(w[bar + 1:]), got[1], ab, ba))
            order, newP, newK = "AB", Pab, Kab
        self.P[t] = newP
        if newK is not None:
            self.K[t] = newK
        self.pair_order[self.i] = order
        self.pairs["%s %s-%s" % (cls, sched, order)] += 1

    def judge_sync(self, w, res, rc, refused, absorb, ref):
        reset = w[2] == "1"
        items, sn = decode_items(w[3])
        kv = dict(x.split("=") for x in res.split()[1:])
        req, serial = int(kv["req"]), int(kv["serial"])
        if self.K[0] is None:
            return None
        P0, K0 = self.P[0], self.K[0]
        othersP = set(x for x in P0 if x[5] != ME)
        othersK = set(x for x in K0 if x[3] != ME)
        newP = set(othersP) if reset else set(P0)
        newK = set(othersK) if reset else set(K0)
        applicable = True
        for kind in ("p4", "p6", "k"):
            for (kd, add, rec) in items:
                if kd != kind or not applicable:
                    continue
                S = newK if kd == "k" else newP
                if add:
                    if rec in S:
                        applicable = False
                    else:
                        S.add(rec)
                else:
                    if rec not in S:
                        applicable = False
                    else:
                        S.discard(rec)
        # what the call may leave behind; decided at the next dump of P0 / K0
        self.sync_pending = {
            "rc": rc, "req": req, "before": (set(P0), set(K0)), "new": (newP, newK), "purged": (othersP, othersK),
            "req0": 1 if reset else 0,
        }
        if rc == 0:
            if not applicable:
                self.fail("sync", "rtr_sync succeeded on an answer with a duplicate announcement / unknown withdrawal")
            if refused and not absorb:
                self.fail("error-reported", "sync: request %s was refused but rtr_sync returned success" % ref[0][1])
            if req != 0 or serial != sn:
                self.fail("sync", "successful sync leaves request_session_id=%d serial=%d (End of Data says %s)" % (req, serial, sn))
            self.P[0], self.K[0] = set(newP), set(newK)
            self.sync_expect = [("new", newP, newK)]
            return "absorbed-complete" if refused else "ok"
        if not refused and applicable:
            self.fail("sync", "rtr_sync failed on a correct answer without a refused allocation")
        if serial != SERIAL0:
            self.fail("sync", "failed sync changed the serial number to %d" % serial)
        # tables as before (and the next query as before) or this socket's records purged (and a Reset Query next)
        self.sync_expect = [("purged", othersP, othersK)] if req == 1 and not reset else \
            [("before", set(P0), set(K0)), ("purged", othersP, othersK)] if req == 1 else [("before", set(P0), set(K0))]
        if req == 0 and reset:
            self.fail("sync", "failed reload cleared request_session_id")
        self.sync_wait = 2
        return "error"

    # ---- observers
    def observe(self, cmd, w, reply):
        t = _tab(w[1]) if len(w) > 1 else None
        if cmd == "live":
            m = re.match(r"live=(-?\d+) foreign=(\d+) alien=(\d+)(?: double=(\d+))?", reply)
            if not m:
                return
            live, foreign, alien = int(m.group(1)), int(m.group(2)), int(m.group(3))
            if m.group(4) and int(m.group(4)):
                self.fail("double-free", "%s blocks were returned to the configured allocator twice" % m.group(4))
            nothing = all(not s for s in self.P) and all(k is None for k in self.K)
            if nothing and live != 0:
                self.fail("balanced", "every table is freed but %d blocks of the configured allocator are still allocated" % live)
            if foreign:
                self.fail("foreign-free", "%d blocks of the configured allocator were released through libc free" % foreign)
            if alien:
                self.fail("alien-free", "%d foreign blocks (not from the configured allocator) reached its free" % alien)
            # alloc_count: live blocks as a function of the tables
            if len(self.stats) == 2 * NT:
                exp = 0
                for k, v in self.stats.items():
                    exp += v
                if live != exp:
                    self.fail("alloc-count", "%d blocks are allocated, the tables account for %d (3 per trie node; entries + hash segments)" % (live, exp))
            return
        if t is None:
            return
        if cmd == "pstat":
            m = re.match(r"pstat nodes=(\d+) elems=(\d+) empty=(\d+)", reply)
            if m:
                if int(m.group(3)):
                    self.fail("invariant", "a trie node with an empty payload is linked in the table")
                self.stats[("P", t)] = 3 * int(m.group(1))
                if int(m.group(2)) != len(self.P[t]) and ("P", t) not in self.between and not getattr(self, "sync_expect", None):
                    self.fail("set", "table holds %s elements, the set %d" % (m.group(2), len(self.P[t])))
            return
        if cmd == "kstat":
            m = re.match(r"kstat entries=(\d+) count=(\d+) bit=(\d+)", reply)
            if m:
                self.stats[("K", t)] = int(m.group(1)) + int(m.group(3)) - 5
                if m.group(1) != m.group(2):
                    self.fail("invariant", "hash table count %s differs from the list length %s" % (m.group(2), m.group(1)))
            elif reply == "bad-op":
                self.stats[("K", t)] = 0
            return
        if cmd in ("pdump", "kdump"):
            key = ("P" if cmd == "pdump" else "K", t)
            toks = reply.split()[1:]
            try:
                recs = [pfxgen.parse_rec_str(x) if cmd == "pdump" else spkigen.parse_rec_str(x) for x in toks]
            except (ValueError, IndexError):
                self.fail("answer", "unreadable dump")
                return
            if len(set(recs)) != len(recs):
                self.fail("set", "enumeration yields a record twice")
            got = set(recs)
            S = self.P if cmd == "pdump" else self.K
            if S[t] is None:
                return
            exps = getattr(self, "sync_expect", None)
            if exps and t == 0:
                idx = 1 if cmd == "pdump" else 2
                if not any(got == e[idx] for e in exps):
                    self.fail("sync", "after rtr_sync returned %s the %s table is neither %s: missing %s extra %s" % (
                        "success" if exps[0][0] == "new" else "an error", "prefix" if cmd == "pdump" else "router-key",
                        " nor ".join("as " + e[0] if e[0] != "new" else "the announced state" for e in exps),
                        sorted(exps[0][idx] - got)[:3], sorted(got - exps[0][idx])[:3]))
                # which alternative was taken must agree between the two tables
                taken = [e[0] for e in exps if got == e[idx]]
                prev = getattr(self, "sync_taken", None)
                if prev is not None and taken and not (set(prev) & set(taken)):
                    self.fail("sync", "prefix table and router-key table took different alternatives (%s / %s)" % (prev, taken))
                self.sync_taken = taken
                S[t] = got
                self.sync_wait = getattr(self, "sync_wait", 2) - 1
                if cmd == "kdump":
                    self.sync_expect = None
                    self.sync_taken = None
                return
            if key in self.between:
                lo, hi = self.between.pop(key)
                if not (lo <= got <= hi):
                    self.fail("set", "after a failed copy the target is not between its old contents and the full copy")
                S[t] = got
                return
            if got != S[t]:
                self.fail("contained" if self.nrefused else "set",
                          "contents differ from the set: missing %s extra %s" % (sorted(S[t] - got)[:3], sorted(got - S[t])[:3]))
                S[t] = got
            return
        if cmd in ("plog", "klog"):
            key = ("P" if cmd == "plog" else "K", t)
            R = self.RP[t] if cmd == "plog" else self.RK[t]
            cb = self.Pcb[t] if cmd == "plog" else self.Kcb[t]
            S = self.P[t] if cmd == "plog" else self.K[t]
            toks = reply.split()[1:]
            if toks and not cb:
                self.fail("log", "table without callback produced callbacks")
            for tok in toks:
                try:
                    rec = pfxgen.parse_rec_str(tok[1:]) if cmd == "plog" else spkigen.parse_rec_str(tok[1:])
                except (ValueError, IndexError):
                    continue
                if tok[0] == "+":
                    R.add(rec)
                else:
                    R.discard(rec)
            if key in getattr(self, "pair_dirty", set()):
                self.pair_dirty.discard(key)
                if S is not None:
                    R.clear()
                    R.update(S)
                return
            if cb and S is not None and self.logok[key] and key not in self.between and not getattr(self, "sync_expect", None):
                if R != S:
                    self.fail("log", "callback stream does not mirror the table: only in stream %s, only in table %s" % (
                        sorted(R - S)[:3], sorted(S - R)[:3]))
                    R.clear()
                    R.update(S)


# ------------------------------------------------------------------------------------------
# adaptive generation
# ------------------------------------------------------------------------------------------

class Session:
    """one history: a harness process, the judge, the recorded ops and replies"""

    def __init__(self, exe, sz, hid, kind):
        self.h = Harness(exe)
        self.j = Judge(sz)
        self.hid = hid
        self.kind = kind
        self.ops = []
        self.out = []
        self.crashed = False
        self.send(setsizes_line(sz))

    def send(self, line):
        if self.crashed:
            return None
        rep = self.h.ask(line)
        self.ops.append(line)
        if rep is None:
            self.crashed = True
            return None
        self.out.append(rep)
        self.j.feed(line, rep)
        return rep

    def observe(self, ptabs=(0,), ktabs=(0,), full=False):
        for t in ptabs:
            self.send("pdump %d" % t)
            self.send("plog %d" % t)
        for t in ktabs:
            self.send("kdump %d" % t)
            self.send("klog %d" % t)
        if full:
            for t in range(NT):
                self.send("pstat %d" % t)
                self.send("kstat %d" % t)
            self.send("live")

    def sweep(self, tmpl, r, mode="sweep", after=None, before=None, maxk=60):
        """tmpl contains one '{F}'.  sweep: k = 0, 1, 2, ... until a run passes without refusal or takes
        effect; one: a single random k, then (if nothing happened) once without refusal; none: '-'.
        `before()` restores the preconditions before every try, `after()` observes after every try."""
        if mode == "none":
            if before:
                before()
            rep = self.send(tmpl.replace("{F}", "-"))
            if after:
                after()
            return rep
        ks = range(0, maxk) if mode == "sweep" else [r.randrange(0, 6)]
        rep = None
        for k in ks:
            if before:
                before()
            rep = self.send(tmpl.replace("{F}", str(k)))
            if rep is None:
                return None
            if after:
                after()
            sp = split_reply(rep)
            if sp is None:
                return rep
            res, toks, live = sp
            if not refused_tokens(toks):
                return rep                       # k is past the last request: the operation ran undisturbed
            try:
                rc = int(res.split()[0])
            except (ValueError, IndexError):
                return rep
            if rc != -1:
                return rep                       # the refusal was absorbed: the operation has taken effect
        if before:
            before()
        rep = self.send(tmpl.replace("{F}", "-"))
        if after:
            after()
        return rep

    def finish(self):
        """release everything; nothing may remain allocated"""
        for t in range(NT):
            self.send("pfree - %d" % t)
            if self.j.K[t] is not None:
                self.send("kfree - %d" % t)
        for t in range(NT):
            self.send("pstat %d" % t)
            self.send("kstat %d" % t)
        self.send("live")
        rc = self.h.close()
        if not self.crashed and rc not in (0, None):
            self.crashed = True
        return self


def mode_for(r, p_sweep):
    x = r.random()
    return "sweep" if x < p_sweep else ("one" if x < p_sweep + (1 - p_sweep) * 0.6 else "none")


def hist_pfx(exe, sz, r, hid, nops, p_sweep):
    s = Session(exe, sz, hid, "pfx")
    u = pfxgen.Universe(r)
    s.send("pnew - 0 %d" % r.choice([0, 1, 1]))
    stored = []
    obs = lambda: s.observe(ptabs=(0,), ktabs=(), full=r.random() < 0.3)
    for _ in range(nops):
        if s.crashed:
            break
        x = r.random()
        m = mode_for(r, p_sweep)
        if x < 0.45 or not stored:
            rec = u.rec(r)
            if stored and r.random() < 0.5:
                # same prefix, other payload: the array of an existing node grows
                o = r.choice(stored)
                rec = o[:3] + (r.choice([o[2], min(pfxgen.W(o[0]), o[2] + 1)]), r.choice(pfxgen.ASNS), r.choice(pfxgen.SRCS))
            s.sweep("padd {F} 0 " + pfxgen.fmt_rec_args(rec), r, m, after=obs)
            stored.append(rec)
        elif x < 0.5:
            s.sweep("padd {F} 0 " + pfxgen.fmt_rec_args(r.choice(stored)), r, m, after=obs)
        elif x < 0.68:
            s.sweep("prm {F} 0 " + pfxgen.fmt_rec_args(r.choice(stored)), r, m, after=obs)
        elif x < 0.72:
            s.sweep("prm {F} 0 " + pfxgen.fmt_rec_args(u.rec(r)), r, m, after=obs)
        elif x < 0.80:
            # a random k: refusals of the later shrinking reallocs are reached too
            src = r.choice(pfxgen.SRCS)
            k = r.choice(["-", 0, 1, 1, 2, 3, r.randrange(0, 8)])
            s.send("psrcrm %s 0 %d" % (k, src))
            obs()
        elif x < 0.92:
            q = u.query(r, stored)
            s.sweep("pval {F} 0 %d %s %d %d" % (q[0], pfxgen.hexaddr(q[0], q[1]), q[2], q[3]), r, m, after=None)
        else:
            # what a full reload does first: copy everything except one source into a fresh table
            src = r.choice(pfxgen.SRCS)
            s.sweep("pcopyx {F} 0 1 %d" % src, r, "sweep" if r.random() < 0.5 else "one",
                    after=lambda: (s.observe(ptabs=(0, 1), ktabs=(), full=True), s.send("pfree - 1")), maxk=40)
    s.observe(ptabs=(0,), ktabs=(), full=True)
    return s.finish()


def hist_spki(exe, sz, r, hid, nops, p_sweep, big=False):
    s = Session(exe, sz, hid, "spki-big" if big else "spki")
    u = spkigen.Universe(r, small=not big)
    s.sweep("knew {F} 0 %d" % r.choice([0, 1, 1]), r, "sweep")
    stored = []
    sset = set()
    obs = lambda: s.observe(ptabs=(), ktabs=(0,), full=r.random() < 0.3)

    def add(rec, m):
        s.sweep("kadd {F} 0 " + spkigen.rec_args(rec), r, m, after=obs if not big or r.random() < 0.2 else None)
        if rec not in sset:
            sset.add(rec)
            stored.append(rec)

    def rm(rec, m):
        s.sweep("krm {F} 0 " + spkigen.rec_args(rec), r, m, after=obs if not big or r.random() < 0.2 else None)
        if rec in sset:
            sset.discard(rec)
            stored.remove(rec)

    if big:
        # drive the table across the resize thresholds of tommy_hashlin (grow at > max/2, shrink at < max/8)
        targets = [r.choice([34, 40, 66, 70]), r.choice([3, 5, 12]), r.choice([33, 36]), 0]
        serial = 0
        for tgt in targets:
            guard = 0
            while len(stored) != tgt and guard < 400 and not s.crashed:
                guard += 1
                near = len(stored) in (31, 32, 33, 63, 64, 65)
                m = "sweep" if near or r.random() < p_sweep * 0.3 else "none"
                if len(stored) < tgt:
                    serial += 1
                    add((r.choice(u.asns), r.choice(u.skis), serial, r.choice(u.srcs)), m)
                else:
                    rm(r.choice(stored), m)
            s.observe(ptabs=(), ktabs=(0,), full=True)
            if tgt and r.random() < 0.5:
                src = r.choice(spkigen.SRCS)
                s.sweep("kcopyx {F} 0 1 %d" % src, r, "one", before=lambda: s.send("knew - 1 0"),
                        after=lambda: (s.observe(ptabs=(), ktabs=(0, 1), full=True), s.send("kfree - 1")))
        return s.finish()
    for _ in range(nops):
        if s.crashed:
            break
        x = r.random()
        m = mode_for(r, p_sweep)
        if x < 0.45 or not stored:
            add(u.rec(r), m)
        elif x < 0.5:
            add(r.choice(stored), m)
        elif x < 0.65:
            rm(r.choice(stored), m)
        elif x < 0.7:
            rm(u.rec(r), m)
        elif x < 0.75:
            src = r.choice(spkigen.SRCS)
            s.send("ksrcrm - 0 %d" % src)
            stored = [x for x in stored if x[3] != src]
            sset = set(stored)
            obs()
        elif x < 0.9:
            if stored and r.random() < 0.8:
                a, ski = r.choice(stored)[:2]
            else:
                a, ski = r.choice(u.asns), r.choice(u.skis)
            if r.random() < 0.5:
                s.sweep("kget {F} 0 %d %x" % (a, ski), r, m)
            else:
                s.sweep("kbyski {F} 0 %x" % ski, r, m)
        else:
            src = r.choice(spkigen.SRCS)
            s.sweep("kcopyx {F} 0 1 %d" % src, r, "sweep" if r.random() < 0.5 else "one",
                    before=lambda: s.send("knew - 1 0"),
                    after=lambda: (s.observe(ptabs=(), ktabs=(0, 1), full=True), s.send("kfree - 1")), maxk=40)
    s.observe(ptabs=(), ktabs=(0,), full=True)
    return s.finish()


def pdu_of(item):
    kind, add, rec = item
    if kind == "p4":
        return rtrpdu.ipv4(1, 1 if add else 0, rec[2], rec[3], rec[1], rec[4])
    if kind == "p6":
        return rtrpdu.ipv6(1, 1 if add else 0, rec[2], rec[3], rec[1], rec[4])
    return rtrpdu.router_key(1, 1 if add else 0, rec[1].to_bytes(20, "big"), rec[0], rec[2].to_bytes(91, "big"))


def hist_sync(exe, sz, r, hid, maxk):
    """one scenario = tables with records of this socket and of two others, one answer of the cache;
    the real rtr_sync is run on it once per allocation request (k = 0, 1, ...), every time from the
    same tables"""
    s = Session(exe, sz, hid, "sync")
    pu = pfxgen.Universe(r)
    ku = spkigen.Universe(r, small=True)
    reset = r.random() < 0.55
    pcb, kcb = r.choice([0, 1]), r.choice([0, 1])
    pre_p = []
    for _ in range(r.randrange(0, 9)):
        rec = pu.rec(r)
        rec = rec[:5] + (r.choice([ME, ME, 1, 2]),)
        if rec not in pre_p:
            pre_p.append(rec)
    pre_k = []
    for _ in range(r.randrange(0, 6)):
        rec = ku.rec(r)
        rec = rec[:3] + (r.choice([ME, ME, 1, 2]),)
        if rec not in pre_k:
            pre_k.append(rec)
    # the answer
    items = []
    ownP = [x for x in pre_p if x[5] == ME]
    ownK = [x for x in pre_k if x[3] == ME]
    curP = set() if reset else set(ownP)
    curK = set() if reset else set(ownK)
    n = r.randrange(0, 9)
    bad_at = r.randrange(0, n + 1) if r.random() < 0.45 else None
    for i in range(n):
        x = r.random()
        wrong = bad_at == i
        if x < 0.7:
            if (r.random() < 0.3 or wrong) and curP and not (wrong and r.random() < 0.5):
                rec = r.choice(sorted(curP))
                if wrong:
                    items.append(("p4" if rec[0] == 4 else "p6", True, rec))      # duplicate announcement
                else:
                    curP.discard(rec)
                    items.append(("p4" if rec[0] == 4 else "p6", False, rec))
            else:
                rec = pu.rec(r)[:5] + (ME,)
                if wrong or rec in curP:
                    if rec in curP:
                        items.append(("p4" if rec[0] == 4 else "p6", True, rec))
                    else:
                        items.append(("p4" if rec[0] == 4 else "p6", False, rec))  # unknown withdrawal
                else:
                    curP.add(rec)
                    items.append(("p4" if rec[0] == 4 else "p6", True, rec))
        else:
            if (r.random() < 0.3) and curK:
                rec = r.choice(sorted(curK))
                curK.discard(rec)
                items.append(("k", False, rec))
            else:
                rec = ku.rec(r)[:3] + (ME,)
                if rec in curK:
                    items.append(("k", True, rec))
                else:
                    curK.add(rec)
                    items.append(("k", not wrong, rec))
    stream = rtrpdu.cache_response(1, SESSION) + b"".join(pdu_of(it) for it in items) + rtrpdu.eod(1, SESSION, 40 + hid % 50)
    line = "sync {F} %d %s" % (1 if reset else 0, stream.hex())

    def setup():
        s.send("pfree - 0")
        if s.j.K[0] is not None:
            s.send("kfree - 0")
        s.send("pnew - 0 %d" % pcb)
        s.send("knew - 0 %d" % kcb)
        for rec in pre_p:
            s.send("padd - 0 " + pfxgen.fmt_rec_args(rec))
        for rec in pre_k:
            s.send("kadd - 0 " + spkigen.rec_args(rec))
        s.send("plog 0")
        s.send("klog 0")

    def look():
        s.send("pdump 0")
        s.send("kdump 0")
        for t in range(NT):
            s.send("pstat %d" % t)
            s.send("kstat %d" % t)
        s.send("live")

    if r.random() < 0.7:
        s.sweep(line, r, "sweep", before=setup, after=look, maxk=maxk)
    else:
        for _ in range(3):
            setup()
            s.send(line.replace("{F}", str(r.randrange(0, 40))))
            look()
    return s.finish()


# ------------------------------------------------------------------------------------------
# long answers: more PDUs of one kind than a temporary store holds
# ------------------------------------------------------------------------------------------

def probe_caps(exe, sz):
    """capacity step of the three temporary PDU stores of rtr_sync, measured: an answer with one PDU of every kind
    makes the store loop allocate each store once (the first three requests of the call)"""
    items = [("p4", True, (4, 0x0a000000, 8, 8, 65001, ME)), ("p6", True, (6, 0x20010db8 << 96, 32, 32, 65001, ME)),
             ("k", True, (65001, 1, 2, ME))]
    stream = rtrpdu.cache_response(1, SESSION) + b"".join(pdu_of(it) for it in items) + rtrpdu.eod(1, SESSION, 41)
    ops = [setsizes_line(sz), "pnew - 0 0", "knew - 0 0", "sync - 0 " + stream.hex(), "pfree - 0", "kfree - 0"]
    out, rc, err = vlib.run_lines(exe, ops)
    if rc != 0 or len(out) < 4:
        return None
    sp = split_reply(out[3])
    if sp is None:
        return None
    reqs = [t for t in sp[1] if t[0] in "MR"]
    caps = {}
    for name, tok in zip(("pdu4", "pdu6", "pduk"), reqs[:3]):
        m = _RT.match(tok)
        if not m or m.group(1) != "0" or int(m.group(2)) == 0 or int(m.group(2)) % sz[name]:
            return None
        caps[name] = int(m.group(2)) // sz[name]
    return caps if len(caps) == 3 else None


def long_items(r, spec):
    """announcements of distinct records, `spec[kind]` of each kind, arrival order interleaved at random; every 16th
    prefix announcement reuses the previous prefix with another origin (the array of an existing node grows)"""
    seqs = {}
    for kind, n in spec.items():
        q = []
        for i in range(n):
            j = i - 1 if i % 16 == 15 else i
            asn = 70000 + i if i % 16 == 15 else 65000 + i % 5
            if kind == "p4":
                q.append(("p4", True, (4, (10 << 24) | (j << 8), 24, r.choice([24, 25, 32]), asn, ME)))
            elif kind == "p6":
                q.append(("p6", True, (6, (0x20010db8 << 96) | (j << 64), 64, r.choice([64, 96, 128]), asn, ME)))
            else:
                q.append(("k", True, (65000 + i % 7, 1 + i, 0xabc000 + i, ME)))
        seqs[kind] = q
    items = []
    while any(seqs.values()):
        kinds = [k for k in seqs for _ in range(len(seqs[k]))]
        items.append(seqs[r.choice(kinds)].pop(0))
    return items


def hist_sync_long(exe, sz, r, hid, spec, reset, extra):
    """an answer with more PDUs of a kind than its store holds.  An undisturbed run counts the requests of the call; then
    the k-th request is refused for: every request that GROWS an existing block (the store reallocations for element
    capacity+1, 2*capacity+1, ...; node arrays), every request up to the first malloc and a little beyond (the store
    phase), the last one, and `extra` random others - each time from the same tables"""
    s = Session(exe, sz, hid, "sync-long")
    pcb, kcb = r.choice([0, 1]), r.choice([0, 1])
    pre_p = [(4, (192 << 24) | (168 << 16) | (i << 8), 24, 24, 64500 + i, src) for i, src in enumerate([ME, ME, 1, 2])]
    pre_k = [(64500 + i, 0xf0 + i, 0xe0 + i, src) for i, src in enumerate([ME, 1])]
    items = long_items(r, spec)
    if not reset:
        # an incremental update also withdraws records this socket owns
        items.insert(r.randrange(0, len(items) + 1), ("p4", False, pre_p[0]))
        items.insert(r.randrange(0, len(items) + 1), ("k", False, pre_k[0]))
    stream = rtrpdu.cache_response(1, SESSION) + b"".join(pdu_of(it) for it in items) + rtrpdu.eod(1, SESSION, 40 + hid % 50)
    line = "sync {F} %d %s" % (1 if reset else 0, stream.hex())

    def setup():
        s.send("pfree - 0")
        if s.j.K[0] is not None:
            s.send("kfree - 0")
        s.send("pnew - 0 %d" % pcb)
        s.send("knew - 0 %d" % kcb)
        for rec in pre_p:
            s.send("padd - 0 " + pfxgen.fmt_rec_args(rec))
        for rec in pre_k:
            s.send("kadd - 0 " + spkigen.rec_args(rec))
        s.send("plog 0")
        s.send("klog 0")

    def look():
        s.send("pdump 0")
        s.send("kdump 0")
        for t in range(NT):
            s.send("pstat %d" % t)
            s.send("kstat %d" % t)
        s.send("live")

    setup()
    rep = s.send(line.replace("{F}", "-"))
    look()
    sp = split_reply(rep) if rep else None
    if sp is None:
        return s.finish()
    reqs = [t for t in sp[1] if t[0] in "MR"]
    grow = []
    for i, t in enumerate(reqs):
        m = _RT.match(t)
        if m and 0 < int(m.group(1)) < int(m.group(2)):
            grow.append(i)
    firstm = next((i for i, t in enumerate(reqs) if t[0] == "M"), len(reqs))
    ks = set(grow) | set(range(0, min(firstm + 3, len(reqs)))) | {len(reqs) - 1}
    ks |= set(r.sample(range(len(reqs)), min(extra, len(reqs))))
    for k in sorted(x for x in ks if x >= 0):
        if s.crashed:
            break
        setup()
        s.send(line.replace("{F}", str(k)))
        look()
    return s.finish()


# ------------------------------------------------------------------------------------------
# two threads: pairs of identical / related operations under the allocator-driven schedule
# ------------------------------------------------------------------------------------------

def pair_cases_pfx(fam):
    if fam == 4:
        X = (4, 0x0a000000, 8, 8, 65001, 1)
        Y = (4, 0x0a800000, 9, 24, 65001, 1)          # below X
        Z = (4, 0xc0a80000, 16, 16, 65009, 2)
    else:
        X = (6, 0x20010db8 << 96, 32, 48, 65001, 1)
        Y = (6, (0x20010db8 << 96) | (1 << 95), 33, 64, 65001, 1)
        Z = (6, 0xfd00 << 112, 16, 16, 65009, 2)
    X2 = X[:3] + (X[3] + 1, 65002, 2)
    X3 = X[:3] + (X[3] + 2, 65003, 3)
    return X, X2, X3, Y, Z


def pair_plan(r, quick):
    """(kind, pre-existing records, op A, op B): identical / related operations on small tables where the prefix node
    (the key) is / is not yet present"""
    plan = []
    for fam in (4, 6):
        X, X2, X3, Y, Z = pair_cases_pfx(fam)
        full = [
            ([], ("padd", X), ("padd", X)),              # same record, family empty
            ([Z], ("padd", X), ("padd", X)),             # same record, prefix node absent
            ([Z], ("padd", X), ("padd", X2)),            # same prefix, other origin, node absent
            ([X, X2], ("prm", X), ("prm", X)),           # remove / remove, node keeps an element (shrinking realloc)
            ([Z], ("padd", X), ("prm", X)),              # add / remove of an absent record
            ([X3], ("padd", X), ("padd", X)),            # same record, node present
            ([X3], ("padd", X), ("padd", X2)),           # same prefix, node present
            ([X], ("padd", X), ("padd", X)),             # record present: both duplicates
            ([X], ("padd", X2), ("prm", X)),             # add / remove on the same node
            ([X], ("prm", X), ("padd", X)),              # remove / add of the same record
            ([X], ("prm", X), ("prm", X)),               # remove / remove of the node's only element
            ([Z], ("padd", X), ("padd", Y)),             # related prefixes (parent / child)
            ([], ("prm", X), ("prm", X)),                # nothing there
        ]
        for c in (full if fam == 4 or not quick else full[:5]):
            plan.append(("P",) + c)
    K1, K2, K3 = (65001, 0xaa, 0xbb, 1), (65001, 0xab, 0xbc, 1), (65001, 0xac, 0xbd, 2)
    plan += [
        ("K", [], ("kadd", K1), ("kadd", K1)),
        ("K", [K1], ("kadd", K1), ("kadd", K1)),
        ("K", [K1], ("kadd", K1), ("krm", K1)),
        ("K", [], ("kadd", K1), ("krm", K1)),
        ("K", [K1], ("krm", K1), ("krm", K1)),
        ("K", [K1], ("kadd", K2), ("kadd", K3)),
        ("K", [K1, K2], ("krm", K1), ("kadd", K1)),
    ]
    if not quick:
        pu, ku = pfxgen.Universe(r), spkigen.Universe(r, small=True)
        for _ in range(120):
            if r.random() < 0.7:
                pre = [pu.rec(r) for _ in range(r.randrange(0, 5))]
                a = r.choice(pre) if pre and r.random() < 0.6 else pu.rec(r)
                b = a if r.random() < 0.5 else (a[:3] + (a[3], r.choice(pfxgen.ASNS), r.choice(pfxgen.SRCS)) if r.random() < 0.5 else pu.rec(r))
                plan.append(("P", pre, (r.choice(["padd", "padd", "prm"]), a), (r.choice(["padd", "padd", "prm"]), b)))
            else:
                pre = [ku.rec(r) for _ in range(r.randrange(0, 5))]
                a = r.choice(pre) if pre and r.random() < 0.6 else ku.rec(r)
                b = a if r.random() < 0.6 else ku.rec(r)
                plan.append(("K", pre, (r.choice(["kadd", "kadd", "krm"]), a), (r.choice(["kadd", "kadd", "krm"]), b)))
    return plan


def hist_pairs(exe, sz, r, hid, cases):
    s = Session(exe, sz, hid, "pair")
    s.send("pnew - 0 1")
    s.send("knew - 0 1")

    def fmt(op):
        return "%s %s" % (op[0], pfxgen.fmt_rec_args(op[1]) if op[0][0] == "p" else spkigen.rec_args(op[1]))
    for kind, pre, a, b in cases:
        if s.crashed:
            break
        seen = []
        for rec in pre:
            if rec not in seen:
                seen.append(rec)
                s.send(("padd - 0 " + pfxgen.fmt_rec_args(rec)) if kind == "P" else ("kadd - 0 " + spkigen.rec_args(rec)))
        s.send("pair - 0 %s | %s" % (fmt(a), fmt(b)))
        s.observe(ptabs=(0,) if kind == "P" else (), ktabs=(0,) if kind == "K" else (), full=True)
        # back to empty tables: everything a case allocated must be gone before the next one
        if kind == "P":
            s.send("pfree - 0")
            s.send("pnew - 0 1")
        else:
            s.send("kfree - 0")
            s.send("knew - 0 1")
        for t in range(NT):
            s.send("pstat %d" % t)
            s.send("kstat %d" % t)
        s.send("live")
    return s.finish()


def hist_firstadd(exe, sz, r, hid):
    """the first record of an address family (the root slot is empty), every request of that add refused in turn; after
    every attempt the table is enumerated, counted and USED (add / validate / remove / remove-by-source / enumerate in
    the same family), so a root slot left pointing at a released node shows"""
    s = Session(exe, sz, hid, "first-add")
    u = pfxgen.Universe(r)
    s.send("pnew - 0 %d" % r.choice([0, 1]))
    for other_family_filled in (False, True):
        for fam in (4, 6):
            rec = other = None
            for _ in range(400):
                x = u.rec(r)
                if x[0] == fam and rec is None:
                    rec = x
                elif x[0] == fam and other is None and x[:3] != rec[:3]:
                    other = x
                if rec and other:
                    break
            if rec is None or other is None:
                continue
            if other_family_filled:
                X, X2, X3, Y, Z = pair_cases_pfx(6 if fam == 4 else 4)
                s.send("padd - 0 " + pfxgen.fmt_rec_args(Z))

            def use():
                s.observe(ptabs=(0,), ktabs=(), full=True)
                s.send("padd - 0 " + pfxgen.fmt_rec_args(other))
                s.send("pval - 0 %d %s %d %d" % (other[0], pfxgen.hexaddr(other[0], other[1]), other[2], other[4]))
                s.send("pdump 0")
                s.send("prm - 0 " + pfxgen.fmt_rec_args(other))
                s.send("psrcrm - 0 %d" % other[5])
                s.observe(ptabs=(0,), ktabs=(), full=True)
            s.sweep("padd {F} 0 " + pfxgen.fmt_rec_args(rec), r, "sweep", after=use)
            s.send("pfree - 0")
            s.send("pnew - 0 1")
    return s.finish()


# ------------------------------------------------------------------------------------------
# replay of a recorded op file (corpus, minimisation, model side)
# ------------------------------------------------------------------------------------------

def replay(exe, sz, ops):
    """run the op lines on a fresh harness; returns (replies, crashed, stderr, judge)"""
    h = Harness(exe)
    j = Judge(sz)
    out = []
    crashed = False
    for op in ops:
        rep = h.ask(op)
        if rep is None:
            crashed = True
            break
        out.append(rep)
        j.feed(op, rep)
    rc = h.close()
    if not crashed and rc not in (0, None):
        crashed = True
    return out, crashed, h.stderr_text(), j


def crash_signature(err):
    m = re.search(r"Assertion `([^']*)' failed", err)
    if m:
        return "assert:" + m.group(1)
    m = re.search(r"runtime error: ([^\n]*)", err)
    if m:
        return "ubsan:" + re.sub(r"0x[0-9a-f]+|\d+", "N", m.group(1))[:80]
    m = re.search(r"ERROR: AddressSanitizer: ([a-zA-Z-]+)", err)
    if m:
        return "asan:" + m.group(1)
    return "crash"


def load_corpus():
    cdir = os.path.join(vlib.VERIF, "corpus", "alloc")
    res = []
    if os.path.isdir(cdir):
        for f in sorted(os.listdir(cdir)):
            if f.endswith(".ops"):
                ops = [l.strip() for l in open(os.path.join(cdir, f)) if l.strip() and not l.startswith("#")]
                res.append((f, ops))
    return res


def run(pid, tier):
    rep = vlib.Report(pid, tier)
    if os.environ.get("ALLOC_NOPROVE"):               # development aid: correspondence and oracle only
        proved = True
    else:
        proved = vlib.prove(rep, MODULES, THEOREMS, extra_targets=["allocdriver"])
    drv = vlib.driver_path("allocdriver")
    exe, blog = build_harness()
    if exe is None:
        rep.build_log = blog
        vlib.proof_failure(rep, "harness build against the repository failed (correspondence alloc)")
        return rep.finish()
    sz = get_sizes(exe)
    if sz is None:
        rep.build_log = "harness did not report its block sizes"
        vlib.proof_failure(rep, "harness start-up failed (correspondence alloc)")
        return rep.finish()

    r = vlib.rng(pid)
    quick = tier == "quick"
    sessions = []            # finished Session-like records: (hid, kind, ops, out, crashed, stderr, fails, dist)
    caps = probe_caps(exe, sz)
    CAPS.clear()
    CAPS.update(caps or {})

    def record(hid, kind, ops, out, crashed, err, judge):
        sessions.append({"hid": hid, "kind": kind, "ops": ops, "out": out, "crashed": crashed, "err": err,
                         "fails": list(judge.fails), "dist": judge.dist, "pair_order": dict(judge.pair_order),
                         "pairs": judge.pairs, "first_empty": judge.first_empty})

    # corpus first
    corpus = load_corpus()
    for name, ops in corpus:
        ops = [setsizes_line(sz)] + [o for o in ops if not o.startswith("setsizes")]
        out, crashed, err, j = replay(exe, sz, ops)
        record("corpus:" + name, "corpus", ops, out, crashed, err, j)

    plan = []
    mult = 1 if quick else 20
    plan += [("pfx", 250 * mult), ("spki", 200 * mult), ("spki-big", 30 * mult), ("sync", 350 * mult)]
    hid = 0
    nbad = collections.Counter()
    phase = collections.OrderedDict()
    t_phase = time.time()

    def lap(name):
        nonlocal t_phase
        phase[name] = round(phase.get(name, 0) + time.time() - t_phase, 1)
        t_phase = time.time()

    # ---- deterministic classes (every tier): first add into an empty family, long answers, two-thread pairs
    def run_special(kind, fn):
        nonlocal hid
        hid += 1
        if nbad[kind] >= 4:
            return
        s = fn(hid)
        record(hid, kind, s.ops, s.out, s.crashed, s.h.stderr_text() if s.crashed else "", s.j)
        if s.crashed or s.j.fails:
            nbad[kind] += 1

    for _ in range(1 if quick else 10):
        run_special("first-add", lambda h: hist_firstadd(exe, sz, r, h))
    lap("first-add")
    long_specs = []
    if caps:
        c4, c6, ck = caps["pdu4"], caps["pdu6"], caps["pduk"]
        lim = 1200                                        # PDUs of one kind in one answer

        def upto(c):                                      # capacity + 1 ... 2 * capacity + 1
            return min(lim, c + 1 + r.randrange(0, c + 1))
        lits = [l for l in vlib.source_literals()["ints"] if 32 < l <= 1100]
        second = max([2 * c4] + [l for l in lits if 2 * c4 <= l <= 300])   # past the second growth step and every literal near it
        long_specs = [({"p4": upto(c4)}, False, 5), ({"p6": upto(c6)}, False, 4), ({"k": upto(ck)}, False, 4),
                      ({"p4": min(lim, c4 + 1), "p6": min(lim, c6 + 1), "k": min(lim, ck + 1)}, True, 5),
                      ({"p4": min(lim, second + 1)}, False, 3), ({"k": min(lim, 2 * ck + 1)}, True, 3)]
        if not quick:
            for l in lits:                                # a count the sources spell out is a candidate boundary
                long_specs.append(({r.choice(["p4", "p6", "k"]): l + 1}, r.random() < 0.5, 12))
            for _ in range(20):
                long_specs.append(({"p4": r.randrange(1, 2 * c4 + 2), "p6": r.randrange(1, 2 * c6 + 2), "k": r.randrange(1, 2 * ck + 2)},
                                   r.random() < 0.5, 30))
    for spec, reset, extra in long_specs:
        run_special("sync-long", lambda h: hist_sync_long(exe, sz, r, h, spec, reset, extra))
    lap("sync-long")
    pplan = pair_plan(r, quick)
    for i in range(0, len(pplan), 5):
        run_special("pair", lambda h: hist_pairs(exe, sz, r, h, pplan[i:i + 5]))
    lap("pair")

    for kind, count in plan:
        for _ in range(count):
            hid += 1
            if nbad[kind] >= 12:
                break                      # this kind of history keeps failing: enough material
            if kind == "pfx":
                s = hist_pfx(exe, sz, r, hid, r.randrange(8, 40), 0.6)
            elif kind == "spki":
                s = hist_spki(exe, sz, r, hid, r.randrange(8, 40), 0.6)
            elif kind == "spki-big":
                s = hist_spki(exe, sz, r, hid, 0, 0.6, big=True)
            else:
                s = hist_sync(exe, sz, r, hid, 90)
            record(hid, kind, s.ops, s.out, s.crashed, s.h.stderr_text() if s.crashed else "", s.j)
            if s.crashed or s.j.fails:
                nbad[kind] += 1
        lap(kind)

    # ---- model side: replay every recorded op file on the driver, compare
    divergences = []
    nlines = 0
    good = 0
    B = 1          # one driver process per history: both sides start from the initial state
    todo = [x for x in sessions if not x["crashed"]]
    import concurrent.futures
    pool = concurrent.futures.ThreadPoolExecutor(max_workers=4)
    futs = [pool.submit(vlib.run_lines, drv, [l for x in todo[b0:b0 + B] for l in model_ops(x)], timeout=600)
            for b0 in range(0, len(todo), B)]
    for bi, b0 in enumerate(range(0, len(todo), B)):
        batch = todo[b0:b0 + B]
        ops = [l for x in batch for l in model_ops(x)]
        model, mrc, merr = futs[bi].result()
        if mrc != 0 or len(model) != len(ops):
            rep.build_log = "model driver failed: rc=%s lines %d/%d %s" % (mrc, len(model), len(ops), merr[-500:])
            vlib.proof_failure(rep, "model driver (allocdriver) crashed")
            return rep.finish()
        pos = 0
        for x in batch:
            n = len(x["ops"])
            mo = model[pos:pos + n]
            pos += n
            nlines += n
            io = [canon(l) for l in x["out"]]
            for i, order in x["pair_order"].items():
                if order == "BA" and i < len(io):     # the model ran the second operation first: its codes come in that order
                    io[i] = swap_codes(io[i])
            mo = [canon(l) for l in mo]
            # callbacks of a two-thread pair are made after the table lock is released: the ORDER of the pair's callbacks in the
            # stream is not determined by the order in which the table changed; the first log after a pair is compared as a multiset
            dirty = set()
            for i, op in enumerate(x["ops"]):
                w = op.split()
                if not w:
                    continue
                if w[0] == "pair" and "|" in w and len(w) > 3:
                    bar = w.index("|")
                    for half in (w[3:bar], w[bar + 1:]):
                        if half:
                            dirty.add(("plog" if half[0].startswith("p") else "klog", w[2]))
                elif w[0] in ("plog", "klog") and len(w) > 1 and (w[0], w[1]) in dirty:
                    dirty.discard((w[0], w[1]))
                    if i < len(io) and i < len(mo):
                        io[i] = " ".join(sorted(io[i].split()))
                        mo[i] = " ".join(sorted(mo[i].split()))
            d = vlib.first_divergence(io, mo)
            if d is not None:
                divergences.append((x, d, x["out"][d] if d < len(x["out"]) else "<eof>", mo[d] if d < len(mo) else "<eof>"))
            else:
                good += 1

    lap("model-replay")
    rep.cov["phase_seconds"] = dict(phase)

    # ---- evidence
    dist = collections.Counter()
    for x in sessions:
        dist.update(x["dist"])
    kinds = collections.Counter(x["kind"] for x in sessions)
    refused_runs = sum(v for k, v in dist.items() if "/-/" not in k)
    sites = collections.Counter()
    for k, v in dist.items():
        op, site, outc = k.split("/")
        if site != "-":
            sites["%s %s -> %s" % (op, site.split("@")[0], outc)] += v
    pairs = collections.Counter()
    first_empty = {4: {"refused": set(), "nreq": 0}, 6: {"refused": set(), "nreq": 0}}
    for x in sessions:
        pairs.update(x["pairs"])
        for fam in (4, 6):
            first_empty[fam]["refused"] |= x["first_empty"][fam]["refused"]
            first_empty[fam]["nreq"] = max(first_empty[fam]["nreq"], x["first_empty"][fam]["nreq"])
    distinct = len([k for k in dist if "/-/" not in k]) + len(pairs)
    rep.cov.update({
        "evaluations": nlines,
        "distinct_nontrivial": distinct,
        "rule": "adaptive histories against the implementation: every operation is repeated with the k-th allocation "
                "request refused for k = 0, 1, 2, ... until it runs undisturbed (tables: prefix universes of pfxgen, "
                "router keys colliding under tommy_inthash_u32, table sizes driven across the hash-table resize "
                "thresholds; synchronisations: real rtr_sync on scripted answers incl. duplicate announcements / "
                "unknown withdrawals, incremental and full reload, with and without update callbacks); distinct = "
                "distinct (operation, refused allocation site, position, outcome) classes observed on the implementation",
        "traces_validated_against_impl": good,
        "distribution": {"histories": dict(kinds), "operations_run_with_a_refused_request": refused_runs,
                         "pdu_store_capacity_measured": caps,
                         "two_thread_pairs (class schedule-serial order)": dict(sorted(pairs.items())),
                         "first_add_into_empty_family": {"v%d" % f: {"requests": v["nreq"], "refused": sorted(v["refused"])}
                                                        for f, v in first_empty.items()},
                         "op_site_outcome": dict(sorted(sites.items())),
                         "undisturbed": {k: v for k, v in sorted(dist.items()) if "/-/" in k}},
    })
    for x in sessions[len(corpus):len(corpus) + 2]:
        rep.sample({"history": x["hid"], "kind": x["kind"], "ops": x["ops"][1:10]})
    rep.assumptions = ["the allocator is an oracle that may refuse any single request (one refusal per operation)",
                       "two threads only in `pair` lines (failure-free, one schedule per pair: both operations in flight at their "
                       "first allocation request, or one after the other when the first one allocates under the write lock)",
                       "sizes of released blocks are not compared (they depend on absorbed shrink refusals)"]

    # coverage gate: classes that must have been reached on a tree where the property holds
    bad_sessions = [x for x in sessions if x["crashed"] or x["fails"]]
    if not bad_sessions and not divergences:
        need = ["padd malloc-node", "padd malloc-ndata", "padd realloc-first", "padd realloc-grow", "prm realloc-shrink",
                "psrcrm realloc-shrink", "pval realloc-first", "pval realloc-grow", "pcopyx malloc-node",
                "knew malloc-segment", "kadd malloc-entry", "kadd malloc-segment", "kget realloc-first", "kget realloc-grow",
                "kbyski realloc-grow", "kcopyx malloc-entry", "sync malloc-ptab", "sync malloc-ktab", "sync malloc-segment",
                "sync realloc-first", "sync malloc-node", "sync malloc-entry"]
        missing = [n for n in need if not any(k.startswith(n + " ") for k in sites)]
        # a reallocation that GROWS a full PDU store (element capacity+1, 2*capacity+1, ...) refused, every kind
        for name in ("pdu4", "pdu6", "pduk"):
            if not any(k.startswith("sync store-grow-%s " % name) for k in sites):
                missing.append("sync store-grow-%s (a store growth realloc failed)" % name)
        # two-thread pairs
        for cls in ("padd+padd:same-rec:family-empty", "padd+padd:same-rec:node-absent", "padd+padd:same-rec:node-present",
                    "padd+padd:same-prefix:node-absent", "padd+padd:same-prefix:node-present", "padd+prm:same-rec:node-absent",
                    "padd+prm:same-prefix:node-present", "prm+prm:same-rec:rec-present", "kadd+kadd:same-rec:absent",
                    "kadd+krm:same-rec:present", "krm+krm:same-rec:present"):
            if not any(k.startswith(cls + " ") for k in pairs):
                missing.append("two-thread " + cls)
        # first add into an empty family: every request of that add refused once, both families
        for fam in (4, 6):
            v = first_empty[fam]
            if v["nreq"] < 1 or not set(range(v["nreq"])) <= v["refused"]:
                missing.append("first add into empty IPv%d family, k = 0..%d (refused: %s)" % (fam, v["nreq"] - 1, sorted(v["refused"])))
        rep.cov["coverage_gate_missing"] = missing
        if missing:
            rep.build_log = "generator did not reach: %s" % missing
            vlib.proof_failure(rep, "coverage gate of the C18 generator (allocation sites never refused)")

    # ---- verdicts: one replay per distinct failure class (crash signature / violated clause), corpus first
    seen_sig = set()
    shown = 0
    for x in bad_sessions:
        if shown >= 8:
            break
        if x["crashed"]:
            sig0 = "crash:" + crash_signature(x["err"])
        else:
            sig0 = x["fails"][0][0] + ":" + x["kind"]
        if sig0 in seen_sig and not str(x["hid"]).startswith("corpus:"):
            continue
        seen_sig.add(sig0)
        if x["crashed"]:
            ops = minimise(exe, sz, x["ops"], lambda o, c, e, j: c)
            out, crashed, err, j = replay(exe, sz, ops)
            sig = crash_signature(err)
            rep.violation("crash_%s" % shown, "# C18 / no crash: the implementation aborted (%s) when an allocation request was refused\n"
                          "# history %s (%s); replies before the abort: %d\n%s%s\n--- stderr ---\n%s\n" % (
                              sig, x["hid"], x["kind"], len(out), describe_ops(ops), "\n".join(ops), err[-3000:]),
                          signature="C18/" + sig)
            shown += 1
        else:
            clause, idx, msg = x["fails"][0]
            ops = minimise(exe, sz, x["ops"], lambda o, c, e, j: (not c) and any(f[0] == clause for f in j.fails))
            out, crashed, err, j = replay(exe, sz, ops)
            f = [f for f in j.fails if f[0] == clause]
            at = f[0][1] if f else 0
            rep.violation("oracle_%s" % shown, "# C18 / %s fails on the implementation: %s\n# history %s (%s); failing line %d: %s\n"
                          "# observed: %s\n%s%s\n" % (clause, f[0][2] if f else msg, x["hid"], x["kind"], at,
                                                      (ops[at] if at < len(ops) else "")[:200], (out[at] if at < len(out) else "")[:400],
                                                      describe_ops(ops), "\n".join(ops)), signature="C18/" + clause)
            shown += 1
    if divergences and not bad_sessions:
        x, d, a, b = divergences[0]
        rep.build_log = "history %s (%s) line %d: %s\n impl : %s\n model: %s\nops:\n%s" % (
            x["hid"], x["kind"], d, x["ops"][d] if d < len(x["ops"]) else "", a, b, "\n".join(x["ops"][:d + 1][-60:]))
        vlib.proof_failure(rep, "correspondence alloc (model RtrModel.Alloc vs trie-pfx.c / ht-spkitable.c / tommyhashlin.c / packets.c) diverges")
    if not proved and not bad_sessions and not divergences:
        vlib.proof_failure(rep, "\n".join(t for t, ok in rep.obligations.items() if not ok))
    return rep.finish()


def swap_pair(line):
    w = line.split()
    if "|" not in w:
        return line
    bar = w.index("|")
    return " ".join(w[:3] + w[bar + 1:] + ["|"] + w[3:bar])


def swap_codes(reply):
    w = reply.split(" ")
    if len(w) >= 2:
        w[0], w[1] = w[1], w[0]
    return " ".join(w)


def model_ops(x):
    """the op lines for the model driver: a `pair` whose outcome on the implementation is that of the order
    'second operation first' is given to the (sequential) model in that order"""
    ops = list(x["ops"])
    for i, order in x["pair_order"].items():
        if order == "BA" and i < len(ops):
            ops[i] = swap_pair(ops[i])
    return ops


def minimise(exe, sz, ops, pred):
    head = ops[0]

    def fails(idx):
        sub = [head] + [ops[i] for i in idx]
        out, crashed, err, j = replay(exe, sz, sub)
        return pred(out, crashed, err, j)
    idx = vlib.ddmin(list(range(1, len(ops))), fails, max_tests=120)
    return [head] + [ops[i] for i in idx]



def describe_ops(ops):
    """comment lines for a replay file: what the long lines say"""
    out = []
    for i, o in enumerate(ops):
        w = o.split()
        if w and w[0] == "sync" and len(w) == 4:
            try:
                items, sn = decode_items(w[3])
            except Exception:
                continue
            n = collections.Counter(k for k, _, _ in items)
            caps = ", ".join("%s store holds %s" % (k, v) for k, v in sorted(CAPS.items())) or "not measured"
            out.append("# line %d: rtr_sync (%s) on an answer with %d IPv4 prefix, %d IPv6 prefix and %d router key PDUs (capacity step: %s); %s"
                       % (i, "full reload" if w[2] == "1" else "incremental update", n["p4"], n["p6"], n["k"], caps,
                          "no request refused" if w[1] == "-" else "allocation request number %s (0-based) of the call is refused" % w[1]))
        elif w and w[0] == "pair":
            out.append("# line %d: the two operations run in two threads: the first one runs up to its first allocation request, then the "
                       "second one starts; the first waits there for the second to reach its own first request (or 120 ms), "
                       "the second lets the first finish" % i)
    return "\n".join(out) + ("\n" if out else "")


def replay_file(path):
    """./check --replay: the recorded request lines on the implementation built from the current tree (with the oracle) and
    on the model driver; exit 1 if the implementation aborts, the oracle fails or the two differ"""
    ops = []
    for l in open(path, errors="replace"):
        l = l.rstrip("\n")
        if l.startswith("--- "):
            break
        if l.strip() and not l.startswith("#"):
            ops.append(l.split("    => ")[0])
    if not ops:
        print(open(path, errors="replace").read())
        print("(no recorded input in this replay file: it names the proof obligation / correspondence that no longer checks)")
        return 1
    vlib.lake_build(["allocdriver"])
    drv = vlib.driver_path("allocdriver")
    exe, blog = build_harness()
    if exe is None or not os.path.exists(drv):
        print(blog)
        return 1
    sz = get_sizes(exe)
    CAPS.clear()
    CAPS.update(probe_caps(exe, sz) or {})
    ops = [setsizes_line(sz)] + [o for o in ops if not o.startswith("setsizes")]
    print(describe_ops(ops), end="")
    out, crashed, err, j = replay(exe, sz, ops)
    x = {"ops": ops, "pair_order": j.pair_order}
    mo, mrc, merr = vlib.run_lines(drv, model_ops(x), timeout=600)
    for i, o in enumerate(ops):
        print("%s\n    impl : %s\n    model: %s" % (o[:300], out[i][:300] if i < len(out) else "<no reply>",
                                                  mo[i][:300] if i < len(mo) else "<no reply>"))
    bad = 0
    if crashed:
        bad = 1
        print("implementation aborted after %d of %d replies\n%s" % (len(out), len(ops), err[-3000:]))
    for clause, idx, msg in j.fails:
        bad = 1
        print("C18 / %s FAILS at line %d (%s): %s" % (clause, idx, ops[idx][:80] if idx < len(ops) else "", msg))
    io = [canon(l) for l in out]
    for i, order in j.pair_order.items():
        if order == "BA" and i < len(io):
            io[i] = swap_codes(io[i])
    d = vlib.first_divergence(io, [canon(l) for l in mo])
    if d is not None and not crashed:
        bad = 1
        print("DIVERGENCE between implementation and model at line %d" % d)
    print("replay: %s" % ("FAILS" if bad else "passes on the current tree (oracle holds, implementation and model agree, no abort)"))
    return bad

if __name__ == "__main__":
    pid = sys.argv[1] if len(sys.argv) > 1 else "C18"
    tier = sys.argv[2] if len(sys.argv) > 2 else "quick"
    sys.exit(run(pid, tier))
