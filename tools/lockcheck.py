"""Checks C16 (readers/writers race-free and linearizable) and C06 (full reload atomic for readers).

  1. translate   tools/gen_locks.py: clang AST of the current source -> lean/RtrModel/Generated/Locks.lean
  2. prove       lake build RtrProps.C16 / C06 (generic theorems + `decide` over the generated table) + axiom audit;
                 lockdriver evaluates the checker per function so that a failure names function and access
  3. search      ThreadSanitizer build of harness/locks_harness.c against the current tree: N readers + 1 writer;
                 failing input = TSan race report / abort / an observation that is not the answer of any table
                 version inside its window (linearizability) or goes back in time (monotonicity; C06 two-state).
                 A successful full reload is ONE version step that replaces the prefix table and the router-key table
                 together; the `xtable` schedules (corpus/locks/*.xops) park a reader inside one live table while the
                 real reload runs and watch a second reader for "new data of one table, afterwards old data of the other"
  4. C06 size classes   reloads whose old and new router-key tables lie in different size classes of the hash table
                 (thresholds from TOMMY_HASHLIN_BIT and vlib.source_literals() of the tree under test), growing and
                 shrinking, one and several steps apart, also after the live table was shrunk by removals; readers
                 on the common keys during and after the swap, a sequential enumeration + look-up of every key after
                 each reload (`kcheck`), run under ThreadSanitizer and under AddressSanitizer; a coverage gate on the
                 MEASURED geometry of the live table fails the check when a required class was never exercised
"""
import os
import re
import shutil
import sys
import subprocess
import time

sys.path.insert(0, os.path.dirname(os.path.abspath(__file__)))
import vlib
import gen_locks

PROPS = {
    "C16": {
        "modules": ["RtrProps.C16"],
        "theorems": ["Rtr.C16.guarded_no_race", "Rtr.C16.single_writer_no_race", "Rtr.C16.wellLocked_sound",
                     "Rtr.C16.wellLockedProg_sound", "Rtr.C16.writes_only_under_W", "Rtr.C16.read_section_snapshot",
                     "Rtr.C16.reads_linearizable_partial", "Rtr.C16.api_wellLocked", "Rtr.C16.api_writes_guarded",
                     "Rtr.C16.readers_single_section", "Rtr.C16.record_writers_single_section", "Rtr.C16.readers_never_write", "Rtr.C16.readerProg_wellLocked",
                     "Rtr.C16.writerProg_wellLocked", "Rtr.C16.api_no_race", "Rtr.C16.api_reads_snapshot"],
    },
    "C06": {
        "modules": ["RtrProps.C06"],
        "theorems": ["Rtr.C06.reload_sequence", "Rtr.C06.reload_wellLocked", "Rtr.C06.readers_wellLocked",
                     "Rtr.C06.reload_single_swap_pfx", "Rtr.C06.reload_single_swap_spki", "Rtr.C06.readers_never_write",
                     "Rtr.C06.reload_two_states", "Rtr.C06.reload_monotone",
                     "Rtr.C06.never_new_then_old", "Rtr.C06.stable_answers", "Rtr.C06.reload_no_race",
                     # across the two tables (the reload swaps both in ONE critical section; until the fix of the former
                     # known finding C06/cross-table this list ended with cross_table_gap, the proof that it did not)
                     "Rtr.C06.unlocked_writers_translated", "Rtr.C06.swap_section_combined", "Rtr.C06.swap_atomic_both",
                     "Rtr.C06.swap_writes_both", "Rtr.C06.reload_accepts", "Rtr.C06.cross_table_atomic",
                     "Rtr.C06.cross_table_no_gap", "Rtr.C06.cross_table_two_states", "Rtr.C06.never_new_pfx_then_old_keys",
                     "Rtr.C06.never_new_keys_then_old_pfx", "Rtr.C06.stable_pair_answers", "Rtr.C06.sample_states"],
    },
}
# functions that are allowed to read without the lock (single-writer regime), must equal Rtr.C16.singleWriterOnly
SINGLE_WRITER_ONLY = {"spki_table_notify_diff"}
# functions whose lock discipline C06 depends on
C06_FNS = {"pfx_table_copy_except_socket", "pfx_table_notify_diff", "pfx_table_add", "pfx_table_remove",
           "pfx_table_validate_r", "pfx_table_validate", "pfx_table_for_each_ipv4_record", "pfx_table_for_each_ipv6_record",
           "spki_table_copy_except_socket", "spki_table_notify_diff", "spki_table_add_entry",
           "spki_table_remove_entry", "spki_table_get_all", "spki_table_search_by_ski", "rtr_swap_tables"}

TSAN_FLAGS = ["-O1", "-g", "-fsanitize=thread", "-fno-omit-frame-pointer", "-UNDEBUG"]
M64 = (1 << 64) - 1


# ------------------------------------------------------------------------------------------
# reference semantics (sets) used by the oracle
# ------------------------------------------------------------------------------------------

def fnv(words):
    h = 1469598103934665603
    for w in words:
        h ^= (w & 0xffffffff)
        h = (h * 1099511628211) & M64
    return h


def hash_pfx(r):
    ver, addr, mn, mx, asn, src = r
    if ver == 4:
        words = [4, addr]
    else:
        words = [6] + [(addr >> (96 - 32 * i)) & 0xffffffff for i in range(4)]
    return fnv(words + [mn, mx, asn, src])


def hash_key(k):
    asn, ski, spki, src = k
    return fnv([asn, ski, spki, src])


def covers(ver, paddr, plen, qaddr):
    w = 32 if ver == 4 else 128
    if plen == 0:
        return True
    return (paddr >> (w - plen)) == (qaddr >> (w - plen))


def validate(pfx, q):
    """(state, count, hash) of pfx_table_validate_r on the set `pfx`; state 0 VALID 1 NOT_FOUND 2 INVALID.
    reasons = records of the covering nodes in order of increasing length up to and including the first node
    holding a matching record (all covering records when none matches)"""
    ver, addr, qlen, asn = q
    cov = [r for r in pfx if r[0] == ver and r[2] <= qlen and covers(ver, r[1], r[2], addr)]
    if not cov:
        return (1, 0, 0)
    match_lens = [r[2] for r in cov if r[4] != 0 and r[4] == asn and qlen <= r[3]]
    if match_lens:
        lim = min(match_lens)
        rs = [r for r in cov if r[2] <= lim]
        return (0, len(rs), sum(hash_pfx(r) for r in rs) & M64)
    return (2, len(cov), sum(hash_pfx(r) for r in cov) & M64)


class World:
    """contents of the two live tables after every atomic step of the writer.  An operation is one step, except
    pfx_table_src_remove (one critical section per address family: IPv4 first): its intermediate state is table
    contents a reader can legitimately see.  `vend[k]` = index of the state after operation k.
    atomic_reload=True (what C06 demands and the check enforces): a successful reload is ONE step that replaces both
    tables.  atomic_reload=False adds the intermediate state "prefix table swapped, router-key table not yet" of a
    reload with two critical sections; it is used only to CLASSIFY a failure (a run that is consistent with the
    two-step reload but not with the atomic one shows exactly the cross-table gap)."""

    def __init__(self, atomic_reload=False):
        self.pfx = [frozenset()]
        self.keys = [frozenset()]
        self.kinds = ["init"]
        self.exp_rc = [0]
        self.vend = [0]
        self.step_kind = ["init"]       # per state: kind of the step that produced it
        self.atomic_reload = atomic_reload

    def push(self, p, k, kind):
        self.pfx.append(frozenset(p))
        self.keys.append(frozenset(k))
        self.step_kind.append(kind)

    def apply(self, op):
        p = set(self.pfx[-1])
        k = set(self.keys[-1])
        rc = 0
        kind = op[0]
        if kind == "add":
            if op[1] in p:
                rc = -2
            else:
                p.add(op[1])
            self.push(p, k, kind)
        elif kind == "rm":
            if op[1] in p:
                p.discard(op[1])
            else:
                rc = -3
            self.push(p, k, kind)
        elif kind == "srcrm":
            p4 = {r for r in p if not (r[5] == op[1] and r[0] == 4)}
            if p4 != p and any(r[5] == op[1] and r[0] == 6 for r in p):
                self.push(p4, k, "srcrm-v4")
            p = {r for r in p if r[5] != op[1]}
            self.push(p, k, kind)
        elif kind == "kadd":
            if op[1] in k:
                rc = -2
            else:
                k.add(op[1])
            self.push(p, k, kind)
        elif kind == "krm":
            if op[1] in k:
                k.discard(op[1])
            else:
                rc = -3
            self.push(p, k, kind)
        elif kind == "ksrcrm":
            k = {r for r in k if r[3] != op[1]}
            self.push(p, k, kind)
        elif kind == "kcheck":
            self.push(p, k, kind)      # sequential enumeration by the writing thread: no change
        elif kind == "reload":
            src, precs, krecs = op[1], op[2], op[3]
            np_ = [r[:5] + (src,) for r in precs]
            nk = [r[:3] + (src,) for r in krecs]
            if len(set(np_)) != len(np_) or len(set(nk)) != len(nk):
                rc = -1          # duplicate announcement inside the new set: reload fails, live tables untouched
                self.push(p, k, "reload-failed")
            else:
                p2 = {r for r in p if r[5] != src} | set(np_)
                k2 = {r for r in k if r[3] != src} | set(nk)
                if not self.atomic_reload and p2 != p and k2 != k:
                    self.push(p2, k, "reload-pfx-swapped")
                self.push(p2, k2, kind)
        self.kinds.append(kind)
        self.exp_rc.append(rc)
        self.vend.append(len(self.pfx) - 1)


def expected(world, cache, ver, pi, probe):
    key = (ver, pi)
    if key in cache:
        return cache[key]
    kind = probe[0]
    if kind == "v":
        res = validate(world.pfx[ver], probe[1])
    elif kind in ("e4", "e6"):
        fam = 4 if kind == "e4" else 6
        rs = [r for r in world.pfx[ver] if r[0] == fam]
        res = (0, len(rs), sum(hash_pfx(r) for r in rs) & M64)
    elif kind == "k":
        rs = [r for r in world.keys[ver] if r[0] == probe[1] and r[1] == probe[2]]
        res = (0, len(rs), sum(hash_key(r) for r in rs) & M64)
    else:
        rs = [r for r in world.keys[ver] if r[1] == probe[1]]
        res = (0, len(rs), sum(hash_key(r) for r in rs) & M64)
    cache[key] = res
    return res


# ------------------------------------------------------------------------------------------
# script generation
# ------------------------------------------------------------------------------------------

ASNS = [65001, 65002, 65003, 0]
V6A = 0x20010db8 << 96
V6B = (0x20010db8 << 96) | (1 << 80)


def hexaddr(ver, a):
    return ("%08x" % a) if ver == 4 else ("%032x" % a)


def rec_line(r, with_src=True):
    s = "%d %s %d %d %d" % (r[0], hexaddr(r[0], r[1]), r[2], r[3], r[4])
    return s + (" %d" % r[5] if with_src else "")


class Script:
    def __init__(self, name):
        self.name = name
        self.header = []
        self.probes = []       # parsed probes
        self.ops = []          # parsed writer ops (without pauses)
        self.lines = []        # op lines (text), grouped per op: list of lists

    def text(self):
        out = list(self.header)
        for p in self.probes:
            if p[0] == "v":
                q = p[1]
                out.append("probe v %d %s %d %d" % (q[0], hexaddr(q[0], q[1]), q[2], q[3]))
            elif p[0] in ("e4", "e6"):
                out.append("probe " + p[0])
            elif p[0] == "k":
                out.append("probe k %d %d" % (p[1], p[2]))
            else:
                out.append("probe s %d" % p[1])
        for grp in self.lines:
            out.extend(grp)
        return "\n".join(out) + "\n"

    def add_op(self, op):
        self.ops.append(op)
        kind = op[0]
        if kind in ("add", "rm"):
            self.lines.append(["%s %s" % (kind, rec_line(op[1]))])
        elif kind in ("srcrm", "ksrcrm"):
            self.lines.append(["%s %d" % (kind, op[1])])
        elif kind == "kcheck":
            self.lines.append(["kcheck"])
        elif kind in ("kadd", "krm"):
            self.lines.append(["%s %d %d %d %d" % ((kind,) + op[1])])
        elif kind == "reload":
            g = ["reload %d" % op[1]]
            for r in op[2]:
                g.append("r p " + rec_line(r, False))
            for k in op[3]:
                g.append("r k %d %d %d" % k[:3])
            g.append("endreload")
            self.lines.append(g)

    def add_pause(self, usec):
        self.lines.append(["pause %d" % usec])


def gen_script(r, name, nops, readers, reload_heavy=False):
    s = Script(name)
    s.header = ["readers %d" % readers, "minreads 300", "maxrec 60000"]
    # prefix universe: nested v4 families, two v6 prefixes (so that the v6 root flaps between NULL and non-NULL)
    fams = [0x0a000000, 0x0a010000, 0xc0a80000, 0x0a800000]
    v4 = []
    for f in fams:
        for ln in (8, 16, 24):
            v4.append((f & (0xffffffff << (32 - ln)) & 0xffffffff, ln))
    v4 = sorted(set(v4))
    v6 = [(V6A, 32), (V6B, 48)]

    def rnd_rec(fam=None):
        if fam is None:
            fam = 6 if r.random() < 0.2 else 4
        if fam == 4:
            a, ln = r.choice(v4)
            mx = r.choice([ln, min(32, ln + 8), 32])
        else:
            a, ln = r.choice(v6)
            mx = r.choice([ln, 64, 128])
        return (fam, a, ln, mx, r.choice(ASNS), r.randrange(3))

    def rnd_key():
        return (r.choice([65001, 65002, 65001 + 64]), r.choice([1, 2, 3]), r.choice([1, 2, 3]), r.randrange(3))

    # probes
    for f in fams[:3]:
        for qlen in (16, 24, 28):
            for asn in (65001, 65002):
                s.probes.append(("v", (4, (f | 0x00010100) & (0xffffffff << (32 - qlen)) & 0xffffffff, qlen, asn)))
    for qlen in (32, 48, 64):
        s.probes.append(("v", (6, V6B, qlen, 65001)))
        s.probes.append(("v", (6, V6A, qlen, 65002)))
    s.probes += [("e4",), ("e6",), ("e6",)]
    for asn in (65001, 65002, 65001 + 64):
        for ski in (1, 2):
            s.probes.append(("k", asn, ski))
    for ski in (1, 2, 3):
        s.probes.append(("s", ski))

    stored = []
    kstored = []
    live = World()
    _add_op = s.add_op

    def tracked_add_op(op):
        _add_op(op)
        live.apply(op)
    s.add_op = tracked_add_op
    for i in range(nops):
        # removals mostly target records that are in the table right now
        if live.pfx[-1] and r.random() < 0.7:
            stored = sorted(live.pfx[-1])
        if live.keys[-1] and r.random() < 0.7:
            kstored = sorted(live.keys[-1])
        x = r.random()
        if reload_heavy:
            x = x * 0.8 if x > 0.2 else 0.93 + x * 0.3
        if x < 0.33 or (not stored and x < 0.6):
            rec = rnd_rec()
            s.add_op(("add", rec))
            stored.append(rec)
        elif x < 0.36 and stored:
            s.add_op(("add", r.choice(stored)))
        elif x < 0.58 and stored:
            rec = r.choice(stored)
            s.add_op(("rm", rec))
        elif x < 0.61:
            s.add_op(("rm", rnd_rec()))
        elif x < 0.64:
            s.add_op(("srcrm", r.randrange(3)))
        elif x < 0.74:
            k = rnd_key()
            s.add_op(("kadd", k))
            kstored.append(k)
        elif x < 0.82 and kstored:
            s.add_op(("krm", r.choice(kstored)))
        elif x < 0.83:
            s.add_op(("ksrcrm", r.randrange(3)))
        elif x < 0.89:
            # flap the only v6 record: the v6 root goes NULL <-> non-NULL while readers enumerate
            rec = (6, V6A, 32, 48, 65001, 0)
            for _ in range(r.randrange(2, 5)):
                s.add_op(("add", rec))
                s.add_op(("rm", rec))
                s.add_op(("srcrm", 0)) if r.random() < 0.1 else None
        elif x < 0.92:
            s.add_pause(r.choice([20, 50, 200]))
        else:
            src = r.randrange(3)
            n = r.randrange(0, 9)
            precs = []
            for _ in range(n):
                rec = rnd_rec()
                if r.random() < 0.4 and stored:
                    rec = r.choice(stored)
                precs.append(rec[:5] + (src,))
            if r.random() < 0.85:
                precs = list(dict.fromkeys(precs))        # a valid new set has no duplicates
            krecs = list(dict.fromkeys([rnd_key()[:3] + (src,) for _ in range(r.randrange(0, 4))]))
            s.add_op(("reload", src, precs, krecs))
    return s


# ------------------------------------------------------------------------------------------
# C06: reloads across the size classes of the router-key hash table
# ------------------------------------------------------------------------------------------

SIZE_CLASSES = ["same", "grow+1", "grow+2..", "shrink-1", "shrink-2..", "grow-after-removal-shrink"]


def hashlin_bit():
    """initial size exponent of the linear hash table of the tree under test (TOMMY_HASHLIN_BIT); 6 when the define is gone"""
    try:
        src = open(os.path.join(vlib.REPO, "third-party", "tommyds", "tommyhashlin.h"), errors="replace").read()
        m = re.search(r"^\s*#\s*define\s+TOMMY_HASHLIN_BIT\s+\(?\s*(\d+)", src, re.M)
        if m and 2 <= int(m.group(1)) <= 12:
            return int(m.group(1))
    except OSError:
        pass
    return 6


def size_plan(r, tier):
    """total key counts of the live router-key table to walk through, as a list of walks; each walk is a list of
    ("reload", total) / ("srcrm",) steps.  The table doubles when the count exceeds half the bucket count
    (tommy_hashlin: count > bucket_max / 2, bucket_max = 2^TOMMY_HASHLIN_BIT at first), so the growth boundaries are
    g[j] = 2^(BIT-1+j); it halves step by step when removals bring the count under an eighth."""
    bit = hashlin_bit()
    nb = 4 if tier == "quick" else 7
    g = [1 << (bit - 1 + j) for j in range(nb)]
    cap = 2 * g[-1] + 1
    lits = sorted({v + d for v in vlib.source_literals()["ints"] if g[0] // 2 <= v <= cap for d in (-1, 0, 1)} -
                  {x + d for x in g for d in (-1, 0, 1)})
    lits = [v for v in lits if g[0] // 2 <= v <= cap]
    small = max(g[0] - 12, g[0] // 2)
    # walk 1: across every boundary, neighbouring sizes, up and down: 2^k-1 -> 2^k+1 -> 2^k
    w1 = []
    for x in g[:4]:
        w1 += [("reload", x - 1), ("reload", x + 1), ("reload", x)]
    # walk 2: several steps apart in both directions; then the live table is shrunk by removals (its directory keeps
    # the stale upper segments) before reloads that grow it again
    top = g[min(3, len(g) - 1)] + 1
    w2 = [("reload", small), ("reload", top), ("reload", g[0] + 1), ("reload", g[2] + 1), ("reload", g[0] - 1),
          ("reload", g[1] + 1), ("reload", g[1] + 2),
          ("reload", top), ("srcrm",), ("reload", top), ("srcrm",), ("reload", g[1] + 1), ("reload", g[0]),
          ("reload", g[2]), ("srcrm",), ("reload", g[0] + 1)]
    if lits:
        for v in r.sample(lits, min(3, len(lits))):
            w2.append(("reload", v))
    walks = [w1, w2]
    if tier != "quick":
        pool = sorted(set(lits + [x + d for x in g for d in (-1, 0, 1)] + [small]))
        for _ in range(14):
            w = []
            for _ in range(r.randrange(8, 20)):
                w.append(("srcrm",) if r.random() < 0.15 else ("reload", r.choice(pool if r.random() < 0.8 else pool[:12])))
            walks.append(w)
    return walks, {"TOMMY_HASHLIN_BIT": bit, "grow_boundaries": g, "literal_sizes": lits[:40]}


def gen_size_script(r, name, walk, readers=4):
    """reloads of source 0 whose router-key sets have the prescribed sizes (live table total = 3 keys of source 1 + set);
    a core of keys is in every set (common keys: their look-up has the same answer under old and new set), the rest
    is partly kept, partly fresh.  After every reload the writing thread enumerates the table (`kcheck`)."""
    s = Script(name)
    s.header = ["readers %d" % readers, "minreads 300", "maxrec 120000", "history 1"]

    def key(asn, j, src):
        return (asn, 1 + (asn * 31 + j * 7) % 255, 1 + (asn * 17 + j) % 255, src)

    others = [key(64700 + i, 0, 1) for i in range(3)]
    ncore = 10
    core = [key(64512 + i, 0, 0) for i in range(ncore - 1)] + [key(64512, 1, 0)]     # two core keys share an AS number
    fresh = [200000]

    def new_keys(n):
        out = []
        while len(out) < n:
            fresh[0] += r.choice([1, 1, 1, 2, 64, 4096])
            out.append(key(fresh[0], 0, 0))
            if r.random() < 0.12 and len(out) < n:
                out.append(key(fresh[0], 1, 0))       # same AS number, other SKI: same hash bucket
        return out

    pfx_fixed = [(4, 0x0a000000, 8, 16, 65001, 0), (6, V6A, 32, 48, 65001, 0)]
    pfx_var = [(4, 0x0a010000, 16, 24, 65002, 0), (4, 0xc0a80000, 16, 16, 65001, 0), (4, 0x0a000000, 8, 8, 65002, 0)]
    s.probes.append(("v", (4, 0x0a010100, 24, 65001)))
    s.probes.append(("v", (4, 0x0a010100, 24, 65002)))
    s.probes.append(("v", (6, V6A, 48, 65001)))
    s.probes.append(("e4",))
    for k in core + others:
        s.probes.append(("k", k[0], k[1]))
    for k in core[:4] + others[:1]:
        s.probes.append(("s", k[1]))

    for k in others:
        s.add_op(("kadd", k))
    s.add_op(("add", (4, 0x0a800000, 8, 24, 65003, 1)))
    varying = []
    sampled = []
    for step in walk:
        if step[0] == "srcrm":
            # this cache's keys are withdrawn one by one (spki_table_src_remove): the live table shrinks by removals
            s.add_op(("ksrcrm", 0))
            s.add_op(("kcheck",))
            varying = []
            continue
        n_a = max(ncore + 1, step[1] - len(others))
        keep_frac = r.choice([0.0, 0.3, 0.7, 1.0])
        kept = r.sample(varying, min(len(varying), int(len(varying) * keep_frac), n_a - ncore))
        varying = kept + new_keys(n_a - ncore - len(kept))
        varying = varying[:n_a - ncore]
        r.shuffle(varying)
        if len(sampled) < 14 and varying:
            k = r.choice(varying)
            if k not in sampled:
                sampled.append(k)
        krecs = list(core) + list(varying)
        r.shuffle(krecs)
        precs = pfx_fixed + [x for x in pfx_var if r.random() < 0.5]
        s.add_op(("reload", 0, precs, krecs))
        s.add_op(("kcheck",))
        s.add_pause(150)
    for k in sampled:
        s.probes.append(("k", k[0], k[1]))
        if len(s.probes) % 3 == 0:
            s.probes.append(("s", k[1]))
    return s


def parse_script(text, name):
    """corpus scripts: rebuild the parsed form from the text"""
    s = Script(name)
    cur = None
    for line in text.splitlines():
        w = line.split()
        if not w or w[0].startswith("#"):
            continue
        if w[0] in ("readers", "minreads", "maxrec", "history"):
            s.header.append(line)
        elif w[0] == "probe":
            if w[1] == "v":
                s.probes.append(("v", (int(w[2]), int(w[3], 16), int(w[4]), int(w[5]))))
            elif w[1] in ("e4", "e6"):
                s.probes.append((w[1],))
            elif w[1] == "k":
                s.probes.append(("k", int(w[2]), int(w[3])))
            else:
                s.probes.append(("s", int(w[2])))
        elif w[0] in ("add", "rm"):
            s.add_op((w[0], (int(w[1]), int(w[2], 16), int(w[3]), int(w[4]), int(w[5]), int(w[6]))))
        elif w[0] in ("srcrm", "ksrcrm"):
            s.add_op((w[0], int(w[1])))
        elif w[0] in ("kadd", "krm"):
            s.add_op((w[0], (int(w[1]), int(w[2]), int(w[3]), int(w[4]))))
        elif w[0] == "pause":
            s.add_pause(int(w[1]))
        elif w[0] == "kcheck":
            s.add_op(("kcheck",))
        elif w[0] == "reload":
            cur = ["reload", int(w[1]), [], []]
        elif w[0] == "r" and cur:
            if w[1] == "p":
                cur[2].append((int(w[2]), int(w[3], 16), int(w[4]), int(w[5]), int(w[6]), cur[1]))
            else:
                cur[3].append((int(w[2]), int(w[3]), int(w[4]), cur[1]))
        elif w[0] == "endreload" and cur:
            s.add_op(tuple(cur))
            cur = None
    return s


# ------------------------------------------------------------------------------------------
# running
# ------------------------------------------------------------------------------------------

def run_harness(exe, mode, script_text, tag, timeout=300):
    d = os.path.join(vlib.BUILD, "locks_run")
    os.makedirs(d, exist_ok=True)
    sp = os.path.join(d, "%s_%d.ops" % (tag, os.getpid()))
    with open(sp, "w") as f:
        f.write(script_text)
    logbase = os.path.join(d, "tsan_%s_%d" % (tag, os.getpid()))
    for fn in os.listdir(d):
        if fn.startswith(os.path.basename(logbase)):
            os.unlink(os.path.join(d, fn))
    env = dict(os.environ)
    env["TSAN_OPTIONS"] = "log_path=%s halt_on_error=0 report_signal_unsafe=0 exitcode=0 history_size=4" % logbase
    env.update(vlib.SAN_ENV)       # the AddressSanitizer build of the same harness (C06 size classes)
    errp = sp + ".err"
    try:
        with open(errp, "w") as ef:
            r = subprocess.run([exe, mode, sp], stdout=subprocess.PIPE, stderr=ef, text=True, env=env, timeout=timeout)
        out, rc = r.stdout, r.returncode
    except subprocess.TimeoutExpired as ex:
        out = ex.stdout.decode(errors="replace") if isinstance(ex.stdout, bytes) else (ex.stdout or "")
        rc = -999
    tsan = ""
    for fn in sorted(os.listdir(d)):
        if fn.startswith(os.path.basename(logbase)):
            tsan += open(os.path.join(d, fn), errors="replace").read()
            os.unlink(os.path.join(d, fn))
    err = ""
    try:
        with open(errp, errors="replace") as ef:
            data = ef.read()
        keep = [l for l in data.splitlines() if re.search(r"Assertion|ThreadSanitizer|AddressSanitizer|SEGV|DEADLYSIGNAL|runtime error|#\d+ ", l)]
        hist = [l for l in data.splitlines() if l.startswith("H ")]
        # operation history of the writing thread (scripts with `history 1`): the last steps before the end / the crash
        err = "\n".join(hist[-24:] + keep[:60])
        os.unlink(errp)
    except OSError:
        pass
    os.unlink(sp)
    return out.splitlines(), rc, tsan, err


def check_observations(script, out, stats, atomic_reload=False):
    """linearizability + monotonicity oracle.  returns list of (kind, message)"""
    world = World(atomic_reload)
    for op in script.ops:
        world.apply(op)
    nver = len(world.kinds) - 1
    fails = []
    cache = {}
    lo = {}
    count = stats is not None
    wl = [l for l in out if l.startswith("W ")]
    if len(wl) != nver:
        fails.append(("corr", "writer executed %d operations, script has %d" % (len(wl), nver)))
        return fails
    for l in wl:
        _, k, rc = l.split()
        k, rc = int(k), int(rc)
        kind = world.kinds[k]
        if count:
            stats["ops"][kind] = stats["ops"].get(kind, 0) + 1
            stats["rc"]["%s:%d" % (kind, rc)] = stats["rc"].get("%s:%d" % (kind, rc), 0) + 1
        if rc != world.exp_rc[k]:
            fails.append(("corr", "operation %d (%s) returned %d, set semantics says %d" % (k, kind, rc, world.exp_rc[k])))
            if any(kd.startswith("reload") and kd != "reload-failed" for kd in world.kinds[:k]):
                # the tables after a successful full reload are not "others + new set": the reload did not replace the cache's data
                fails.append(("reload", "after a successful full reload, operation %d (%s) returned %d where the table that holds exactly the "
                              "new data set returns %d: the reload left old records behind or lost new ones" % (k, kind, rc, world.exp_rc[k])))
    reload_ok = [False] * (nver + 1)     # operation k is a successful full reload
    for l in wl:
        _, k, rc = l.split()
        if world.kinds[int(k)] == "reload" and int(rc) == 0:
            reload_ok[int(k)] = True
    # sequential variant: after a reload the writing thread finds exactly the new data set (list side and hash side)
    for l in out:
        if not l.startswith("K "):
            continue
        k, nlist, hlist, nfound, hfound, hcount, buckets = [int(x) for x in l.split()[1:]]
        keys = world.keys[world.vend[k]]
        want = (len(keys), sum(hash_key(x) for x in keys) & M64)
        if count:
            stats["kchecks"] = stats.get("kchecks", 0) + 1
            stats["kcheck_keys"] = stats.get("kcheck_keys", 0) + len(keys)
        if (nlist, hlist & M64) != want or (nfound, hfound & M64) != want or hcount != want[0]:
            after_reload = any(reload_ok[:k + 1])
            fails.append(("reload" if after_reload else "corr",
                          "operation %d (kcheck, the writing thread alone): the router-key table must hold exactly the %d keys of "
                          "the data set (hash %d); spki_table_search_by_ski enumerates %d keys (hash %d), spki_table_get_all finds "
                          "%d of them again (hash %d), the hash table counts %d entries in %d buckets" % (
                              k, want[0], want[1], nlist, hlist & M64, nfound, hfound & M64, hcount, buckets)))
    # geometry of the live router-key hash table around every reload (measured by the harness)
    geo = {}
    for l in out:
        if l.startswith("G "):
            k, c0, b0, c1, b1 = [int(x) for x in l.split()[1:]]
            geo[k] = (c0, b0, c1, b1)
    during = {}
    for l in out:
        if not l.startswith("R "):
            continue
        _, tid, pi, a, b, st, cnt, h = l.split()
        tid, pi, a, b = int(tid), int(pi), int(a), int(b)
        res = (int(st), int(cnt), int(h))
        probe = script.probes[pi]
        va, vb = world.vend[a], world.vend[b]
        if count:
            stats["obs"] += 1
            stats["width"][min(b - a, 5)] = stats["width"].get(min(b - a, 5), 0) + 1
            stats["probe_kind"][probe[0]] = stats["probe_kind"].get(probe[0], 0) + 1
            cands = {expected(world, cache, j, pi, probe) for j in range(va, vb + 1)}
            if probe[0] in ("k", "s") and b > a and len(cands) == 1 and res[1] > 0:
                # a look-up of a common key (same non-empty answer under old and new set) that overlapped a reload
                for j in range(a + 1, b + 1):
                    if reload_ok[j]:
                        during[j] = during.get(j, 0) + 1
            if len(cands) > 1:
                stats["contended"].add((script.name, pi, a, b))
                if any(world.step_kind[j].startswith("reload") and
                       expected(world, cache, j, pi, probe) != expected(world, cache, j - 1, pi, probe)
                       for j in range(va + 1, vb + 1)):
                    stats["reload_contended"].add((script.name, pi, a, b))
        start = max(va, lo.get(tid, 0))
        found = None
        for j in range(start, vb + 1):
            if expected(world, cache, j, pi, probe) == res:
                found = j
                break
        if found is None:
            back = [j for j in range(va, min(start, vb + 1)) if expected(world, cache, j, pi, probe) == res]
            if back:
                fails.append(("mono", "reader %d probe %d %r: result %r is the answer for table state #%d (%s), but this reader had "
                              "already observed state #%d (%s) (window: operations %d..%d): new and afterwards old" % (
                                  tid, pi, probe, res, back[-1], world.step_kind[back[-1]], start, world.step_kind[start], a, b)))
            else:
                fails.append(("lin", "reader %d probe %d %r: result %r is not the answer for the table contents at any instant of "
                              "its window (operations %d..%d, expected one of %r)" % (
                                  tid, pi, probe, res, a, b, [expected(world, cache, j, pi, probe) for j in range(va, vb + 1)][:4])))
            if len(fails) > 20:
                break
        else:
            lo[tid] = found
    if count:
        # size classes exercised: a successful reload, with readers on common keys during it, with the sequential
        # enumeration right after it
        kchecked = {int(l.split()[1]) for l in out if l.startswith("K ")}
        prev_after = None
        for k in sorted(geo):
            c0, b0, c1, b1 = geo[k]
            removal_shrunk = prev_after is not None and b0 < prev_after
            prev_after = b1
            if not reload_ok[k] or b0 <= 0 or b1 <= 0:
                continue
            d = b1.bit_length() - b0.bit_length()
            cls = ("same" if d == 0 else "grow+1" if d == 1 else "grow+2.." if d > 1 else "shrink-1" if d == -1 else "shrink-2..")
            full = during.get(k, 0) > 0 and (k + 1) in kchecked
            for c in [cls] + (["grow-after-removal-shrink"] if d > 0 and removal_shrunk else []):
                # the coverage gate counts the generated size-class scripts only (not the corpus, not the random scripts)
                bucket = "size_classes" if script.name.startswith("size") else "size_classes_elsewhere"
                e = stats.setdefault(bucket, {}).setdefault(c, {"reloads": 0, "with_readers_and_kcheck": 0, "examples": []})
                e["reloads"] += 1
                if full:
                    e["with_readers_and_kcheck"] += 1
                    if len(e["examples"]) < 3:
                        e["examples"].append("%d keys/%d buckets -> %d keys/%d buckets" % (c0, b0, c1, b1))
            stats["reload_during_obs"] = stats.get("reload_during_obs", 0) + during.get(k, 0)
    return fails


def tsan_summary(tsan):
    sums = re.findall(r"SUMMARY: ThreadSanitizer: ([^\n]*)", tsan)
    return sorted(set(re.sub(r"\(.*?\)", "", s).strip() for s in sums))


def ir_diagnosis(drv, only=None):
    """evaluate the checker per public function through the driver: list of (function, clause, message)"""
    info = gen_locks_info()
    n = len(info["fns"])
    reqs = []
    for i in range(n):
        reqs += ["name %d" % i, "kind %d" % i, "strict %d" % i, "write %d" % i]
    out, rc, err = vlib.run_lines(drv, reqs)
    bad = []
    if rc != 0 or len(out) != len(reqs):
        return [("lockdriver", "driver", "driver failed: rc=%s %s" % (rc, err[-300:]))], {}
    table = {}
    for i in range(n):
        name, kind, strict, write = out[4 * i:4 * i + 4]
        table[name] = (kind, strict, write)
        # the table API, and the functions of packets.c that take table locks themselves (kind "other": rtr_swap_tables)
        if (kind != "public" and name not in set(info.get("reloadFns", []))) or (only is not None and name not in only):
            continue
        if strict != "ok" and name not in SINGLE_WRITER_ONLY:
            bad.append((name, "all accesses guarded (api_wellLocked)", strict))
        elif write != "ok":
            bad.append((name, "writes guarded (api_writes_guarded)", write))
    return bad, table


_INFO = {}


def gen_locks_info():
    return _INFO.get("info", {"fns": []})


def build_tsan_harness():
    return vlib.build_harness("locks", ["locks_harness.c"], exclude=["rtrlib/rtr/packets.c"], flags=TSAN_FLAGS,
                              cc="clang-14", variant="tsan")


def build_asan_harness():
    """the same harness under AddressSanitizer + UBSan (gcc): a stale or missing segment of the hash directory is a
    use-after-free / wild read there, where ThreadSanitizer may let it pass"""
    return vlib.build_harness("asanlocks", ["locks_harness.c"], exclude=["rtrlib/rtr/packets.c"], flags=vlib.SAN_FLAGS_NOALIGN,
                              variant="asan")


def corpus_files(ext):
    cdir = os.path.join(vlib.VERIF, "corpus", "locks")
    if not os.path.isdir(cdir):
        return []
    return [os.path.join(cdir, f) for f in sorted(os.listdir(cdir)) if f.endswith(ext)]


def minimise(exe, script, pred, max_tests=24, with_script=False):
    """ddmin over the op groups; pred(out, rc, tsan, err[, parsed script]) says whether the failure is still there (tried twice)"""
    def fails(groups):
        s2 = Script(script.name)
        s2.header, s2.probes, s2.lines = script.header, script.probes, groups
        extra = (parse_script(s2.text(), script.name),) if with_script else ()
        for _ in range(2):
            out, rc, tsan, err = run_harness(exe, "stress", s2.text(), "min", timeout=60)
            if pred(out, rc, tsan, err, *extra):
                return True
        return False
    groups = vlib.ddmin(list(script.lines), fails, max_tests=max_tests)
    s2 = Script(script.name)
    s2.header, s2.probes, s2.lines = script.header, script.probes, groups
    return s2.text()


# ------------------------------------------------------------------------------------------
# translator self-test: seeded lock defects must change the IR so that the checker rejects it
# ------------------------------------------------------------------------------------------

MUTANTS = [
    ("missing-unlock", "rtrlib/pfx/trie/trie-pfx.c",
     "\t\t\tif (pfx_table_find_elem(node->data, record, NULL)) {\n\t\t\t\tpthread_rwlock_unlock(&pfx_table->lock);\n",
     "\t\t\tif (pfx_table_find_elem(node->data, record, NULL)) {\n", "pfx_table_add"),
    ("access-moved-before-lock", "rtrlib/pfx/trie/trie-pfx.c",
     "\tpthread_rwlock_wrlock(&(pfx_table->lock));\n\tstruct trie_node *root = pfx_table_get_root(pfx_table, record->prefix.ver);\n\n\tunsigned int lvl = 0; // tree depth",
     "\tstruct trie_node *root = pfx_table_get_root(pfx_table, record->prefix.ver);\n\tpthread_rwlock_wrlock(&(pfx_table->lock));\n\n\tunsigned int lvl = 0; // tree depth",
     "pfx_table_remove"),
    ("swap-takes-one-lock", "rtrlib/pfx/trie/trie-pfx.c",
     "\tpthread_rwlock_wrlock(&(a->lock));\n\tpthread_rwlock_wrlock(&(b->lock));\n", "\tpthread_rwlock_wrlock(&(a->lock));\n",
     "pfx_table_swap"),
    ("list-head-read-before-lock", "rtrlib/spki/hashtable/ht-spkitable.c",
     "\tpthread_rwlock_rdlock(&spki_table->lock);\n\n\tcurrent_node = tommy_list_head(&spki_table->list);\n\twhile (current_node) {\n\t\tstruct key_entry *current_entry;",
     "\tcurrent_node = tommy_list_head(&spki_table->list);\n\tpthread_rwlock_rdlock(&spki_table->lock);\n\twhile (current_node) {\n\t\tstruct key_entry *current_entry;",
     "spki_table_search_by_ski"),
    ("write-lock-downgraded", "rtrlib/spki/hashtable/ht-spkitable.c",
     "\tpthread_rwlock_wrlock(&spki_table->lock);\n\n\tif (!tommy_hashlin_search(&spki_table->hashtable, spki_table->cmp_fp, &entry, hash)) {",
     "\tpthread_rwlock_rdlock(&spki_table->lock);\n\n\tif (!tommy_hashlin_search(&spki_table->hashtable, spki_table->cmp_fp, &entry, hash)) {",
     "spki_table_remove_entry"),
]


GATE_THEOREMS = ["Rtr.C16.api_wellLocked", "Rtr.C16.api_writes_guarded", "Rtr.C16.readers_single_section",
                 "Rtr.C16.record_writers_single_section", "Rtr.C16.readers_never_write"]


def gate(rep, pid):
    """Lock-discipline gate for the checks whose sequential theorems are claimed for tables shared between threads
    (C01, C02, C09, C10, C03): the lock IR is regenerated from the current source and the generated obligations
    'every access guarded', 'every read call and every single-record update is ONE critical section' are re-checked.
    Without them the sequential refinement says nothing about concurrent histories (a test-then-act split over two
    lock acquisitions keeps every access guarded and still loses updates).  True when the gate holds."""
    try:
        _INFO["info"] = gen_locks.main()
    except SystemExit as ex:
        rep.build_log = str(ex)
        vlib.proof_failure(rep, "lock-discipline gate: translator tools/gen_locks.py failed on the current source")
        return False
    sub = vlib.Report(pid, getattr(rep, "tier", "quick"))
    ok = vlib.prove(sub, ["RtrProps.C16"], GATE_THEOREMS)
    for t, v in sub.obligations.items():
        rep.obligations[t] = v
    rep.cov.setdefault("lock_gate", {})["theorems"] = GATE_THEOREMS
    if ok:
        return True
    diag = ""
    okd, dlog = vlib.lake_build(["lockdriver"])
    drv = vlib.driver_path("lockdriver")
    if okd and os.path.exists(drv):
        bad, table = ir_diagnosis(drv)
        diag = "".join("IR: %s violates '%s': %s\n" % b for b in bad)
        info = gen_locks_info()
        names = [f.get("name") if isinstance(f, dict) else str(f) for f in info.get("fns", [])]
        for fn in ("pfx_table_add", "pfx_table_remove", "spki_table_add_entry", "spki_table_remove_entry", "pfx_table_validate_r",
                   "pfx_table_validate", "pfx_table_for_each_ipv4_record", "pfx_table_for_each_ipv6_record", "spki_table_get_all",
                   "spki_table_search_by_ski"):
            if fn in names:
                out, rc, err = vlib.run_lines(drv, ["bound any %d" % names.index(fn)])
                if rc == 0 and out and out[0] != "1":
                    diag += "IR: %s takes a lock %s times per call (must be exactly one critical section)\n" % (fn, out[0])
    main_log = getattr(rep, "build_log", None)
    rep.build_log = diag + "\n" + getattr(sub, "build_log", "")
    vlib.proof_failure(rep, "lock-discipline gate (generated obligations of RtrProps/C16.lean over the lock IR of the current source):\n  " +
                       "\n  ".join(t for t in GATE_THEOREMS if not sub.obligations.get(t)))
    if main_log is not None:
        rep.build_log = main_log
    return False


def mutation_selftest():
    """returns (results, problems): results = {mutant: 'detected'|'pattern not found'|...}"""
    base = os.path.join(vlib.BUILD, "locks_mut")
    tree = os.path.join(base, "tree")
    shutil.rmtree(base, ignore_errors=True)
    os.makedirs(tree)
    for sub in ("rtrlib", "third-party"):
        shutil.copytree(os.path.join(vlib.REPO, sub), os.path.join(tree, sub),
                        ignore=shutil.ignore_patterns("*.o", "*.a", "*.so"))
    results, problems = {}, []
    for name, rel, old, new, fn in MUTANTS:
        path = os.path.join(tree, rel)
        orig = open(os.path.join(vlib.REPO, rel)).read()
        if orig.count(old) != 1:
            results[name] = "pattern not found (source changed; mutant skipped)"
            continue
        with open(path, "w") as f:
            f.write(orig.replace(old, new))
        lean = os.path.join(base, "Mut_%s.lean" % re.sub(r"\W", "_", name))
        try:
            gen_locks.generate(tree, lean, "Rtr.Generated.LocksMut")
        except SystemExit as ex:
            results[name] = "translator failed: %s" % str(ex)[:200]
            problems.append(name)
            with open(path, "w") as f:
                f.write(orig)
            continue
        with open(path, "w") as f:
            f.write(orig)
        with open(lean, "a") as f:
            f.write("\nopen Rtr.Locks Rtr.Generated.LocksMut in\n#eval IO.println (String.intercalate \"\\n\" "
                    "(publicFns.filterMap fun i => (diagnose true fns i).map "
                    "(fun m => \"MUT \" ++ ((fns[i]?.map (·.name)).getD \"?\") ++ \" :: \" ++ m)))\n")
        with vlib.Lock("lake"):
            r = vlib.sh(["lake", "env", "lean", lean], cwd=vlib.LEAN)
        flagged = re.findall(r"^MUT (\S+) :: (.*)$", r.stdout, re.M)
        if any(f[0] == fn for f in flagged):
            results[name] = "detected: " + [f[1] for f in flagged if f[0] == fn][0][:160]
        else:
            results[name] = "NOT detected (flagged: %s) %s" % ([f[0] for f in flagged], r.stdout[-300:].replace("\n", " "))
            problems.append(name)
    return results, problems


def run(pid, tier):
    t0 = time.time()
    rep = vlib.Report(pid, tier)
    P = PROPS[pid]
    rep.assumptions = [
        "POSIX rwlock semantics as modelled in RtrModel/Locks.lean (writer exclusive, readers shared)",
        "data race = two threads simultaneously about to perform conflicting accesses of one location",
        "distinct table parameters denote distinct tables; no other alias of table memory",
        "user callbacks (update_fp, for_each fp) do not touch table state",
        "gen_locks.py effect table for tommyds/libc entry points; freshly allocated objects are private until linked",
        "lifecycle functions (init/free) require exclusive ownership and are outside the theorems",
    ]
    # 1. translate
    try:
        _INFO["info"] = gen_locks.main()
    except SystemExit as ex:
        rep.build_log = str(ex)
        vlib.proof_failure(rep, "translator tools/gen_locks.py failed on the current source")
        return rep.finish()
    # 2. driver first (it only needs the model and the generated table), then the proofs
    okd, dlog = vlib.lake_build(["lockdriver"])
    proved = vlib.prove(rep, P["modules"], P["theorems"], extra_targets=[])
    if pid == "C06":
        import cfuncheck
        if pid in cfuncheck.LINKS and pid in cfuncheck.ENABLED:
            cfuncheck.link(rep, pid)     # translation tie of the handlers that decide between the live tables and the shadow tables
    drv = vlib.driver_path("lockdriver")
    ir_bad, ir_table = ([], {})
    if okd and os.path.exists(drv):
        ir_bad, ir_table = ir_diagnosis(drv, only=(C06_FNS if pid == "C06" else None))
    else:
        rep.build_log = (getattr(rep, "build_log", "") + "\nlockdriver build failed:\n" + dlog)[-6000:]
    ir_text = "".join("# IR: %s violates '%s': %s\n" % b for b in ir_bad)
    if pid == "C06":
        info = gen_locks_info()
        rc_names = [c[0] for c in (info.get("reloadCalls") or [])]
        split = [n for n in ("pfx_table_swap", "spki_table_swap") if n in rc_names]
        if split:
            ir_text += ("# IR: %s calls %s: each of them is a critical section of its own (the reload must put both shadow tables in "
                        "place inside ONE section that holds the write locks of both live tables)\n" % (gen_locks.RELOAD_FN, " and ".join(split)))
        if not info.get("reloadFns"):
            ir_text += ("# IR: no function of %s takes table locks itself (expected: rtr_swap_tables, the combined critical section "
                        "of the two swaps)\n" % gen_locks.RELOAD_FILE)
        for c in info.get("unlockedWriterCalls") or []:
            ir_text += "# IR: %s: %s calls the lock-free worker %s outside the translated code (no lock discipline checked there)\n" % tuple(c)

    # 3. implementation side
    exe, blog = build_tsan_harness()
    if exe is None:
        rep.build_log = blog
        vlib.proof_failure(rep, "ThreadSanitizer harness build against the current tree failed (locks_harness.c)")
        return rep.finish()

    stats = {"scripts": 0, "ops": {}, "rc": {}, "obs": 0, "width": {}, "probe_kind": {}, "contended": set(),
             "reload_contended": set(), "tsan_reports": 0, "crashes": 0, "corpus": 0, "xtable_runs": 0, "xtable_live": 0,
             "size_classes": {}, "size_scripts": 0, "asan_runs": 0}
    failures = []   # (kind, script, detail, tsan, err, exe)
    xlive = []      # stress runs in which a reader saw new prefixes with old router keys

    def run_script(script, tag, xe=None, san="ThreadSanitizer"):
        xe = xe or exe
        out, rc, tsan, err = run_harness(xe, "stress", script.text(), tag)
        stats["scripts"] += 1
        nrace = tsan.count("WARNING: ThreadSanitizer")
        stats["tsan_reports"] += nrace
        if rc != 0 or not out or out[-1] != "done":
            stats["crashes"] += 1
            failures.append(("crash", script, "harness (%s build) ended with rc=%s after %d lines" % (san, rc, len(out)), tsan, err, xe))
            return
        if nrace:
            failures.append(("race", script, "; ".join(tsan_summary(tsan)), tsan, err, xe))
        # the oracle: a successful reload replaces BOTH tables in one step
        fl = check_observations(script, out, stats if xe is exe else None, atomic_reload=True)
        if any(f[0] in ("mono", "lin") for f in fl):
            # classification only: the same observations against a reload that swaps the prefix table and the router-key
            # table in two steps.  Consistent with that one -> the failure is the gap between the two swaps.
            f2 = check_observations(script, out, None, atomic_reload=False)
            if not any(f[0] in ("mono", "lin") for f in f2):
                stats["xtable_live"] += 1
                xlive.append((script, [f for f in fl if f[0] in ("mono", "lin")][0][1]))
                fl = [(("xtable", m + "  [these observations fit a reload that replaces the prefix table and the router-key "
                        "table in two separate steps, and no reload that replaces both at once]") if k in ("mono", "lin") else (k, m))
                      for k, m in fl]
        for kind, msg in fl[:3]:
            failures.append((kind, script, msg, tsan, err, xe))

    # corpus first
    for path in corpus_files(".ops"):
        sc = parse_script(open(path).read(), "corpus:" + os.path.basename(path))
        stats["corpus"] += 1
        run_script(sc, "corpus")
    r = vlib.rng(pid)
    nscripts = {"quick": 6, "thorough": 120}[tier]
    nops = {"quick": 1200, "thorough": 3000}[tier]
    for i in range(nscripts):
        if failures and tier == "quick":
            break
        sc = gen_script(r, "gen%d" % i, nops, readers=r.choice([2, 4, 6]), reload_heavy=(pid == "C06" or i % 3 == 2))
        run_script(sc, "gen")

    # C06: reloads whose old and new router-key tables are in different size classes of the hash table
    gate_missing = []
    size_info = {}
    if pid == "C06" and not (failures and tier == "quick"):
        axe, alog = build_asan_harness()
        if axe is None:
            rep.build_log = alog
            vlib.proof_failure(rep, "AddressSanitizer harness build against the current tree failed (locks_harness.c)")
            return rep.finish()
        rs = vlib.rng(pid + "/sizes")
        walks, size_info = size_plan(rs, tier)
        for attempt in range(3):
            for i, walk in enumerate(walks):
                if failures and tier == "quick":
                    break
                sc = gen_size_script(rs, "size%d.%d" % (attempt, i), walk, readers=rs.choice([3, 4, 6]))
                stats["size_scripts"] += 1
                run_script(sc, "size")
                if not (failures and tier == "quick"):
                    stats["asan_runs"] += 1
                    run_script(sc, "asize", xe=axe, san="AddressSanitizer")
            gate_missing = [c for c in SIZE_CLASSES if stats["size_classes"].get(c, {}).get("with_readers_and_kcheck", 0) == 0]
            if failures or not gate_missing:
                break       # otherwise: a class was reached without an overlapping reader (scheduling); once more

    # C06: the cross-table schedules on the real reload path (a reader parked inside one live table while the reload runs)
    xt_lines = []
    xt_fail = []     # (tag, path, X line, message, tsan)
    if pid == "C06":
        for path in corpus_files(".xops"):
            out, rc, tsan, err = run_harness(exe, "xtable", open(path).read(), "xtable", timeout=60)
            stats["xtable_runs"] += 1
            xl = [l for l in out if l.startswith("X ")]
            line = xl[0] if xl else "(no result, rc=%s)" % rc
            xt_lines.append((path, line, tsan))
            kv = dict(w.split("=", 1) for w in line.split()[1:] if "=" in w) if xl else {}
            if not xl or rc != 0 or not out or out[-1] != "done":
                xt_fail.append(("xtable-hang", path, line, "the reload did not complete under this schedule (harness rc=%s%s): with a reader "
                                "inside one live table the synchronising thread must wait and then finish" % (
                                    rc, ", timeout: deadlock?" if rc == -999 else ""), tsan))
            elif kv.get("saw_new_pfx_with_old_keys") == "1":
                xt_fail.append(("xtable", path, line, "a reader validated a route against the NEW prefixes and afterwards looked up router "
                                "keys and got the OLD keys", tsan))
            elif kv.get("saw_new_keys_with_old_pfx") == "1":
                xt_fail.append(("xtable", path, line, "a reader looked up router keys, got the NEW keys, and afterwards validated a route "
                                "against the OLD prefixes", tsan))
            elif tsan.count("WARNING: ThreadSanitizer"):
                xt_fail.append(("race", path, line, "; ".join(tsan_summary(tsan)), tsan))
            elif kv.get("reload_rc") != "0" or kv.get("final_pfx") == kv.get("first_pfx") or kv.get("final_keys") == kv.get("first_keys"):
                xt_fail.append(("xtable-corr", path, line, "the scripted reload did not replace both tables (harness/script drift)", tsan))
            if kv.get("sync_parked_inside_pfx_section") == "1":
                stats["xtable_combined_section_seen"] = stats.get("xtable_combined_section_seen", 0) + 1

    rep.cov.update({
        "evaluations": stats["obs"],
        "distinct_nontrivial": len(stats["contended"]),
        "rule": "random writer scripts (add/remove/src_remove on both tables, v6-root flapping, full reloads through the real "
                "rtr_sync_receive_and_store_pdus) against 2-6 reader threads running validate_r / for_each / get_all / "
                "search_by_ski probes under ThreadSanitizer; every observation is checked against the set semantics of all "
                "table versions inside its window, monotone per reader; distinct_nontrivial = distinct observations whose "
                "window contains versions with different answers (the read really raced with a relevant update)" + (
                    "; C06 additionally: full reloads whose old and new router-key tables lie in different size classes of the hash "
                    "table (sizes 2^k-1, 2^k, 2^k+1 around the growth boundaries derived from TOMMY_HASHLIN_BIT, and source "
                    "literals +-1), one and several classes apart, growing and shrinking, also after a shrink by removals, with "
                    "readers on the common keys and a sequential enumeration + look-up of every key after each reload, under "
                    "ThreadSanitizer and AddressSanitizer; coverage gate on the measured bucket counts" if pid == "C06" else ""),
        "traces_validated_against_impl": stats["scripts"] - len({id(f[1]) for f in failures}),
        "distribution": {
            "scripts": stats["scripts"], "corpus": stats["corpus"], "writer_ops": stats["ops"], "return_codes": stats["rc"],
            "observations": stats["obs"], "window_width": {str(k): v for k, v in sorted(stats["width"].items())},
            "probe_kinds": stats["probe_kind"], "contended_observations": len(stats["contended"]),
            "reload_contended_observations": len(stats["reload_contended"]), "tsan_reports": stats["tsan_reports"],
            "crashes": stats["crashes"], "xtable_runs": stats["xtable_runs"],
            "stress_runs_with_cross_table_observation": stats["xtable_live"],
            "xtable_results": [xl for _p, xl, _t in xt_lines],
            "xtable_runs_with_sync_waiting_inside_combined_section": stats.get("xtable_combined_section_seen", 0),
            "size_class_scripts": stats["size_scripts"], "size_class_asan_runs": stats["asan_runs"],
            "size_class_plan": size_info, "size_classes": stats["size_classes"],
            "size_classes_in_corpus_and_random_scripts": {c: v["reloads"] for c, v in stats.get("size_classes_elsewhere", {}).items()},
            "kchecks": stats.get("kchecks", 0), "kcheck_keys": stats.get("kcheck_keys", 0),
            "common_key_lookups_overlapping_a_reload": stats.get("reload_during_obs", 0),
            "ir_functions": len(gen_locks_info().get("fns", [])), "ir_rewritten": gen_locks_info().get("changed"),
            "ir_violations": [list(b) for b in ir_bad],
        },
    })
    rep.cov["trusted_base"] = rep.cov.get("trusted_base", []) + [
        "tools/gen_locks.py (clang-14 JSON AST -> lock IR) incl. its extern effect table",
        "ThreadSanitizer (clang-14) as race detector of the implementation side"] + (
            ["AddressSanitizer (gcc) as memory-error detector of the size-class reloads"] if pid == "C06" else [])
    if ir_table:
        rep.sample({"ir_per_function": {k: v[1] if v[1] != "ok" else "ok" for k, v in list(ir_table.items())[:40]}})

    mut_results, mut_problems = ({}, [])
    if pid == "C16":
        mut_results, mut_problems = mutation_selftest()
        rep.cov["distribution"]["translator_selftest"] = mut_results

    # 4. verdicts
    seen_kinds = set()
    for kind, script, detail, tsan, err, fexe in failures:
        if kind in seen_kinds:
            continue
        seen_kinds.add(kind)
        if kind == "corr" or (kind in ("reload", "xtable") and pid != "C06"):
            continue      # what a full reload does to the data set, also across the two tables, is C06's clause
        text = script.text()
        if kind == "race" and tier == "quick":
            want = set(tsan_summary(tsan))
            text = minimise(fexe, script, lambda o, rc, t, e: bool(want & set(tsan_summary(t))))
        elif kind == "crash":
            text = minimise(fexe, script, lambda o, rc, t, e: rc != 0 or not o or o[-1] != "done",
                            max_tests=60 if script.name.startswith("size") else 24)
        elif kind in ("lin", "reload") and script.name.startswith("size"):
            def same_failure(o, rc, t, e, sm, kind=kind):
                if rc != 0 or not o or o[-1] != "done":
                    return False
                return any(f[0] == kind for f in check_observations(sm, o, None))
            text = minimise(fexe, script, same_failure, max_tests=40, with_script=True)
        if text != script.text():
            # operation history of the minimised script (what the writing thread did up to the failure)
            o2, rc2, t2, e2 = run_harness(fexe, "stress", text, "minhist", timeout=60)
            h2 = [l for l in e2.splitlines() if l.startswith("H ")]
            if h2:
                err = "\n".join(["(history of the minimised script)"] + h2 + [l for l in err.splitlines() if not l.startswith("H ")])
        clause = {"race": "no execution contains a data race on table state",
                  "crash": "the implementation aborted under concurrent use (assertion / signal)",
                  "lin": "every read returns the answer for the table contents at some instant between call and return",
                  "mono": "no reader observes the new set and afterwards the old one",
                  "xtable": "a reader sees either the complete old data set or the complete new one - prefixes AND router keys: "
                            "no reader observes new data of one table and afterwards old data of the other",
                  "reload": "a full reload replaces the cache's data: afterwards exactly the new data set is present"}[kind]
        full = rep.replay_path(kind) + ".full.ops"
        with open(full, "w") as f:
            f.write(script.text())
        rep.violation("xtable_stress" if kind == "xtable" else kind, "# property %s, clause: %s\n# %s\n%s# replay (schedule dependent, repeat if needed): TSAN_OPTIONS=log_path=/tmp/tsan "
                      "%s stress <this file>\n# unminimised script: %s\n# --- stderr of the implementation ---\n%s\n"
                      "%s\n# --- ThreadSanitizer excerpt ---\n%s\n" % (
                          pid, clause, detail, ir_text, os.path.relpath(fexe, vlib.VERIF), full, "\n".join("# " + l for l in ([l for l in err.splitlines() if l.startswith(("H ", "(history"))][-17:] +
                                                                [l for l in err.splitlines() if not l.startswith(("H ", "(history"))][:14])), text,
                          "\n".join("# " + l for l in tsan.splitlines()[:70])))
    corr = [f for f in failures if f[0] == "corr"]
    real = [f for f in failures if f[0] != "corr" and not (f[0] in ("reload", "xtable") and pid != "C06")]
    if pid == "C06":
        # ordinary oracle clause (until the repair of the reload this was the known finding C06/cross-table)
        shown = set()
        for tag, path, xl, msg, tsan in xt_fail:
            if tag == "xtable-corr" or (tag, path) in shown:
                continue
            shown.add((tag, path))
            park = "router-key" if "park=spki" in xl or "park=" not in xl else "prefix"
            rep.violation(tag + ("_" + os.path.basename(path).split(".")[0] if len(xt_fail) > 1 else ""),
                          "# property C06, clause: a reader sees either the complete old data set or the complete new one (prefixes AND\n"
                          "#   router keys): no reader observes new data of one table and afterwards old data of the other\n"
                          "# observed on the real reload path (rtr_sync_receive_and_store_pdus): %s\n"
                          "# schedule: a reader is inside a read section of the live %s table (read lock held) while the reload\n"
                          "# runs; a second reader alternately runs validate_r then get_all, and get_all then validate_r.\n"
                          "# (a reload that puts the two shadow tables in place in ONE critical section - write locks of both live\n"
                          "#  tables - cannot show this: Rtr.C06.cross_table_atomic, never_new_pfx_then_old_keys)\n"
                          "%s# %s\n# replay: %s xtable %s\n%s\n%s%s" % (
                              msg, park, ir_text, xl, os.path.relpath(exe, vlib.VERIF), path, open(path).read(),
                              "".join("# also seen without any parked reader, in stress script %s: %s\n" % (sc.name, m)
                                      for sc, m in xlive[:3]),
                              "\n".join("# " + l for l in tsan.splitlines()[:40])))
        real = real + [f for f in xt_fail if f[0] != "xtable-corr"]
        if any(f[0] == "xtable-corr" for f in xt_fail) and not real:
            rep.build_log = "\n".join("%s: %s (%s)" % (f[1], f[3], f[2]) for f in xt_fail)
            vlib.proof_failure(rep, "correspondence locks/xtable (the scripted cross-table schedule no longer runs as intended)")
    if pid == "C06" and gate_missing and not real and not corr:
        rep.build_log = "size classes exercised: %r\nplan: %r" % (stats["size_classes"], size_info)
        vlib.proof_failure(rep, "C06 coverage gate: no full reload with old and new router-key table in size class relation %s was "
                           "exercised with readers on common keys during the swap and the sequential enumeration after it "
                           "(sizes derived from TOMMY_HASHLIN_BIT / source literals of the tree under test)" % gate_missing)
    if corr and not real:
        rep.build_log = "\n".join(f[2] for f in corr[:5]) + "\n" + corr[0][1].text()[:3000]
        vlib.proof_failure(rep, "correspondence locks (set semantics of the writer operations vs trie-pfx.c / ht-spkitable.c)")
    if not proved and not real:
        rep.build_log = (ir_text + "\n" + getattr(rep, "build_log", ""))[-8000:]
        vlib.proof_failure(rep, "\n".join(t for t, ok in rep.obligations.items() if not ok) +
                           ("\n" + ir_text if ir_text else ""))
    elif ir_bad and proved and not real:
        rep.build_log = ir_text
        vlib.proof_failure(rep, "lockdriver reports IR violations although the theorems built (checker/driver drift)")
    if mut_problems:
        rep.build_log = "\n".join("%s: %s" % kv for kv in mut_results.items())
        vlib.proof_failure(rep, "translator self-test: seeded lock defects not detected by gen_locks.py + wellLocked: %s" % mut_problems)
    rep.cov["wall_check_s"] = round(time.time() - t0, 1)
    return rep.finish()


if __name__ == "__main__":
    pid = sys.argv[1]
    tier = sys.argv[2] if len(sys.argv) > 2 else "quick"
    sys.exit(run(pid, tier))
