"""Translator validation by trace replay (state machine).

The protocol harness is built a second time with -DXTRACE (harness/xtrace.h): every call the code of rtr.c makes to a function
that the translator treats as external is logged with its recorded arguments, its return value and the socket before and after.
State-machine conversations (the generator of the C08 check) are run on this build; for every run the log of the state-machine
thread is turned into a world (the external calls' answers in order) and the TRANSLATED `rtr_fsm_start` (iterated
`rtr_fsm_start.loop1.step`, lean/RtrModel/Generated/CFuns.lean) runs in it (`cfundriver fsm_replay`).  The calls it makes, their
recorded arguments and the socket at the moment of every call must be exactly the logged ones - and so must those of the
hand-written skeleton specification (RtrProofs/CLinkFsm.lean), which is proved equal to the translation.

    xtracecheck.run(rep, tier) -> True when every replayed run agrees

A run is compared up to the first call at which another thread (rtr_stop from the test's main thread) had written the socket in
between (the translated function is sequential); such truncations are counted.
"""
import os
import subprocess
import sys

sys.path.insert(0, os.path.dirname(os.path.abspath(__file__)))
import vlib

NFIELDS = 13


def parse_log(path):
    """-> {thread: [ {name, args, before, rc, aux, after} ]} in order of the begin records"""
    threads = {}
    open_calls = {}
    if not os.path.exists(path):
        return threads
    for line in open(path, errors="replace"):
        w = line.split()
        if not w:
            continue
        if w[0] == "X" and "|" in w:
            bar = w.index("|")
            tid, name, nargs = w[1], w[2], int(w[3])
            args = [int(x) for x in w[4:4 + nargs]]
            before = [int(x) for x in w[bar + 1:bar + 1 + NFIELDS]]
            rec = {"name": name, "args": args, "before": before if len(before) == NFIELDS else None, "rc": None, "aux": 0, "after": None}
            threads.setdefault(tid, []).append(rec)
            open_calls.setdefault(tid, []).append(rec)
        elif w[0] == "E" and "|" in w:
            bar = w.index("|")
            tid, name = w[1], w[2]
            st = open_calls.get(tid) or []
            if st and st[-1]["name"] == name:
                rec = st.pop()
                rec["rc"], rec["aux"] = int(w[3]), int(w[4])
                after = [int(x) for x in w[bar + 1:bar + 1 + NFIELDS]]
                rec["after"] = after if len(after) == NFIELDS else None
    return threads


def fsm_thread(threads):
    """the thread that runs rtr_fsm_start: the one that calls tr_open / rtr_sync / rtr_wait_for_sync"""
    best = None
    for tid, calls in threads.items():
        if any(c["name"] in ("tr_open", "rtr_sync", "rtr_wait_for_sync", "rtr_send_reset_query") for c in calls):
            if best is None or len(calls) > len(threads[best]):
                best = tid
    return best


def replay_op(calls, maxiter=400):
    """driver request for the completed prefix of the calls of the state-machine thread"""
    done = []
    for c in calls:
        if c["rc"] is None or c["before"] is None or c["after"] is None:
            break
        done.append(c)
    # the first call of the thread is pthread_setcancelstate(DISABLE) in rtr_fsm_start, before `state = RTR_CONNECTING` and the loop:
    # the replay starts at the loop, with that assignment made
    if not done or done[0]["name"] != "pthread_setcancelstate":
        return None, []
    s0 = list(done[0]["after"])
    s0[5] = 0
    done = done[1:]
    if not done:
        return None, []
    # rtr_fsm_start enters with state := CONNECTING after its first call... the first logged call is pthread_setcancelstate made
    # by rtr_fsm_start before the loop; the loop starts with the socket of the next call
    parts = []
    for c in done:
        parts.append("%d %d %s" % (c["rc"], c["aux"], " ".join(str(x) for x in c["after"])))
    return "fsm_replay %d %s ; %s" % (maxiter, " ".join(str(x) for x in s0), " ; ".join(parts)), done


def expected_trace(done):
    return ["%s %s | %s" % (c["name"], " ".join(str(a) for a in c["args"]), " ".join(str(x) for x in c["before"])) for c in done]


def compare(done, reply):
    """-> (status, detail): status in ok / truncated / mismatch / undefined"""
    parts = dict(p.split("=", 1) for p in reply.split(" model=", 1)[0:1] + (["model=" + reply.split(" model=", 1)[1]] if " model=" in reply else []))
    out = {}
    exp = expected_trace(done)
    for side in ("gen", "model"):
        v = parts.get(side)
        if v is None:
            return "mismatch", "no %s part in the driver reply: %s" % (side, reply[:200])
        if v.startswith("UNDEF"):
            return "undefined", "%s: the translated function has no defined result in this world" % side
        tr = v.split(" # ", 1)[1] if " # " in v else ""
        got = [t.strip() for t in tr.split("/")] if tr.strip() else []
        out[side] = got
    for side in ("gen", "model"):
        got = out[side]
        n = min(len(got), len(exp))
        for i in range(n):
            g, e = " ".join(got[i].split()), " ".join(exp[i].split())
            if g != e:
                # the same call with another socket: another thread wrote the socket (rtr_stop): compare the call only
                if g.split("|")[0].strip() == e.split("|")[0].strip():
                    return "truncated", "call %d (%s): socket written by another thread" % (i, e.split("|")[0].strip())
                return "mismatch", "%s call %d:\n   translated: %s\n   logged    : %s" % (side, i, g, e)
        if len(got) < len(exp):
            return "mismatch", "%s made %d calls, the real run made %d (next logged: %s)" % (side, len(got), len(exp), exp[len(got)])
    return "ok", ""


def run(rep, tier, cases_ops):
    """cases_ops: list of op-line lists (state-machine conversations for harness/rtr_harness.c).  Returns True when all agree."""
    import rtrcheck
    flags = vlib.SAN_FLAGS_NOALIGN + ["-DXTRACE"]
    exe, blog = vlib.build_harness("rtr", ["rtr_harness.c"], exclude=rtrcheck.EXCLUDE, flags=flags, variant="xtrace")
    # the driver takes the specifications from proof-free copies of the link modules (tools/gen_specs.py): it builds also when a link proof is broken
    subprocess.run([sys.executable, os.path.join(vlib.VERIF, "tools", "gen_specs.py")], stdout=subprocess.DEVNULL, stderr=subprocess.DEVNULL)
    ok, log = vlib.lake_build(["cfundriver"])
    drv = vlib.driver_path("cfundriver")
    info = rep.cov.setdefault("translator_validation", {})
    info["what"] = "real runs of rtr_fsm_start logged at every external call (harness -DXTRACE) and replayed on the translated state machine"
    if exe is None or not ok or not os.path.exists(drv):
        rep.build_log = (blog or "") + (log or "")
        vlib.proof_failure(rep, "translator validation: the XTRACE build of the protocol harness or cfundriver does not build")
        return False
    logdir = os.path.join(vlib.BUILD, "xtrace")
    os.makedirs(logdir, exist_ok=True)
    stats = {"runs": 0, "calls": 0, "ok": 0, "truncated": 0, "empty": 0}
    bad = []
    for k, ops in enumerate(cases_ops):
        lp = os.path.join(logdir, "x_%d_%d.log" % (os.getpid(), k))
        if os.path.exists(lp):
            os.remove(lp)
        out, rc, err = vlib.run_lines(exe, ops, env=dict(os.environ, XTRACE_OUT=lp, ASAN_OPTIONS="detect_leaks=0"))
        threads = parse_log(lp)
        tid = fsm_thread(threads)
        if os.path.exists(lp):
            os.remove(lp)
        if tid is None:
            stats["empty"] += 1
            continue
        req, done = replay_op(threads[tid])
        if req is None:
            stats["empty"] += 1
            continue
        reply, drc, derr = vlib.run_lines(drv, [req])
        stats["runs"] += 1
        stats["calls"] += len(done)
        if drc != 0 or len(reply) != 1:
            bad.append((ops, req, "driver failed: %s" % derr[-300:]))
            continue
        st, detail = compare(done, reply[0])
        if st in ("ok", "truncated"):
            stats[st] += 1
        else:
            bad.append((ops, req, st + ": " + detail))
    info.update(stats)
    if bad:
        ops, req, detail = bad[0]
        txt = ("# translator validation (trace replay): the TRANSLATED state machine does not make the calls the real rtr_fsm_start made\n"
               "# %s\n# conversation (harness/rtr_harness.c):\n%s\n# replay request for lean/.lake/build/bin/cfundriver:\n%s\n" % (detail, "\n".join(ops), req))
        rep.violation("xtrace", txt, no_input=False)
        return False
    return True


def gen_cases(tier, n=None):
    """state-machine conversations of the protocol generator (adaptive: they need the model driver)"""
    import rtrgen
    ok, log = vlib.lake_build(["rtrdriver"])
    drv = vlib.driver_path("rtrdriver")
    if not os.path.exists(drv):
        return []

    def run_model(ops):
        o, rc_, err_ = vlib.run_lines(drv, ops)
        return o
    n = n or {"quick": 60, "thorough": 1500}[tier]
    from concurrent.futures import ThreadPoolExecutor
    with ThreadPoolExecutor(max_workers=vlib.jobs()) as ex:
        cases = list(ex.map(lambda i: rtrgen.gen_fsm_case(vlib.rng("xtrace/fsm/%d" % i), run_model), range(n)))
    return [c.ops for c in cases]


def check(rep, tier):
    return run(rep, tier, gen_cases(tier))


if __name__ == "__main__":
    rep = vlib.Report("C08xtrace", "quick")
    n = int(sys.argv[1]) if len(sys.argv) > 1 else 40
    print(run(rep, "quick", gen_cases("quick", n)), rep.cov.get("translator_validation"))
    for p, ni in rep.violations:
        print("VIOLATION", p)
