"""RTR PDU construction / decoding (RFC 6810 / 8210) for the generators and oracles.  Independent of rtrlib."""
import struct

SERIAL_NOTIFY, SERIAL_QUERY, RESET_QUERY, CACHE_RESPONSE, IPV4_PREFIX, RESERVED, IPV6_PREFIX, EOD, CACHE_RESET, ROUTER_KEY, ERROR = range(11)
MAX_PDU_LEN = 3248

CORRUPT_DATA, INTERNAL_ERROR, NO_DATA_AVAIL, INVALID_REQUEST, UNSUPPORTED_PROTOCOL_VER, UNSUPPORTED_PDU_TYPE, \
    WITHDRAWAL_OF_UNKNOWN_RECORD, DUPLICATE_ANNOUNCEMENT, UNEXPECTED_PROTOCOL_VERSION = range(9)


def hdr(ver, typ, field16, length):
    return struct.pack(">BBHI", ver, typ, field16 & 0xffff, length & 0xffffffff)


def serial_notify(ver, sess, sn):
    return hdr(ver, SERIAL_NOTIFY, sess, 12) + struct.pack(">I", sn)


def cache_response(ver, sess):
    return hdr(ver, CACHE_RESPONSE, sess, 8)


def cache_reset(ver):
    return hdr(ver, CACHE_RESET, 0, 8)


def ipv4(ver, flags, plen, maxlen, addr, asn, zero=0):
    return hdr(ver, IPV4_PREFIX, 0, 20) + struct.pack(">BBBBII", flags, plen, maxlen, zero, addr, asn)


def ipv6(ver, flags, plen, maxlen, addr, asn, zero=0):
    return hdr(ver, IPV6_PREFIX, 0, 32) + struct.pack(">BBBB", flags, plen, maxlen, zero) + addr.to_bytes(16, "big") + struct.pack(">I", asn)


def router_key(ver, flags, ski, asn, spki, zero=0):
    assert len(ski) == 20 and len(spki) == 91
    return struct.pack(">BBBBI", ver, ROUTER_KEY, flags, zero, 123) + ski + struct.pack(">I", asn) + spki


def eod(ver, sess, sn, refresh=3600, retry=600, expire=7200):
    if ver == 0:
        return hdr(ver, EOD, sess, 12) + struct.pack(">I", sn)
    return hdr(ver, EOD, sess, 24) + struct.pack(">IIII", sn, refresh, retry, expire)


def error_report(ver, code, enc=b"", text=b""):
    body = struct.pack(">I", len(enc)) + enc + struct.pack(">I", len(text)) + text
    return hdr(ver, ERROR, code, 8 + len(body)) + body


def decode_stream(b):
    """split a byte string handed to the transport into PDUs; returns (list of dicts, leftover bytes)"""
    out = []
    while len(b) >= 8:
        ver, typ, f16, ln = struct.unpack(">BBHI", b[:8])
        if ln < 8 or ln > len(b):
            break
        p = {"ver": ver, "type": typ, "f16": f16, "len": ln, "raw": b[:ln]}
        body = b[8:ln]
        if typ == SERIAL_QUERY and ln == 12:
            p["sn"] = struct.unpack(">I", body)[0]
        if typ == ERROR and ln >= 16:
            el = struct.unpack(">I", body[:4])[0]
            p["enc_len"] = el
            if 4 + el + 4 <= len(body):
                p["enc"] = body[4:4 + el]
                tl = struct.unpack(">I", body[4 + el:8 + el])[0]
                p["text_len"] = tl
                p["text"] = body[8 + el:]
                p["consistent"] = (16 + el + tl == ln)
            else:
                p["consistent"] = False
        out.append(p)
        b = b[ln:]
    return out, b


def hexs(b):
    return b.hex()
