#!/usr/bin/env python3
"""Translator: declarations of rtrlib's CURRENT source tree -> lean/RtrModel/Generated/*.lean

    import gen_constants
    changed = gen_constants.regenerate()      # -> bool: True when a generated file was rewritten
                                              # raises gen_constants.GenError(log) when translation fails

Check modules call `regenerate()` first (before `vlib.prove`), so that every `lake build` is about what
the tree (`vlib.REPO`, env VERIF_REPO, default /repo) says *now*.  Unchanged trees cost one hash of the
sources (the result is cached under build/gen/ keyed by the content of every .c/.h file of the tree and
of this script); files are only rewritten when their content changes, so lake does not rebuild.

What is extracted, and how (trusted base: this script, clang-14's AST, gcc's evaluation of the probes)

  * NAMES and structure come from the source via `clang-14 -fsyntax-only -Xclang -ast-dump=json` of
    rtrlib/rtr/rtr.c, rtrlib/rtr_mgr.c, rtrlib/rtr/packets.c and a header-only unit:
      - every named `enum` (enumerator identifiers in declaration order),
      - every file-scope `static const <integer>` variable with an upper-case name (RTR_MAX_PDU_LEN,
        RTR_REFRESH_MIN, ... whatever the tree declares now),
      - every `struct pdu_*` defined in packets.c with its fields in order,
      - the bodies of `rtr_state_to_str` / `rtr_mgr_status_to_str`: recognised shapes are
            return T[p];                                              (unchecked index)
            if (c1 || c2 ...) return NULL; ... return T[p];           (guarded index)
        where every ci compares the parameter (possibly cast) with a constant expression.  Anything
        else is emitted as shape "unrecognised" (the C20 proofs then fail -- never a silent default).
  * VALUES come from compiled probes (`gcc`, same include path as the harness) that #include the .c
    file itself, so `static` data and private enums/structs are visible: enumerator values, constant
    values, `sizeof`/`offsetof` of every PDU struct field, signedness/width of the enum types, the
    contents of `socket_str_states` / `mgr_str_status` walked with their own `sizeof` (entries may be
    NULL), and the value of every constant operand of a guard (its source text is pasted into the
    probe, evaluated in the comparison type clang reports).

Output (namespace `Rtr.Gen`; names are predictable):
  Generated/Constants.lean   `RTR_MAX_PDU_LEN : Nat`, `RTR_REFRESH_MIN : Nat`, `TOMMY_HASHLIN_BIT`, `SKI_SIZE`, ...
                             per enum  `enum_<c name> : List (String × Int)`  (+ aliases `socketStates`,
                             `mgrStatus`, `rtrRtvals`, `pfxRtvals`, `spkiRtvals`, `pfxvStates`, `pduTypes`,
                             `pduErrorTypes`, `intervalModes`, `bgpsecRtvals`, `trRtvals`, `intervalRanges`,
                             `intervalTypes`) and one `<ENUMERATOR> : Int` per enumerator
  Generated/PduLayout.lean   `sizeof_pdu_ipv4 : Nat`, `offsetof_pdu_ipv4_prefix : Nat`, `fieldsize_pdu_ipv4_prefix`,
                             `layout_pdu_ipv4 : List (String × Nat × Nat)` (field, offset, size), `pduStructs`
  Generated/Names.lean       `socketStrStates / mgrStrStatus : List (Option String)`,
                             `stateToStrFn / mgrStatusToStrFn : NamesIR.ToStrFn`,
                             `stateToStrGuarded / mgrStatusToStrGuarded : Bool`
"""
import hashlib
import json
import os
import re
import subprocess
import sys

sys.path.insert(0, os.path.dirname(os.path.abspath(__file__)))
import vlib

GEN_DIR = os.path.join(vlib.LEAN, "RtrModel", "Generated")
WORK = os.path.join(vlib.BUILD, "gen", "consts")

UNITS = {
    "rtr": "rtrlib/rtr/rtr.c",
    "mgr": "rtrlib/rtr_mgr.c",
    "packets": "rtrlib/rtr/packets.c",
    "hdr": None,  # header-only unit, see HDR_INCLUDES
}
HDR_INCLUDES = ["rtrlib/bgpsec/bgpsec.h", "rtrlib/pfx/pfx.h", "rtrlib/spki/spkitable.h",
                "rtrlib/spki/spkitable_private.h", "rtrlib/transport/transport.h",
                "tommyds/tommyhashlin.h"]
# preprocessor constants (not visible in the AST); emitted when defined in the given unit
MACROS = [("rtr", "SKI_SIZE"), ("rtr", "SPKI_SIZE"), ("hdr", "TOMMY_HASHLIN_BIT"), ("hdr", "TOMMY_HASHLIN_BIT_MAX"),
          ("packets", "TEMPORARY_PDU_STORE_INCREMENT_VALUE"), ("packets", "MAX_SUPPORTED_PDU_TYPE"),
          ("hdr", "RTRLIB_TRANSPORT_CONNECT_TIMEOUT_DEFAULT")]
# friendly aliases for the enum lists
ENUM_ALIAS = {
    "rtr_socket_state": "socketStates", "rtr_mgr_status": "mgrStatus", "rtr_rtvals": "rtrRtvals",
    "pfx_rtvals": "pfxRtvals", "spki_rtvals": "spkiRtvals", "pfxv_state": "pfxvStates", "pdu_type": "pduTypes",
    "pdu_error_type": "pduErrorTypes", "rtr_interval_mode": "intervalModes", "rtr_bgpsec_rtvals": "bgpsecRtvals",
    "tr_rtvals": "trRtvals", "rtr_interval_range": "intervalRanges", "rtr_interval_type": "intervalTypes",
}
REQUIRED_ENUMS = ["rtr_socket_state", "rtr_mgr_status", "rtr_rtvals", "pfx_rtvals", "spki_rtvals", "pfxv_state",
                  "pdu_type", "pdu_error_type", "rtr_interval_mode", "rtr_bgpsec_rtvals"]
TOSTR = [  # (unit, function, lean prefix, table lean name)
    ("rtr", "rtr_state_to_str", "stateToStr", "socketStrStates"),
    ("mgr", "rtr_mgr_status_to_str", "mgrStatusToStr", "mgrStrStatus"),
]


class GenError(Exception):
    pass


def _inc():
    g = vlib._gen_include_dir()
    # rtr_mgr.h says `#include "config.h"`: fall back to the stand-in when the tree has not been configured
    return ["-I" + vlib.REPO, "-I" + os.path.join(vlib.REPO, "third-party"), "-I" + g, "-I" + os.path.join(g, "rtrlib")]


def _cflags():
    return ["-std=gnu99", "-w", "-D" + vlib.GUARD, "-D_GNU_SOURCE"] + _inc()


# ------------------------------------------------------------------------------------------
# clang AST helpers
# ------------------------------------------------------------------------------------------

def _annotate_files(node, cur):
    """clang's JSON prints "file" only when it differs from the previously printed location; walk the
    document in print order and store the effective file of every bare location as '_file'."""
    if isinstance(node, dict):
        if "offset" in node:
            if "file" in node:
                cur[0] = node["file"]
            node["_file"] = cur[0]
        for k, v in list(node.items()):
            if k == "includedFrom":
                continue
            if isinstance(v, (dict, list)):
                _annotate_files(v, cur)
    elif isinstance(node, list):
        for v in node:
            _annotate_files(v, cur)


def _bare(loc):
    """bare location of a (possibly macro) location: the expansion point"""
    if loc is None:
        return None
    if "expansionLoc" in loc:
        return loc["expansionLoc"]
    return loc if "offset" in loc else None


def _macro_end(data, off):
    """end offset of the macro invocation that starts at `off`: NAME or NAME( balanced )"""
    n = len(data)
    i = off
    while i < n and (chr(data[i]).isalnum() or data[i] == 0x5f):
        i += 1
    j = i
    while j < n and data[j] in b" \t":
        j += 1
    if j < n and data[j] == 0x28:
        depth = 0
        while j < n:
            if data[j] == 0x28:
                depth += 1
            elif data[j] == 0x29:
                depth -= 1
                if depth == 0:
                    return j + 1
            j += 1
        return None
    return i


def _src_text(node, srcs):
    """source text of an AST node (None when it cannot be located).  A node that begins or ends inside a macro
    expansion is taken to span whole macro invocations (clang reports only where an expansion starts)."""
    rb, re_ = node["range"].get("begin"), node["range"].get("end")
    b, e = _bare(rb), _bare(re_)
    if not b or not e or b.get("_file") != e.get("_file") or not b.get("_file"):
        return None
    f = b["_file"]
    if f not in srcs:
        try:
            srcs[f] = open(f, "rb").read()
        except OSError:
            return None
    if re_ is not None and "expansionLoc" in re_:
        end = _macro_end(srcs[f], e["offset"])
        if end is None:
            return None
    else:
        end = e["offset"] + e.get("tokLen", 0)
    return srcs[f][b["offset"]:end].decode(errors="replace")


def _qual(node):
    t = node.get("type", {})
    return t.get("desugaredQualType") or t.get("qualType") or ""


def _strip(n, implicit_only=False):
    """drop parentheses / implicit casts / ConstantExpr wrappers"""
    while True:
        k = n.get("kind")
        if k in ("ParenExpr", "ImplicitCastExpr", "ConstantExpr") and n.get("inner"):
            n = n["inner"][0]
            continue
        return n


def _refs_param(n, pid):
    if n.get("kind") == "DeclRefExpr" and n.get("referencedDecl", {}).get("id") == pid:
        return True
    return any(_refs_param(c, pid) for c in n.get("inner", []) if isinstance(c, dict))


def _is_null_return(n):
    if n.get("kind") == "CompoundStmt" and len(n.get("inner", [])) == 1:
        n = n["inner"][0]
    if n.get("kind") != "ReturnStmt" or not n.get("inner"):
        return False

    def has_null(x):
        if x.get("kind") == "ImplicitCastExpr" and x.get("castKind") == "NullToPointer":
            return True
        if x.get("kind") == "GNUNullExpr":
            return True
        return any(has_null(c) for c in x.get("inner", []) if isinstance(c, dict))
    return has_null(n["inner"][0])


CMP_FLIP = {"<": ">", "<=": ">=", ">": "<", ">=": "<=", "==": "==", "!=": "!="}


def _param_chain(n, pid):
    """n is the parameter operand of a comparison: a chain of casts around the DeclRefExpr of the
    parameter.  returns the list of types the value is converted through (outermost last) or None."""
    chain = []
    while True:
        k = n.get("kind")
        if k == "ParenExpr":
            n = n["inner"][0]
        elif k == "ImplicitCastExpr":
            ck = n.get("castKind")
            if ck == "LValueToRValue" or ck == "NoOp":
                pass
            elif ck == "IntegralCast":
                chain.append(_qual(n))
            else:
                return None
            n = n["inner"][0]
        elif k == "CStyleCastExpr":
            if n.get("castKind") not in ("IntegralCast", "NoOp"):
                return None
            chain.append(_qual(n))
            n = n["inner"][0]
        elif k == "DeclRefExpr":
            if n.get("referencedDecl", {}).get("id") != pid:
                return None
            chain.reverse()
            # consecutive duplicates are no-ops
            out = []
            for t in chain:
                if not out or out[-1] != t:
                    out.append(t)
            return out
        else:
            return None


def _cond_leaves(n):
    """split a condition on `||`"""
    m = _strip(n)
    if m.get("kind") == "BinaryOperator" and m.get("opcode") == "||":
        a = _cond_leaves(m["inner"][0])
        b = _cond_leaves(m["inner"][1])
        if a is None or b is None:
            return None
        return a + b
    if m.get("kind") == "BinaryOperator" and m.get("opcode") in CMP_FLIP:
        return [m]
    return None


def _const_param_text(n, consts):
    """n references (through casts) one parameter of a helper that the caller binds to a constant
    expression: C text of the value, or None.  consts: param id -> (param type, caller's argument text)"""
    casts = []
    while True:
        k = n.get("kind")
        if k == "ParenExpr":
            n = n["inner"][0]
        elif k == "ImplicitCastExpr":
            if n.get("castKind") == "IntegralCast":
                casts.append(_qual(n))
            elif n.get("castKind") not in ("LValueToRValue", "NoOp"):
                return None
            n = n["inner"][0]
        elif k == "CStyleCastExpr":
            if n.get("castKind") not in ("IntegralCast", "NoOp"):
                return None
            casts.append(_qual(n))
            n = n["inner"][0]
        elif k == "DeclRefExpr":
            pid = n.get("referencedDecl", {}).get("id")
            if pid not in consts:
                return None
            ty, txt = consts[pid]
            out = "((%s)(%s))" % (ty, txt)
            for c in reversed(casts):
                out = "((%s)%s)" % (c, out)
            return out
        else:
            return None


def _refs_any_param(n, ids):
    if n.get("kind") == "DeclRefExpr" and n.get("referencedDecl", {}).get("id") in ids:
        return True
    return any(_refs_any_param(c, ids) for c in n.get("inner", []) if isinstance(c, dict))


CMP_NEG = {"<": ">=", "<=": ">", ">": "<=", ">=": "<", "==": "!=", "!=": "=="}


def _negate_cond(n):
    """AST of the negation of a condition built from comparisons with && (De Morgan): a disjunction of comparisons, or None"""
    m = _strip(n)
    if m.get("kind") == "BinaryOperator" and m.get("opcode") == "&&":
        a, b = _negate_cond(m["inner"][0]), _negate_cond(m["inner"][1])
        if a is None or b is None:
            return None
        return {"kind": "BinaryOperator", "opcode": "||", "inner": [a, b]}
    if m.get("kind") == "BinaryOperator" and m.get("opcode") in CMP_NEG:
        c = dict(m)
        c["opcode"] = CMP_NEG[m["opcode"]]
        return c
    if m.get("kind") == "UnaryOperator" and m.get("opcode") == "!":
        inner = _strip(m["inner"][0])
        if _cond_leaves(inner) is not None:
            return inner
    return None


def _has_null(x):
    if x.get("kind") == "ImplicitCastExpr" and x.get("castKind") == "NullToPointer":
        return True
    if x.get("kind") == "GNUNullExpr":
        return True
    return any(_has_null(c) for c in x.get("inner", []) if isinstance(c, dict))


def _desugar_conditional_return(stmts):
    """`return c ? T[p] : NULL;` / `return c ? NULL : T[p];`  ==  `if (!c) return NULL; return T[p];` / `if (c) return NULL; return T[p];`"""
    if not stmts or stmts[-1].get("kind") != "ReturnStmt" or not stmts[-1].get("inner"):
        return stmts
    e = _strip(stmts[-1]["inner"][0])
    if e.get("kind") != "ConditionalOperator" or len(e.get("inner", [])) != 3:
        return stmts
    c, a, b = e["inner"]
    an, bn = _has_null(a) and _strip(a).get("kind") != "ArraySubscriptExpr", _has_null(b) and _strip(b).get("kind") != "ArraySubscriptExpr"
    if bn and not an:
        guard, val = _negate_cond(c), a
    elif an and not bn:
        guard, val = (c if _cond_leaves(c) is not None else None), b
    else:
        return stmts
    if guard is None:
        return stmts
    null_ret = {"kind": "ReturnStmt", "inner": [b if bn else a]}
    return stmts[:-1] + [{"kind": "IfStmt", "inner": [guard, null_ret]}, {"kind": "ReturnStmt", "inner": [val]}]


def _analyse_body(stmts, pid, srcs, table_ok, consts, res):
    """the two recognised shapes over a statement list.  pid: id of the value parameter; table_ok(node) ->
    name of the table or None; consts: parameters bound to constant expressions by the caller.
    fills res[guards], res[index_chain], res[table]; returns the final return expression when it is not an
    array element (possible delegation), else None.  res[shape] stays 'unrecognised' on any surprise."""
    if not stmts:
        res["why"] = "empty body"
        return None
    stmts = _desugar_conditional_return(stmts)
    last = stmts[-1]
    if last.get("kind") != "ReturnStmt" or not last.get("inner"):
        res["why"] = "last statement is not a return"
        return None
    guards = []
    for s in stmts[:-1]:
        if s.get("kind") != "IfStmt" or s.get("hasElse") or len(s.get("inner", [])) != 2:
            res["why"] = "statement before the return is not a plain if"
            return None
        cond, then = s["inner"]
        if not _is_null_return(then):
            res["why"] = "if-branch does not return NULL"
            return None
        leaves = _cond_leaves(cond)
        if leaves is None:
            res["why"] = "condition is not a disjunction of comparisons"
            return None
        for lf in leaves:
            a, b = lf["inner"]
            op = lf["opcode"]
            if _refs_param(a, pid) and not _refs_param(b, pid):
                pp, c = a, b
            elif _refs_param(b, pid) and not _refs_param(a, pid):
                pp, c, op = b, a, CMP_FLIP[op]
            else:
                res["why"] = "comparison does not have exactly one parameter side"
                return None
            chain = _param_chain(pp, pid)
            if chain is None:
                res["why"] = "parameter side is not a cast chain"
                return None
            cmp_type = _qual(pp)          # type of the operand after the usual arithmetic conversions
            if _qual(c) != cmp_type:
                res["why"] = "operand types differ after conversion (%s vs %s)" % (cmp_type, _qual(c))
                return None
            if _refs_any_param(c, set(consts)):
                txt = _const_param_text(c, consts)
                if not txt:
                    res["why"] = "constant side uses a parameter in an unsupported way"
                    return None
            else:
                if _contains_kind(c, ("DeclRefExpr",)) and _refs_nonconst_decl(c):
                    res["why"] = "constant side refers to a variable"
                    return None
                txt = _src_text(c, srcs)
            if not txt:
                res["why"] = "cannot locate the source text of a constant operand"
                return None
            guards.append({"op": op, "chain": res["prefix"] + chain, "cmp_type": cmp_type, "const_src": txt})
    res["guards"] = res["guards"] + guards
    e = _strip(last["inner"][0])
    if e.get("kind") != "ArraySubscriptExpr":
        return e
    base, idx = _strip(e["inner"][0]), e["inner"][1]
    tb = table_ok(base)
    if not tb:
        res["why"] = "array is not the name table"
        return None
    res["table"] = tb
    ch = _param_chain(idx, pid)
    if ch is None:
        res["why"] = "index is not the (cast) parameter"
        return None
    res["index_chain"] = res["prefix"] + ch
    res["shape"] = "guarded" if res["guards"] else "unchecked"
    return None


def _contains_kind(n, kinds):
    if n.get("kind") in kinds:
        return True
    return any(_contains_kind(c, kinds) for c in n.get("inner", []) if isinstance(c, dict))


def _refs_nonconst_decl(n):
    """does the expression mention a parameter or a non-constant variable? (enumerators, const arrays in
    sizeof and functions are fine)"""
    if n.get("kind") == "DeclRefExpr":
        rd = n.get("referencedDecl", {})
        if rd.get("kind") == "ParmVarDecl":
            return True
    return any(_refs_nonconst_decl(c) for c in n.get("inner", []) if isinstance(c, dict))


def _find_function(name, tu, srcs):
    """definition (FunctionDecl with a body) of `name`: in the given translation unit, else in the repo
    source file that defines it"""
    def in_tu(t):
        for n in t.get("inner", []):
            if n.get("kind") == "FunctionDecl" and n.get("name") == name and \
                    any(c.get("kind") == "CompoundStmt" for c in n.get("inner", [])):
                return n
        return None
    f = in_tu(tu)
    if f is not None:
        return f
    pat = re.compile(r"\b%s\s*\(" % re.escape(name))
    for rel in vlib.REPO_SOURCES:
        path = os.path.join(vlib.REPO, rel)
        try:
            txt = open(path, errors="replace").read()
        except OSError:
            continue
        if not pat.search(txt):
            continue
        r = subprocess.run(["clang-14", "-fsyntax-only", "-Xclang", "-ast-dump=json"] + _cflags() + [path],
                           stdout=subprocess.PIPE, stderr=subprocess.PIPE)
        if r.returncode != 0:
            continue
        t = json.loads(r.stdout)
        _annotate_files(t, [path])
        f = in_tu(t)
        if f is not None:
            return f
    return None


def analyse_tostr(fn, srcs, tu=None):
    """returns dict(shape, table, param_type, guards=[dict(op, chain=[types], cmp_type, const_src)],
    index_chain=[types], via=helper name or None).  One level of delegation
    `return helper(table, <constant expressions>, param);` is followed into the helper's body."""
    res = {"shape": "unrecognised", "table": None, "param_type": None, "guards": [], "why": "", "index_chain": [],
           "prefix": [], "via": None}
    parms = [c for c in fn.get("inner", []) if c.get("kind") == "ParmVarDecl"]
    body = [c for c in fn.get("inner", []) if c.get("kind") == "CompoundStmt"]
    if len(parms) != 1 or len(body) != 1:
        res["why"] = "unexpected signature"
        return res
    pid = parms[0]["id"]
    res["param_type"] = _qual(parms[0])

    def global_table(base):
        if base.get("kind") == "DeclRefExpr" and base.get("referencedDecl", {}).get("kind") == "VarDecl":
            return base["referencedDecl"]["name"]
        return None
    e = _analyse_body(body[0].get("inner", []), pid, srcs, global_table, {}, res)
    if e is None:
        return res
    # ---- delegation to a helper
    if e.get("kind") != "CallExpr" or tu is None:
        res["why"] = "return value is neither an array element nor a call"
        return res
    callee = _strip(e["inner"][0])
    if callee.get("kind") != "DeclRefExpr" or callee.get("referencedDecl", {}).get("kind") != "FunctionDecl":
        res["why"] = "indirect call"
        return res
    hname = callee["referencedDecl"]["name"]
    args = e["inner"][1:]
    helper = _find_function(hname, tu, srcs)
    if helper is None:
        res["why"] = "definition of helper %s not found" % hname
        return res
    hparms = [c for c in helper.get("inner", []) if c.get("kind") == "ParmVarDecl"]
    hbody = [c for c in helper.get("inner", []) if c.get("kind") == "CompoundStmt"]
    if len(hparms) != len(args) or len(hbody) != 1:
        res["why"] = "helper %s: unexpected signature" % hname
        return res
    tab_idx = val_idx = None
    consts = {}
    table = None
    for k, a in enumerate(args):
        st = _strip(a)
        if _refs_param(a, pid):
            ch = _param_chain(a, pid)
            if ch is None or val_idx is not None:
                res["why"] = "helper %s: parameter passed in an unsupported way" % hname
                return res
            val_idx = k
            res["prefix"] = ch if ch and ch[-1] == _qual(hparms[k]) else ch + [_qual(hparms[k])]
        elif global_table(st) and st.get("type", {}).get("qualType", "").endswith("]"):
            if tab_idx is not None:
                res["why"] = "helper %s: two tables" % hname
                return res
            tab_idx, table = k, global_table(st)
        else:
            if _refs_nonconst_decl(a):
                res["why"] = "helper %s: non-constant argument" % hname
                return res
            txt = _src_text(a, srcs)
            if not txt:
                res["why"] = "helper %s: cannot locate an argument" % hname
                return res
            consts[hparms[k]["id"]] = (_qual(hparms[k]), txt)
    if tab_idx is None or val_idx is None:
        res["why"] = "helper %s: table or value argument missing" % hname
        return res
    names_pid = hparms[tab_idx]["id"]

    def param_table(base):
        if base.get("kind") == "DeclRefExpr" and base.get("referencedDecl", {}).get("id") == names_pid:
            return table
        return None
    res["via"] = hname
    e2 = _analyse_body(hbody[0].get("inner", []), hparms[val_idx]["id"], srcs, param_table, consts, res)
    if e2 is not None:
        res["shape"] = "unrecognised"
        res["why"] = "helper %s does not return an array element" % hname
    if res["shape"] == "unrecognised":
        res["guards"] = []
        res["table"] = res["table"] or table
    elif not res["why"]:
        res["why"] = "via helper %s" % hname
    return res


# ------------------------------------------------------------------------------------------
# extraction
# ------------------------------------------------------------------------------------------

INT_TYPE = re.compile(r"^(const\s+)?(unsigned |signed )?(char|short|int|long|long long|uint\d+_t|int\d+_t|size_t|"
                      r"unsigned|__uint\d+_t|__int\d+_t)(\s+const)?$")


def _unit_source(unit):
    if UNITS[unit]:
        return '#include "%s"\n' % UNITS[unit]
    return "".join('#include "%s"\n' % h for h in HDR_INCLUDES)


def _ast(unit):
    os.makedirs(WORK, exist_ok=True)
    src = os.path.join(WORK, "ast_%s.c" % unit)
    with open(src, "w") as f:
        f.write(_unit_source(unit))
    return src, subprocess.Popen(["clang-14", "-fsyntax-only", "-Xclang", "-ast-dump=json"] + _cflags() + [src],
                                 stdout=subprocess.PIPE, stderr=subprocess.PIPE)


def _collect(unit, tu, info):
    """walk the top level of one translation unit"""
    main_file = os.path.join(vlib.REPO, UNITS[unit]) if UNITS[unit] else None
    root = os.path.realpath(vlib.REPO) + os.sep
    for n in tu.get("inner", []):
        k = n.get("kind")
        b = _bare(n.get("loc"))
        if not b or not os.path.realpath(b.get("_file") or "/").startswith(root):
            continue            # declarations of system headers are not ours
        if k == "EnumDecl" and n.get("name"):
            names = [c["name"] for c in n.get("inner", []) if c.get("kind") == "EnumConstantDecl"]
            if names and n["name"] not in info["enums"]:
                info["enums"][n["name"]] = {"unit": unit, "names": names}
        elif k == "VarDecl" and n.get("storageClass") == "static" and re.match(r"^[A-Z][A-Z0-9_]*$", n.get("name", "")):
            q = _qual(n)
            if "const" in q and INT_TYPE.match(q.strip()) and n["name"] not in info["consts"]:
                info["consts"][n["name"]] = {"unit": unit, "type": q}
        elif k == "RecordDecl" and unit == "packets" and n.get("completeDefinition") and \
                n.get("name", "").startswith("pdu_") and n.get("tagUsed") == "struct":
            b = _bare(n.get("loc"))
            if b and b.get("_file") == main_file:
                fields = []
                for c in n.get("inner", []):
                    if c.get("kind") == "FieldDecl" and c.get("name"):
                        fields.append({"name": c["name"], "type": _qual(c), "bitfield": bool(c.get("isBitfield")),
                                       "flex": _qual(c).endswith("[]")})
                info["structs"][n["name"]] = fields
        elif k == "FunctionDecl":
            for (u, fname, _p, _t) in TOSTR:
                if u == unit and n.get("name") == fname and any(c.get("kind") == "CompoundStmt" for c in n.get("inner", [])):
                    info["tostr"][fname] = analyse_tostr(n, info["srcs"], tu)


def _hexs(s):
    return s.encode().hex()


def _probe_source(unit, info, exprs):
    """C text of the probe of one unit.  exprs: list of (id, cmp_type, source text) evaluated here"""
    L = [_unit_source(unit), "#include <stdio.h>\n#include <stddef.h>\n#include <string.h>\n",
         "static void pr_hex(const char *s){ for (; *s; s++) printf(\"%02x\", (unsigned char)*s); }\n",
         "#define TYPEINFO(id, T) printf(\"type %s %zu %d\\n\", id, sizeof(T) * 8, ((T)-1 < (T)0))\n",
         "int main(void)\n{\n"]
    for en, e in info["enums"].items():
        if e["unit"] != unit:
            continue
        L.append('\tprintf("enumtype %s %%zu %%d\\n", sizeof(enum %s) * 8, ((enum %s)-1 < (enum %s)0));\n' % (en, en, en, en))
        for nm in e["names"]:
            L.append('\tprintf("enum %s %s %%lld\\n", (long long)%s);\n' % (en, nm, nm))
    for cn, c in info["consts"].items():
        if c["unit"] == unit:
            L.append('\tprintf("const %s %%lld\\n", (long long)%s);\n' % (cn, cn))
    for (u, m) in MACROS:
        if u == unit:
            L.append('#ifdef %s\n\tprintf("const %s %%lld\\n", (long long)(%s));\n#endif\n' % (m, m, m))
    if unit == "packets":
        for sn, fields in info["structs"].items():
            L.append('\tprintf("sizeof %s %%zu\\n", sizeof(struct %s));\n' % (sn, sn))
            for f in fields:
                if f["bitfield"]:
                    continue
                size = "(size_t)0" if f["flex"] else "sizeof(((struct %s *)0)->%s)" % (sn, f["name"])
                L.append('\tprintf("field %s %s %%zu %%zu\\n", offsetof(struct %s, %s), %s);\n' % (
                    sn, f["name"], sn, f["name"], size))
    for (u, fname, _p, _t) in TOSTR:
        if u != unit or fname not in info["tostr"]:
            continue
        t = info["tostr"][fname]
        if t["table"]:
            tb = t["table"]
            L.append('\tfor (size_t i = 0; i < sizeof(%s) / sizeof(%s[0]); i++) {\n' % (tb, tb))
            L.append('\t\tprintf("table %s %%zu ", i);\n' % tb)
            L.append('\t\tif (%s[i]) { printf("S"); pr_hex(%s[i]); } else printf("NULL");\n' % (tb, tb))
            L.append('\t\tprintf("\\n");\n\t}\n')
            L.append('\tprintf("tablelen %s %%zu\\n", sizeof(%s) / sizeof(%s[0]));\n' % (tb, tb, tb))
    for (tid, ty) in exprs["types"]:
        L.append('\tTYPEINFO("%s", %s);\n' % (tid, ty))
    for (eid, ty, txt) in exprs["exprs"]:
        L.append('\tif (((%s)-1 < (%s)0)) printf("expr %s %%lld\\n", (long long)(%s)(%s));\n'
                 '\telse printf("expr %s %%llu\\n", (unsigned long long)(%s)(%s));\n' % (ty, ty, eid, ty, txt, eid, ty, txt))
    L.append("\treturn 0;\n}\n")
    return "".join(L)


def _run_probe(unit, text):
    src = os.path.join(WORK, "probe_%s.c" % unit)
    exe = os.path.join(WORK, "probe_%s" % unit)
    with open(src, "w") as f:
        f.write(text)
    r = vlib.sh(["gcc", "-O1", "-no-pie", "-ffunction-sections", "-fdata-sections"] + _cflags() +
                [src, "-o", exe, "-Wl,--gc-sections", "-Wl,--unresolved-symbols=ignore-all", "-lpthread"])
    if r.returncode != 0:
        return None, "probe %s does not compile:\n%s" % (unit, r.stdout[-3000:])
    r = subprocess.run([exe], stdout=subprocess.PIPE, stderr=subprocess.PIPE, text=True, timeout=30)
    if r.returncode != 0:
        return None, "probe %s failed rc=%s %s" % (unit, r.returncode, r.stderr[-1000:])
    return r.stdout.splitlines(), ""


def extract():
    """returns the complete extraction as a dict (raises GenError)"""
    info = {"enums": {}, "consts": {}, "structs": {}, "tostr": {}, "srcs": {}}
    procs = {u: _ast(u) for u in UNITS}
    for u, (src, p) in procs.items():
        out, err = p.communicate()
        if p.returncode != 0:
            raise GenError("clang-14 failed on unit %s:\n%s" % (u, err.decode(errors="replace")[-3000:]))
        tu = json.loads(out)
        _annotate_files(tu, [src])
        _collect(u, tu, info)
    for en in REQUIRED_ENUMS:
        if en not in info["enums"]:
            raise GenError("enum %s not found in the current tree" % en)
    for (u, fname, _p, _t) in TOSTR:
        if fname not in info["tostr"]:
            raise GenError("function %s not found in %s" % (fname, UNITS[u]))

    # guard operands / types to be evaluated by the probes
    per_unit = {u: {"types": [], "exprs": []} for u in UNITS}
    for (u, fname, _p, _t) in TOSTR:
        t = info["tostr"][fname]
        per_unit[u]["types"].append(("%s.param" % fname, t["param_type"]))
        for ci, ty in enumerate(t.get("index_chain", [])):
            per_unit[u]["types"].append(("%s.idx.c%d" % (fname, ci), ty))
        for gi, g in enumerate(t["guards"]):
            for ci, ty in enumerate(g["chain"]):
                per_unit[u]["types"].append(("%s.g%d.c%d" % (fname, gi, ci), ty))
            per_unit[u]["types"].append(("%s.g%d.cmp" % (fname, gi), g["cmp_type"]))
            per_unit[u]["exprs"].append(("%s.g%d.const" % (fname, gi), g["cmp_type"], g["const_src"]))

    vals = {"enumtype": {}, "enum": {}, "const": {}, "sizeof": {}, "field": {}, "table": {}, "tablelen": {},
            "type": {}, "expr": {}}
    for u in UNITS:
        lines, log = _run_probe(u, _probe_source(u, info, per_unit[u]))
        if lines is None:
            # a guard operand that does not evaluate stand-alone makes the shape unrecognised, not the run fail
            if per_unit[u]["exprs"]:
                for (uu, fname, _p, _t) in TOSTR:
                    if uu == u:
                        info["tostr"][fname]["shape"] = "unrecognised"
                        info["tostr"][fname]["why"] = "guard operand does not evaluate in the probe"
                        info["tostr"][fname]["guards"] = []
                        info["tostr"][fname]["index_chain"] = []
                per_unit[u] = {"types": [t for t in per_unit[u]["types"] if t[0].endswith(".param")], "exprs": []}
                lines, log = _run_probe(u, _probe_source(u, info, per_unit[u]))
            if lines is None:
                raise GenError(log)
        for ln in lines:
            w = ln.split()
            if w[0] == "enumtype":
                vals["enumtype"][w[1]] = (int(w[2]), w[3] == "1")
            elif w[0] == "enum":
                vals["enum"].setdefault(w[1], []).append((w[2], int(w[3])))
            elif w[0] == "const":
                vals["const"][w[1]] = int(w[2])
            elif w[0] == "sizeof":
                vals["sizeof"][w[1]] = int(w[2])
            elif w[0] == "field":
                vals["field"].setdefault(w[1], []).append((w[2], int(w[3]), int(w[4])))
            elif w[0] == "table":
                s = None if w[3] == "NULL" else bytes.fromhex(w[3][1:]).decode(errors="replace")
                vals["table"].setdefault(w[1], []).append(s)
            elif w[0] == "tablelen":
                vals["tablelen"][w[1]] = int(w[2])
            elif w[0] == "type":
                vals["type"][w[1]] = (int(w[2]), w[3] == "1")
            elif w[0] == "expr":
                vals["expr"][w[1]] = int(w[2])
    info["vals"] = vals
    return info


# ------------------------------------------------------------------------------------------
# Lean emission
# ------------------------------------------------------------------------------------------

def _lstr(s):
    return '"' + s.replace("\\", "\\\\").replace('"', '\\"') + '"'


def _lint(v):
    return str(v) if v >= 0 else "(%d)" % v


HEADER = ("/-\n  GENERATED by tools/gen_constants.py from the current rtrlib source tree -- do not edit.\n"
          "  %s\n-/\n")


def emit(info):
    """returns {filename: content}"""
    v = info["vals"]
    used = set()
    # ---- Constants
    C = [HEADER % "Constants and enumerations (names from the clang AST, values from a compiled probe).",
         "namespace Rtr.Gen\n\n"]
    C.append("/-! ### integer constants (`static const` variables and macros) -/\n")
    for cn in sorted(v["const"]):
        val = v["const"][cn]
        C.append("def %s : %s := %s\n" % (cn, "Nat" if val >= 0 else "Int", _lint(val)))
        used.add(cn)
    C.append("\n/-- every extracted constant by name -/\ndef constants : List (String × Int) :=\n  [%s]\n" % ",\n   ".join(
        "(%s, %s)" % (_lstr(cn), _lint(v["const"][cn])) for cn in sorted(v["const"])))
    C.append("\n/-! ### enumerations: `(enumerator identifier, value)` in declaration order -/\n")
    for en in sorted(info["enums"]):
        if en not in v["enum"]:
            continue
        items = v["enum"][en]
        bits, signed = v["enumtype"][en]
        C.append("\n/-- `enum %s` -/\ndef enum_%s : List (String × Int) :=\n  [%s]\n" % (
            en, en, ",\n   ".join("(%s, %s)" % (_lstr(n), _lint(x)) for n, x in items)))
        C.append("/-- width in bits and signedness of the type the compiler gives `enum %s` -/\n" % en)
        C.append("def enumtype_%s : Nat × Bool := (%d, %s)\n" % (en, bits, "true" if signed else "false"))
        if en in ENUM_ALIAS:
            C.append("abbrev %s := enum_%s\n" % (ENUM_ALIAS[en], en))
        for n, x in items:
            if n in used:
                C.append("-- enumerator %s clashes with an earlier name; use enum_%s\n" % (n, en))
                continue
            used.add(n)
            C.append("def %s : Int := %s\n" % (n, _lint(x)))
    C.append("\nend Rtr.Gen\n")

    # ---- PduLayout
    P = [HEADER % "sizeof / offsetof of every `struct pdu_*` of rtrlib/rtr/packets.c (compiled probe).",
         "namespace Rtr.Gen\n"]
    for sn in info["structs"]:
        if sn not in v["sizeof"]:
            continue
        P.append("\n/-- `struct %s` -/\ndef sizeof_%s : Nat := %d\n" % (sn, sn, v["sizeof"][sn]))
        fl = v["field"].get(sn, [])
        for (fn, off, sz) in fl:
            P.append("def offsetof_%s_%s : Nat := %d\n" % (sn, fn, off))
            P.append("def fieldsize_%s_%s : Nat := %d\n" % (sn, fn, sz))
        P.append("/-- `(field, offset, size)` in declaration order (a flexible array member has size 0) -/\n")
        P.append("def layout_%s : List (String × Nat × Nat) :=\n  [%s]\n" % (
            sn, ", ".join("(%s, %d, %d)" % (_lstr(fn), off, sz) for fn, off, sz in fl)))
    P.append("\n/-- all PDU structs: `(name, sizeof, layout)` -/\ndef pduStructs : List (String × Nat × List (String × Nat × Nat)) :=\n  [%s]\n" % (
        ",\n   ".join("(%s, sizeof_%s, layout_%s)" % (_lstr(sn), sn, sn) for sn in info["structs"] if sn in v["sizeof"])))
    P.append("\nend Rtr.Gen\n")

    # ---- Names
    N = [HEADER % ("Name tables (walked with their own sizeof; NULL entries are `none`) and the extracted shape of the\n"
                   "  two to-string functions (clang AST; constant operands evaluated by the probe)."),
         "import RtrModel.Generated.Constants\nimport RtrModel.NamesIR\n\nnamespace Rtr.Gen\nopen Rtr.NamesIR\n"]
    for (u, fname, pre, tabname) in TOSTR:
        t = info["tostr"][fname]
        tb = t["table"]
        tab = v["table"].get(tb, []) if tb else []
        N.append("\n/-- `%s` of %s: %d entries -/\ndef %s : List (Option String) :=\n  [%s]\n" % (
            tb, UNITS[u], len(tab), tabname, ",\n   ".join("none" if s is None else "some " + _lstr(s) for s in tab)))
        pb, ps = v["type"].get("%s.param" % fname, (32, False))
        guards = []
        for gi, g in enumerate(t["guards"]):
            chain = [v["type"]["%s.g%d.c%d" % (fname, gi, ci)] for ci in range(len(g["chain"]))]
            cb, cs = v["type"]["%s.g%d.cmp" % (fname, gi)]
            if not chain or chain[-1] != (cb, cs):
                chain.append((cb, cs))
            cv = v["expr"]["%s.g%d.const" % (fname, gi)]
            guards.append("{ convs := [%s], op := %s, const := %s }  -- %s %s\n" % (
                ", ".join("⟨%d, %s⟩" % (b, "true" if s else "false") for b, s in chain),
                {"<": ".lt", "<=": ".le", ">": ".gt", ">=": ".ge", "==": ".eq", "!=": ".ne"}[g["op"]], _lint(cv),
                g["op"], " ".join(g["const_src"].split())[:80]))
        shape = {"unchecked": ".unchecked", "guarded": ".guarded", "unrecognised": ".unrecognised"}[t["shape"]]
        N.append("\n/-- body of `%s` as found in the source%s -/\n" % (fname, (" (" + t["why"] + ")") if t["why"] else ""))
        idxc = [v["type"]["%s.idx.c%d" % (fname, ci)] for ci in range(len(t.get("index_chain", [])))]
        N.append("def %sFn : ToStrFn :=\n  { shape := %s\n    paramTy := ⟨%d, %s⟩\n    indexConvs := [%s]\n    guards := [%s] }\n" % (
            pre, shape, pb, "true" if ps else "false",
            ", ".join("⟨%d, %s⟩" % (b, "true" if sg else "false") for b, sg in idxc),
            ("\n      " + "      , ".join(guards) + "    ") if guards else ""))
        N.append("/-- does `%s` check its index before reading `%s`? -/\n" % (fname, tb))
        N.append("def %sGuarded : Bool := %s\n" % (pre, "true" if t["shape"] == "guarded" else "false"))
    N.append("\nend Rtr.Gen\n")
    return {"Constants.lean": "".join(C), "PduLayout.lean": "".join(P), "Names.lean": "".join(N)}


# ------------------------------------------------------------------------------------------
# entry
# ------------------------------------------------------------------------------------------

def _sha(s):
    return hashlib.sha1(s.encode() if isinstance(s, str) else s).hexdigest()


def regenerate(force=False):
    """Re-extract from vlib.REPO and rewrite lean/RtrModel/Generated/*.lean when their content changed.
    returns True when at least one file was rewritten.  raises GenError when the translation fails."""
    os.makedirs(WORK, exist_ok=True)
    os.makedirs(GEN_DIR, exist_ok=True)
    key = _sha(vlib.repo_tree_hash() + _sha(open(os.path.abspath(__file__), "rb").read()) + vlib.REPO)
    stamp = os.path.join(WORK, "stamp.json")
    with vlib.Lock("genconsts"):
        if not force and os.path.exists(stamp):
            try:
                st = json.load(open(stamp))
                if st.get("key") == key and all(
                        os.path.exists(os.path.join(GEN_DIR, f)) and _sha(open(os.path.join(GEN_DIR, f), "rb").read()) == h
                        for f, h in st["files"].items()):
                    return False
            except (ValueError, KeyError, OSError):
                pass
        info = extract()
        files = emit(info)
        with open(os.path.join(WORK, "info.json"), "w") as fh:
            json.dump(_slim(info), fh)
        changed = False
        for f, content in files.items():
            p = os.path.join(GEN_DIR, f)
            old = open(p).read() if os.path.exists(p) else None
            if old != content:
                with open(p + ".tmp", "w") as fh:
                    fh.write(content)
                os.rename(p + ".tmp", p)
                changed = True
        with open(stamp, "w") as fh:
            json.dump({"key": key, "files": {f: _sha(c) for f, c in files.items()}}, fh)
        return changed


def _slim(info):
    v = info["vals"]
    return {"enums": v["enum"], "enumtype": v["enumtype"], "consts": v["const"], "tables": v["table"],
            "sizeof": v["sizeof"], "fields": v["field"], "tostr": info["tostr"], "exprs": v["expr"], "types": v["type"]}


def load():
    """regenerate() and return the extraction as python data (enumerators, constants, tables, layouts) for the
    check modules (so that generators and oracles use the same values as the Lean side)."""
    regenerate()
    p = os.path.join(WORK, "info.json")
    if not os.path.exists(p):
        regenerate(force=True)
    with vlib.Lock("genconsts"):
        return json.load(open(p))


if __name__ == "__main__":
    try:
        ch = regenerate(force="--force" in sys.argv)
    except GenError as ex:
        print("translation failed:\n%s" % ex)
        sys.exit(1)
    print("changed" if ch else "unchanged")
