"""Shared machinery of the rtrlib verification checks.

 * Lean side: `lake build` under a file lock, axiom audit (`#print axioms`), forbidden-token grep
 * C side: compile /repo's current working tree (cached by content hash) + a harness front-end
 * correspondence: run harness and model driver on the same op file, diff line by line
 * evidence / known-findings / VIOLATION reporting
"""
import fcntl
import hashlib
import json
import os
import random
import re
import shutil
import subprocess
import sys
import time

VERIF = os.path.dirname(os.path.dirname(os.path.abspath(__file__)))
REPO = os.environ.get("VERIF_REPO", "/repo")
LEAN = os.path.join(VERIF, "lean")
BUILD = os.path.join(VERIF, "build")
REPLAY_DIR = "replay_scratch" if os.environ.get("VERIF_REPO") not in (None, "", "/repo") else "replay"
# a run against a scratch copy of the sources (VERIF_REPO set: evaluation of a seeded change) must not overwrite the
# evidence and replays of /repo itself
SCRATCH = os.environ.get("VERIF_REPO") not in (None, "", "/repo")
EVID = os.path.join(VERIF, "build", "scratch_evidence") if SCRATCH else os.path.join(VERIF, "evidence")
GUARD = "RTRLIB_VERIF"
ALLOWED_AXIOMS = {"propext", "Classical.choice", "Quot.sound"}

os.makedirs(BUILD, exist_ok=True)
os.makedirs(EVID, exist_ok=True)


def seed():
    try:
        return int(os.environ.get("VERIF_SEED", "1"))
    except ValueError:
        return 1


def sh(cmd, **kw):
    kw.setdefault("stdout", subprocess.PIPE)
    kw.setdefault("stderr", subprocess.STDOUT)
    kw.setdefault("text", True)
    return subprocess.run(cmd, **kw)


# ------------------------------------------------------------------------------------------
# Lean
# ------------------------------------------------------------------------------------------

class Lock:
    def __init__(self, name):
        self.path = os.path.join(BUILD, name + ".lock")

    def __enter__(self):
        self.f = open(self.path, "w")
        fcntl.flock(self.f, fcntl.LOCK_EX)
        return self

    def __exit__(self, *a):
        fcntl.flock(self.f, fcntl.LOCK_UN)
        self.f.close()


def lake_build(targets):
    """returns (ok, log)"""
    with Lock("lake"):
        r = sh(["lake", "build"] + list(targets), cwd=LEAN)
    log = "\n".join(l for l in r.stdout.splitlines() if not l.startswith("trace:") and "auto_activate" not in l)
    return r.returncode == 0, log


FORBIDDEN = re.compile(r"\b(sorry|admit|native_decide|bv_decide|implemented_by|unsafe)\b|^\s*axiom\s|maxHeartbeats\s+0")


def strip_lean_comments(src):
    out = []
    i = 0
    depth = 0
    n = len(src)
    while i < n:
        if src.startswith("/-", i):
            depth += 1
            i += 2
            continue
        if depth and src.startswith("-/", i):
            depth -= 1
            i += 2
            continue
        if depth:
            if src[i] == "\n":
                out.append("\n")
            i += 1
            continue
        if src.startswith("--", i):
            while i < n and src[i] != "\n":
                i += 1
            continue
        out.append(src[i])
        i += 1
    return "".join(out)


def forbidden_tokens():
    """list of (file, line, text) for forbidden constructs outside comments in lean/"""
    hits = []
    for root, dirs, files in os.walk(LEAN):
        if ".lake" in root:
            continue
        for f in files:
            if not f.endswith(".lean"):
                continue
            p = os.path.join(root, f)
            src = strip_lean_comments(open(p).read())
            # string literals may legitimately contain words; drop them
            src = re.sub(r'"(\\.|[^"\\])*"', '""', src)
            for k, line in enumerate(src.splitlines(), 1):
                if FORBIDDEN.search(line):
                    hits.append((os.path.relpath(p, VERIF), k, line.strip()))
    return hits


def audit(modules, theorems):
    """Check that every theorem exists and depends only on allowed axioms.
    returns dict name -> {"ok": bool, "axioms": [...], "msg": str}"""
    os.makedirs(os.path.join(BUILD, "audit"), exist_ok=True)
    key = hashlib.sha1(("|".join(modules) + "#" + "|".join(theorems)).encode()).hexdigest()[:12]
    path = os.path.join(BUILD, "audit", "Audit_%s.lean" % key)
    with open(path, "w") as f:
        for m in modules:
            f.write("import %s\n" % m)
        for t in theorems:
            f.write("#print axioms %s\n" % t)
    with Lock("lake"):
        r = sh(["lake", "env", "lean", path], cwd=LEAN)
    out = r.stdout
    res = {}
    for t in theorems:
        res[t] = {"ok": False, "axioms": None, "msg": "not reported"}
    # parse: "'Name' depends on axioms: [a, b]" or "'Name' does not depend on any axioms"
    for m in re.finditer(r"'([^']+)' depends on axioms: \[([^\]]*)\]", out, re.S):
        name, axs = m.group(1), [a.strip() for a in m.group(2).replace("\n", " ").split(",") if a.strip()]
        if name in res:
            bad = [a for a in axs if a not in ALLOWED_AXIOMS]
            res[name] = {"ok": not bad, "axioms": axs, "msg": "" if not bad else "disallowed axioms: %s" % bad}
    for m in re.finditer(r"'([^']+)' does not depend on any axioms", out):
        if m.group(1) in res:
            res[m.group(1)] = {"ok": True, "axioms": [], "msg": ""}
    for m in re.finditer(r"error: (.*)", out):
        pass
    if r.returncode != 0:
        # unknown constants are reported as errors mentioning the name
        for t in theorems:
            if not res[t]["ok"] and res[t]["axioms"] is None:
                res[t]["msg"] = "missing or failed: " + " ".join(out.split())[:300]
    return res


_LEANCHECKER = {}


def leanchecker(module):
    """independent re-check of the compiled module by the toolchain's leanchecker (one module per call); cached per process"""
    if module not in _LEANCHECKER:
        with Lock("lake"):
            r = sh(["lake", "env", "leanchecker", module], cwd=LEAN)
        _LEANCHECKER[module] = (r.returncode == 0, r.stdout[-2000:])
    return _LEANCHECKER[module]


# ------------------------------------------------------------------------------------------
# C side
# ------------------------------------------------------------------------------------------

REPO_SOURCES = [
    "rtrlib/rtr_mgr.c", "rtrlib/lib/utils.c", "rtrlib/lib/alloc_utils.c", "rtrlib/lib/convert_byte_order.c",
    "rtrlib/lib/ip.c", "rtrlib/lib/ipv4.c", "rtrlib/lib/ipv6.c", "rtrlib/lib/log.c",
    "rtrlib/pfx/trie/trie.c", "rtrlib/pfx/trie/trie-pfx.c", "rtrlib/transport/transport.c",
    "rtrlib/transport/tcp/tcp_transport.c", "rtrlib/rtr/rtr.c", "rtrlib/rtr/packets.c",
    "rtrlib/spki/hashtable/ht-spkitable.c", "third-party/tommyds/tommy.c",
    "rtrlib/bgpsec/bgpsec.c", "rtrlib/bgpsec/bgpsec_utils.c",
]

SAN_FLAGS = ["-O1", "-g", "-fsanitize=address,undefined", "-fno-sanitize-recover=all", "-fno-omit-frame-pointer",
             "-UNDEBUG"]
# packets.c reads 32-bit fields of PDUs through casts of char buffers (unaligned on purpose); see DESIGN.md §6
SAN_FLAGS_NOALIGN = SAN_FLAGS + ["-fno-sanitize=alignment"]
BASE_FLAGS = ["-std=gnu99", "-w", "-D" + GUARD, "-D_GNU_SOURCE"]


def _gen_include_dir():
    """rtrlib/config.h and rtrlib/rtrlib.h are produced by cmake and git-ignored; provide them when
    the tree does not have them (fresh worktrees)."""
    d = os.path.join(BUILD, "gen")
    os.makedirs(os.path.join(d, "rtrlib"), exist_ok=True)
    cfg = os.path.join(d, "rtrlib", "config.h")
    if not os.path.exists(cfg):
        with open(cfg, "w") as f:
            f.write("#ifndef RTR_CONFIG_H\n#define RTR_CONFIG_H\n#define RTRLIB_BGPSEC_ENABLED\n#endif\n")
    return d


def repo_tree_hash(extra=""):
    h = hashlib.sha1()
    for root, dirs, files in os.walk(os.path.join(REPO, "rtrlib")):
        dirs.sort()
        for f in sorted(files):
            if f.endswith((".c", ".h")):
                p = os.path.join(root, f)
                h.update(p.encode())
                h.update(open(p, "rb").read())
    for root, dirs, files in os.walk(os.path.join(REPO, "third-party")):
        dirs.sort()
        for f in sorted(files):
            if f.endswith((".c", ".h")):
                p = os.path.join(root, f)
                h.update(p.encode())
                h.update(open(p, "rb").read())
    h.update(extra.encode())
    return h.hexdigest()[:16]


def build_harness(name, front_ends, exclude=(), flags=None, link=None, cc="gcc", variant="san"):
    """Compile every REPO_SOURCES file not in `exclude` from /repo's working tree plus the
    front-end C files (paths relative to /verif/harness or absolute), link into one executable.
    Cached by hash of all inputs.  returns (path | None, log)"""
    flags = list(flags if flags is not None else SAN_FLAGS)
    link = list(link or [])
    fe_paths = [p if os.path.isabs(p) else os.path.join(VERIF, "harness", p) for p in front_ends]
    hh = hashlib.sha1()
    for p in fe_paths:
        hh.update(open(p, "rb").read())
    # front ends may #include other harness files
    for f in sorted(os.listdir(os.path.join(VERIF, "harness"))):
        if f.endswith(".h") or f.endswith(".inc"):
            hh.update(open(os.path.join(VERIF, "harness", f), "rb").read())
    key = repo_tree_hash(" ".join(flags + link + list(exclude) + [cc, variant]) + hh.hexdigest())
    hp = "hs" if SCRATCH else "h"          # builds from a scratch copy of the sources never evict those of /repo
    outdir = os.path.join(BUILD, "%s_%s_%s" % (hp, name, key))
    exe = os.path.join(outdir, name)
    if os.path.exists(exe):
        return exe, "cached"
    with Lock("cc_" + name):
        if os.path.exists(exe):
            return exe, "cached"
        # drop stale builds of the same harness
        for d in os.listdir(BUILD):
            if d.startswith("%s_%s_" % (hp, name)) and d != os.path.basename(outdir):
                shutil.rmtree(os.path.join(BUILD, d), ignore_errors=True)
        os.makedirs(outdir, exist_ok=True)
        gen = _gen_include_dir()
        inc = ["-I" + REPO, "-I" + os.path.join(REPO, "third-party"), "-I" + gen, "-I" + os.path.join(gen, "rtrlib"),
               "-I" + os.path.join(VERIF, "harness")]
        srcs = [os.path.join(REPO, s) for s in REPO_SOURCES if s not in exclude] + fe_paths
        procs = []
        objs = []
        for s in srcs:
            o = os.path.join(outdir, hashlib.sha1(s.encode()).hexdigest()[:10] + "_" + os.path.basename(s) + ".o")
            objs.append(o)
            procs.append((s, subprocess.Popen([cc] + BASE_FLAGS + flags + inc + ["-c", s, "-o", o],
                                              stdout=subprocess.PIPE, stderr=subprocess.STDOUT, text=True)))
        log = []
        ok = True
        for s, p in procs:
            out, _ = p.communicate()
            if p.returncode != 0:
                ok = False
                log.append("== %s\n%s" % (s, out))
        if not ok:
            shutil.rmtree(outdir, ignore_errors=True)
            return None, "\n".join(log)
        r = sh([cc] + flags + objs + ["-o", exe + ".tmp", "-lpthread", "-lcrypto", "-lrt"] + link)
        if r.returncode != 0:
            shutil.rmtree(outdir, ignore_errors=True)
            return None, r.stdout
        os.rename(exe + ".tmp", exe)
        for o in objs:
            os.unlink(o)
    return exe, "built"


def driver_path(name):
    return os.path.join(LEAN, ".lake", "build", "bin", name)


SAN_ENV = {"ASAN_OPTIONS": "detect_leaks=0:abort_on_error=0:exitcode=99", "UBSAN_OPTIONS": "print_stacktrace=1:exitcode=98"}


def run_lines(exe, ops, env=None, timeout=120):
    """feed ops (list of lines) to exe; returns (stdout lines, returncode, stderr text)"""
    e = dict(os.environ)
    e.update(SAN_ENV)
    if env:
        e.update(env)
    try:
        r = subprocess.run([exe], input="\n".join(ops) + "\n", stdout=subprocess.PIPE, stderr=subprocess.PIPE,
                           text=True, env=e, timeout=timeout, errors="replace")
    except subprocess.TimeoutExpired as ex:
        out = ex.stdout or ""
        if isinstance(out, bytes):
            out = out.decode(errors="replace")
        return out.splitlines(), -999, "TIMEOUT after %ss" % timeout
    return r.stdout.splitlines(), r.returncode, r.stderr


def first_divergence(a, b):
    """index of first differing line (or min length if one is a strict prefix), else None"""
    n = min(len(a), len(b))
    for i in range(n):
        if a[i] != b[i]:
            return i
    if len(a) != len(b):
        return n
    return None


def ddmin(items, fails, max_tests=400):
    """classic delta debugging: minimise list `items` such that fails(items) stays True"""
    tests = [0]

    def f(x):
        tests[0] += 1
        return fails(x)
    n = 2
    cur = list(items)
    while len(cur) >= 2 and tests[0] < max_tests:
        chunk = max(1, len(cur) // n)
        subsets = [cur[i:i + chunk] for i in range(0, len(cur), chunk)]
        reduced = False
        for i in range(len(subsets)):
            comp = [x for j, s in enumerate(subsets) if j != i for x in s]
            if comp and f(comp):
                cur = comp
                n = max(n - 1, 2)
                reduced = True
                break
        if not reduced:
            if n >= len(cur):
                break
            n = min(len(cur), n * 2)
    return cur


# ------------------------------------------------------------------------------------------
# reporting
# ------------------------------------------------------------------------------------------

def load_known():
    p = os.path.join(VERIF, "known_findings.json")
    if not os.path.exists(p):
        return {"findings": [], "fixed": []}
    return json.load(open(p))


class Report:
    """collects the outcome of one check run and writes evidence + prints VIOLATION lines"""

    def __init__(self, pid, tier, level="proof"):
        self.pid = pid
        self.tier = tier
        self.level = level
        self.t0 = time.time()
        self.violations = []      # (replay path, note)
        self.known_hits = []
        self.cov = {"samples": []}
        self.assumptions = []
        self.obligations = {}     # theorem -> ok
        os.makedirs(os.path.join(BUILD, REPLAY_DIR), exist_ok=True)
        os.makedirs(EVID, exist_ok=True)

    def replay_path(self, tag):
        return os.path.join(BUILD, REPLAY_DIR, "%s_%s_%d.txt" % (self.pid, tag, seed()))

    def violation(self, tag, text, no_input=False, signature=None):
        """record a violation; `signature` is matched against known_findings.json"""
        if signature:
            for k in load_known().get("findings", []):
                if k.get("property") == self.pid and k.get("signature") == signature:
                    self.known_hits.append((signature, k.get("what", "")))
                    return
        p = self.replay_path(tag)
        with open(p, "w") as f:
            f.write(text)
        self.violations.append((p, no_input))

    def sample(self, s):
        if len(self.cov["samples"]) < 6:
            self.cov["samples"].append(s)

    def finish(self):
        wall = time.time() - self.t0
        cov = dict(self.cov)
        if self.obligations:
            cov["obligations"] = len(self.obligations)
            cov["discharged"] = sum(1 for v in self.obligations.values() if v)
            cov["theorems"] = sorted(self.obligations.keys())
        if not cov.get("samples"):
            cov["samples"] = ["(none)"]
        ev = {
            "property_id": self.pid, "tier": self.tier, "seed": seed(), "level": self.level,
            "coverage": cov, "assumptions": self.assumptions, "wall_s": round(wall, 2),
            "violations": len(self.violations),
        }
        with open(os.path.join(EVID, self.pid + ".json"), "w") as f:
            json.dump(ev, f, indent=1, sort_keys=True)
            f.write("\n")
        seen = set()
        for sig, what in self.known_hits:
            if sig in seen:
                continue
            seen.add(sig)
            print("KNOWN-FINDING: property=%s %s (%s)" % (self.pid, what, sig))
        shown = set()
        for p, no_input in self.violations:
            if p in shown:
                continue
            shown.add(p)
            print("VIOLATION property=%s replay=%s%s" % (self.pid, p, " no-failing-input-found" if no_input else ""))
        sys.stdout.flush()
        return 1 if self.violations else 0


def prove(rep, modules, theorems, extra_targets=()):
    """lake build the property modules (+ drivers), audit axioms, scan for forbidden tokens.
    Fills rep.obligations.  returns True when everything is discharged."""
    ok, log = lake_build(list(modules) + list(extra_targets))
    rep.cov["checker_cmd"] = "cd lean && lake build %s && lake env lean <Audit: #print axioms ...>" % " ".join(modules)
    rep.cov["trusted_base"] = [
        "Lean 4.33.0 kernel", "axioms: propext, Classical.choice, Quot.sound only (audited each run)",
        "no sorry/admit/native_decide/bv_decide/axiom (grep each run)",
        "correspondence harness + model driver glue", "C compiler / sanitizers for the implementation side"]
    if not ok:
        for t in theorems:
            rep.obligations[t] = False
        rep.build_log = log
        # which theorems still check? try the audit anyway (modules that built are usable)
        return False
    res = audit(modules, theorems)
    bad = forbidden_tokens()
    allok = True
    for t in theorems:
        good = res[t]["ok"] and not bad
        rep.obligations[t] = good
        allok = allok and good
    rep.audit = res
    rep.forbidden = bad
    rep.cov["axioms"] = {t: res[t]["axioms"] for t in theorems}
    if getattr(rep, "tier", "quick") == "thorough" and allok:
        # thorough tier: the property modules are re-checked by leanchecker as well
        lc = {}
        for m in modules:
            okc, outc = leanchecker(m)
            lc[m] = "ok" if okc else "FAILED"
            if not okc:
                allok = False
                for t in theorems:
                    rep.obligations[t] = False
                rep.build_log = "leanchecker %s failed:\n%s" % (m, outc)
        rep.cov["leanchecker"] = lc
    if bad:
        rep.build_log = "forbidden tokens: %r" % (bad,)
    elif not allok:
        rep.build_log = json.dumps({t: r for t, r in res.items() if not r["ok"]}, indent=1)
    return allok


def proof_failure(rep, theorems_note):
    """A proof obligation no longer checks and no failing input was found."""
    txt = "The following proof obligations / correspondences no longer check:\n%s\n\n--- log ---\n%s\n" % (
        theorems_note, getattr(rep, "build_log", ""))
    rep.violation("proof", txt, no_input=True)


_LITERALS = None


def source_literals():
    """integer literals (decimal / hex, < 2^64) and short string literals that occur in the C sources of the tree under
    test - a dictionary for the generators: a value or a count the code treats specially is spelled in the code
    (sizes, increments, masks, magic prefixes), so boundary cases are derived from the current source, not only from
    the specification.  returns {"ints": sorted list, "strings": sorted list}"""
    global _LITERALS
    if _LITERALS is not None:
        return _LITERALS
    ints, strs = set(), set()
    for rel in REPO_SOURCES + ["third-party/tommyds/tommyhashlin.c", "third-party/tommyds/tommyhashlin.h", "third-party/tommyds/tommylist.c",
                               "third-party/tommyds/tommychain.h", "third-party/tommyds/tommyhash.c"]:
        base = os.path.join(REPO, rel)
        cands = [base]
        d = os.path.dirname(base)
        if os.path.isdir(d):
            cands += [os.path.join(d, f) for f in os.listdir(d) if f.endswith(".h")]
        for p in cands:
            try:
                src = open(p, errors="replace").read()
            except OSError:
                continue
            src = re.sub(r"/\*.*?\*/", " ", src, flags=re.S)
            src = re.sub(r"//[^\n]*", " ", src)
            for m in re.finditer(r'"((?:\\.|[^"\\\n]){1,24})"', src):
                strs.add(m.group(1))
            nostr = re.sub(r'"(?:\\.|[^"\\\n])*"', '""', src)
            for m in re.finditer(r"(?<![A-Za-z0-9_.])(0[xX][0-9a-fA-F]+|[0-9]+)[uUlL]*(?![A-Za-z0-9_.])", nostr):
                try:
                    v = int(m.group(1), 0) if m.group(1).lower().startswith("0x") else int(m.group(1).lstrip("0") or "0")
                except ValueError:
                    continue
                if v < 2 ** 64:
                    ints.add(v)
    _LITERALS = {"ints": sorted(ints), "strings": sorted(strs)}
    return _LITERALS


def rng(tag=""):
    return random.Random("%d/%s" % (seed(), tag))


def jobs():
    """worker threads for subprocess fan-out (the sandbox has 16 cores; leave some to concurrently running checks)"""
    try:
        return max(2, min(12, int(os.environ.get("VERIF_JOBS", "0")) or (os.cpu_count() or 4) - 4))
    except ValueError:
        return 8


def generic_replay(path, build, driver):
    """./check --replay for line-protocol domains: the recorded request lines (every line that is not a comment, up to the first
    `--- ` separator, a trailing `    => reply` stripped) are fed to the implementation built from the current tree and to the
    model driver; exit 1 if the implementation aborts or the two differ."""
    ops = []
    for l in open(path, errors="replace"):
        l = l.rstrip("\n")
        if l.startswith("--- "):
            break
        if l.strip() and not l.startswith("#"):
            ops.append(l.split("    => ")[0])
    if not ops:
        print(open(path, errors="replace").read())
        print("(no recorded input in this replay file: it names the proof obligation / correspondence that no longer checks)")
        return 1
    lake_build([driver])
    drv = driver_path(driver)
    exe, blog = build()
    if exe is None or not os.path.exists(drv):
        print(blog)
        return 1
    io, rc, err = run_lines(exe, ops, timeout=600)
    mo, mrc, merr = run_lines(drv, ops, timeout=600)
    for i, o in enumerate(ops):
        print("%s\n    impl : %s\n    model: %s" % (o[:300], io[i][:300] if i < len(io) else "<no reply>", mo[i][:300] if i < len(mo) else "<no reply>"))
    bad = 0
    if rc != 0 or len(io) != len(ops):
        bad = 1
        print("implementation aborted (rc=%s) after %d of %d replies\n%s" % (rc, len(io), len(ops), err[-3000:]))
    d = first_divergence(io, mo)
    if d is not None:
        bad = 1
        print("DIVERGENCE between implementation and model at line %d" % d)
    print("replay: %s" % ("FAILS" if bad else "passes on the current tree (implementation and model agree, no abort)"))
    return bad
