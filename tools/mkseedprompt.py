#!/usr/bin/env python3
"""Round-2 seed prompts: tools/mkseedprompt.py <tag> <ID> [<ID>...]  ->  build/seed_prompt2_<tag>.txt and worktree /tmp/seed2_<tag>.
The prompt contains only the property texts (title, statement, quantifier) and generic build/demo instructions."""
import json, os, subprocess, sys
HERE = os.path.dirname(os.path.dirname(os.path.abspath(__file__)))
tag, ids = sys.argv[1], sys.argv[2:]
ROUND = os.environ.get("SEED_ROUND", "2")
wt = "/tmp/seed%s_%s" % (ROUND, tag)
props = {json.loads(l)["id"]: json.loads(l) for l in open(os.path.join(HERE, "properties.jsonl"))}
RTR_HINT = ("Hints on reaching the code: the protocol engine is in rtrlib/rtr/packets.c (rtr_sync, rtr_receive_pdu, error reports) and rtrlib/rtr/rtr.c "
            "(state machine rtr_fsm_start, rtr_stop); the transport is a table of function pointers (`struct tr_socket`: open/close/send/recv), so a demonstration can "
            "script a cache by providing its own `struct tr_socket`; time comes from clock_gettime(CLOCK_MONOTONIC) via lrtr_get_monotonic_time and sleep(), both of which a "
            "demonstration may redefine in its own executable to control time. Static functions can be reached by `#include \"rtrlib/rtr/packets.c\"` from the demo "
            "(the repo's own unit tests do this).\n\n")
hint = RTR_HINT if any(i in ("C03", "C04", "C05", "C07", "C08", "C13", "C14", "C17", "C18") for i in ids) else ""
txt = """You are testing how hard a semantic property of a C library is to break without being noticed. You work ONLY inside the git worktree {wt} (a checkout of the library "rtrlib", a client library for the RPKI-RTR protocol: prefix-origin validation trie, router-key hash table, BGPsec path validation, cache-group manager). Do not read, list or modify anything under /verif or /repo, and do not look at other /tmp/seed* directories; everything you need is in {wt}. Never run `git commit`.

Build and test the library like this (takes well under a minute):
  cmake -G Ninja -B {wt}/_build -S {wt} -DCMAKE_BUILD_TYPE=RelWithDebInfo -DUNIT_TESTING=ON >/dev/null && cmake --build {wt}/_build >/dev/null && ctest --test-dir {wt}/_build -E "test_live_validation|test_dynamic_groups"
(the two excluded tests need network access; all others must pass).

For EACH of the properties below, produce TWO DIFFERENT changes to the library sources (files under rtrlib/ or third-party/) — different code sites and different mechanisms, not variations of one idea — each of which BREAKS the property while
 (a) the library still compiles without new warnings-as-errors,
 (b) the whole existing test suite above still passes, unedited,
 (c) the breakage needs something specific to manifest — a particular interleaving, a crash or fault at a particular point, a multi-step sequence of operations, an unusual input value, a boundary value of a field, or two cooperating code sites that each look fine alone — NOT something ordinary use would expose at once (a change that makes every call fail is worthless). Think like someone introducing a subtle regression during a refactoring, a clean-up or an "optimisation".
Give each change a realistic look (plausible as a real commit). Prefer changes in less obvious places (helpers, error paths, rarely taken branches, boundary handling) over the most central line.{extra}

For each change deliver, in {wt}/out/<PROPERTY-ID>_1/ and {wt}/out/<PROPERTY-ID>_2/ :
  patch.diff   — `git -C {wt} diff -- rtrlib third-party` with ONLY that change applied (produce the changes independently: finish one, save its diff, `git -C {wt} checkout -- rtrlib third-party`, then do the next),
  demo.c       — a small self-contained C program (link against {wt}/_build/librtrlib_static.a or compile the needed .c files directly; private headers may be included; you may use pthreads, a mock transport `struct tr_socket`, etc.) that exits 0 on the ORIGINAL sources and exits non-zero (or aborts) WITH the change; it must be deterministic or loop until the failure shows within ~20 seconds,
  build.sh     — the exact commands that build and run demo.c against whatever sources are currently in the worktree (it must NOT apply or revert the patch itself; it rebuilds the library and the demo and exits with the demo's exit status),
  meta.json    — {{"property": "<id>", "what_it_breaks": "...", "needs_to_manifest": "...", "files_changed": [...], "verified": "what you ran and saw"}}.
You MUST verify yourself: (1) with the patch the suite passes and demo fails; (2) without the patch demo passes. Restore the worktree sources to the original state at the end (`git -C {wt} checkout -- rtrlib third-party`), leaving only {wt}/out and {wt}/_build.

{hint}""".format(wt=wt, hint=hint, extra=(" Assume a diligent reviewer will also run a few thousand randomised tests that compare the library with a straightforward reference "
    "implementation on random operation sequences and random (also malformed) protocol conversations: your change must survive THAT - it should need a rare coincidence "
    "(a specific 32-bit value, an exact count, a particular order of three or more events, a long history, a rare interleaving, a second fault while handling the first) "
    "that such testing is unlikely to hit, yet be reachable for an attacker or an unlucky operator." if ROUND in ("3", "4") else ""))
for i in ids:
    p = props[i]
    txt += "PROPERTY %s: %s\n%s\n(quantifier: %s)\n\n" % (i, p["title"], p["statement"], p["quantifier"]["text"])
txt += ("Your final message: for each change, one paragraph describing it and what is needed to see it, and the paths of the delivered files. "
        "If you cannot find a change that satisfies (a)-(c), say so and explain what you tried.\n")
os.makedirs(os.path.join(HERE, "build"), exist_ok=True)
out = os.path.join(HERE, "build", "seed_prompt%s_%s.txt" % (ROUND, tag))
open(out, "w").write(txt)
if not os.path.isdir(wt):
    subprocess.run(["git", "-C", "/repo", "worktree", "add", "--detach", wt, "HEAD"], check=True, stdout=subprocess.DEVNULL, stderr=subprocess.DEVNULL)
print(out, wt)
