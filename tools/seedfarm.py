#!/usr/bin/env python3
"""Parallel re-evaluation of the stored seeded breakages and behaviour-preserving changes.

    tools/seedfarm.py seeds    <workers> [<name>...]     every seeded/<name>/patch.diff (default: all but seeded/harmless)
    tools/seedfarm.py harmless <workers> [<name>...]     every seeded/harmless/<name>/patch.diff

Each worker gets its own copy of /verif (with its Lean build and harness caches, so nothing is rebuilt from scratch) and its own
scratch worktree of /repo under /tmp/farm_<k>; a patch is applied there and the checks run with VERIF_REPO pointing at it, so
/repo and /verif are never touched and the workers do not share generated files.  Results are merged into
seeded/<name>/meta.json (seeds: evaluation.detected / check_lines) or written to build/harmless_farm_results.json.
"""
import json
import os
import shutil
import subprocess
import sys

VERIF = os.path.dirname(os.path.dirname(os.path.abspath(__file__)))
AFFECTS = [
    ("rtrlib/rtr/packets.c", "C03 C04 C05 C07 C08 C09 C10 C13 C14 C17 C18 C06"),
    ("rtrlib/rtr/rtr.c", "C05 C07 C08 C13 C17 C20 C15 C03"),
    ("rtrlib/transport/", "C03 C04 C08 C14 C13 C17"),
    ("rtrlib/pfx/", "C01 C02 C09 C16 C06 C18 C03"),
    ("rtrlib/spki/", "C10 C16 C06 C18 C11 C03"),
    ("rtrlib/lib/", "C01 C02 C19 C04 C18 C14"),
    ("rtrlib/rtr_mgr.c", "C15 C20 C17"),
    ("rtrlib/bgpsec/", "C11 C12"),
    ("third-party/", "C10 C18 C16"),
]


def sh(cmd, cwd=None, env=None):
    r = subprocess.run(cmd, shell=True, cwd=cwd, env=env, stdout=subprocess.PIPE, stderr=subprocess.STDOUT, text=True)
    return r.returncode, r.stdout


WORKER = r'''
import json, os, subprocess, sys
root, mode, names = sys.argv[1], sys.argv[2], sys.argv[3:]
verif, repo = os.path.join(root, "verif"), os.path.join(root, "repo")
AFFECTS = json.loads(os.environ["FARM_AFFECTS"])
def sh(cmd, cwd=None, env=None):
    r = subprocess.run(cmd, shell=True, cwd=cwd, env=env, stdout=subprocess.PIPE, stderr=subprocess.STDOUT, text=True)
    return r.returncode, r.stdout
env = dict(os.environ, VERIF_REPO=repo)
results = {}
for n in names:
    if mode == "seeds":
        rc, out = sh("python3 tools/seedtest.py --rescratch %s %s" % (repo, n), cwd=verif)
        print(out.strip().splitlines()[-1] if out.strip() else n + " (no output)", flush=True)
        continue
    patch = os.path.join(verif, "seeded", "harmless", n, "patch.diff")
    sh("git checkout -- .", cwd=repo)
    rc, out = sh("git apply %s" % patch, cwd=repo)
    if rc != 0:
        results[n] = {"applies": False}
        continue
    files = [l[6:].strip() for l in open(patch) if l.startswith("+++ b/")]
    checks = []
    for pre, ids in AFFECTS:
        if any(f.startswith(pre) for f in files):
            checks += [i for i in ids.split() if i not in checks]
    res = {"applies": True, "files": files, "checks": {}}
    for c in sorted(checks):
        rc, out = sh("./check %s --tier quick" % c, cwd=verif, env=env)
        lines = [l for l in out.splitlines() if l.startswith("VIOLATION")]
        res["checks"][c] = {"rc": rc, "violations": lines}
        if lines:
            heads = []
            for l in lines[:2]:
                p = l.split("replay=")[1].split()[0]
                if os.path.exists(p):
                    heads.append(open(p).read()[:1500])
            res["checks"][c]["replay_heads"] = heads
    sh("git checkout -- .", cwd=repo)
    results[n] = res
    print(n, {c: (v["rc"], len(v["violations"])) for c, v in res["checks"].items()}, flush=True)
    json.dump(results, open(os.path.join(root, "harmless_results.json"), "w"), indent=1)
'''


def main():
    mode, nw = sys.argv[1], int(sys.argv[2])
    names = sys.argv[3:]
    if mode == "seeds":
        names = names or sorted(d for d in os.listdir(os.path.join(VERIF, "seeded"))
                                if d != "harmless" and os.path.exists(os.path.join(VERIF, "seeded", d, "patch.diff")))
    else:
        names = names or sorted(os.listdir(os.path.join(VERIF, "seeded", "harmless")))
    buckets = [names[i::nw] for i in range(nw)]
    procs = []
    for k, b in enumerate(buckets):
        if not b:
            continue
        root = "/tmp/farm_%s_%d" % (mode, k)
        os.makedirs(root, exist_ok=True)
        sh("rsync -a --delete --exclude .git --exclude 'build/replay*' --exclude build/xtrace %s/ %s/verif/" % (VERIF, root))
        repo = os.path.join(root, "repo")
        if os.path.isdir(repo):
            sh("git -C /repo worktree remove --force %s" % repo)
        sh("git -C /repo worktree prune")
        rc, out = sh("git -C /repo worktree add --detach %s HEAD" % repo)
        if rc != 0:
            print("worktree failed:", out)
            return 1
        with open(os.path.join(root, "worker.py"), "w") as f:
            f.write(WORKER)
        env = dict(os.environ, FARM_AFFECTS=json.dumps(AFFECTS))
        env.pop("VERIF_REPO", None)
        log = open(os.path.join(root, "log"), "w")
        procs.append((k, root, b, subprocess.Popen([sys.executable, os.path.join(root, "worker.py"), root, mode] + b, stdout=log, stderr=subprocess.STDOUT, env=env)))
    for k, root, b, p in procs:
        p.wait()
    merged = {}
    for k, root, b, p in procs:
        if mode == "seeds":
            for n in b:
                src = os.path.join(root, "verif", "seeded", n, "meta.json")
                dst = os.path.join(VERIF, "seeded", n, "meta.json")
                if os.path.exists(src):
                    ev = json.load(open(src)).get("evaluation", {})
                    m = json.load(open(dst))
                    m.setdefault("evaluation", {}).update({x: ev.get(x) for x in ("detected", "check_rc", "check_lines", "replay_heads", "mode")})
                    json.dump(m, open(dst, "w"), indent=1)
                    merged[n] = ev.get("detected")
        else:
            rp = os.path.join(root, "harmless_results.json")
            if os.path.exists(rp):
                merged.update(json.load(open(rp)))
        sh("git -C /repo worktree remove --force %s" % os.path.join(root, "repo"))
        shutil.rmtree(root, ignore_errors=True)
    sh("git -C /repo worktree prune")
    if mode == "seeds":
        print("%d seeds re-evaluated, %d detected; missed: %s" % (len(merged), sum(1 for v in merged.values() if v),
                                                                    " ".join(sorted(n for n, v in merged.items() if not v))))
    else:
        json.dump(merged, open(os.path.join(VERIF, "build", "harmless_farm_results.json"), "w"), indent=1)
        alarms = {n: [c for c, v in r.get("checks", {}).items() if v["violations"]] for n, r in merged.items()}
        print("%d harmless changes evaluated; alarms: %s" % (len(merged), {n: a for n, a in alarms.items() if a}))
    return 0


if __name__ == "__main__":
    sys.exit(main())
