"""Theorem lists (proof obligations) of the RTR protocol properties; read by tools/rtrcheck.py."""
PROPS = {
    "C03": {"modules": ["RtrProps.C03"],
            "theorems": ["Rtr.C03.sync_success", "Rtr.C03.sync_failure", "Rtr.C03.others_untouched",
                         "Rtr.C03.forward_undo", "Rtr.C03.applied_membership"]},
}
