"""Theorem lists (proof obligations) of the RTR protocol properties; read by tools/rtrcheck.py."""
PROPS = {
    "C03": {"modules": ["RtrProps.C03"],
            "theorems": ["Rtr.C03.sync_success", "Rtr.C03.sync_failure", "Rtr.C03.others_untouched",
                         "Rtr.C03.forward_undo", "Rtr.C03.applied_membership"]},
    "C05": {"modules": ["RtrProps.C05"],
            "theorems": ["Rtr.C05.query_bytes", "Rtr.C05.connecting_query", "Rtr.C05.reset_query", "Rtr.C05.after_eod",
                         "Rtr.C05.foreign_session_refused", "Rtr.C05.stable_until", "Rtr.C05.reset_causes"]},
    "C07": {"modules": ["RtrProps.C07"],
            "theorems": ["Rtr.C07.last_update_written", "Rtr.C07.invariant", "Rtr.C07.invariant_init", "Rtr.C07.expiry_at_open",
                         "Rtr.C07.expiry_after_error", "Rtr.C07.stop_clears", "Rtr.C07.others_untouched"]},
    "C13": {"modules": ["RtrProps.C13"],
            "theorems": ["Rtr.C13.version_monotone", "Rtr.C13.version_supported", "Rtr.C13.step_version_le",
                         "Rtr.C13.downgrade_first_pdu", "Rtr.C13.downgrade_error_report",
                         "Rtr.C13.downgrade_error_report_reconnects", "Rtr.C13.downgrade_on_hangup",
                         "Rtr.C13.mismatch_never_accepted", "Rtr.C13.mismatch_refused", "Rtr.C13.eod_format",
                         "Rtr.C13.queries_carry_version"]},
}
