"""Generators and Python-side oracles for the prefix-table domain (C01, C02, C09)."""
import random

ASNS = [0, 65001, 65002, 4200000000]
SRCS = [1, 2, 3]


def W(v):
    return 32 if v == 4 else 128


def hexaddr(v, a):
    return "%0*x" % (8 if v == 4 else 32, a)


def trunc(v, a, ln):
    w = W(v)
    if ln >= w:
        return a
    return (a >> (w - ln)) << (w - ln)


def bit(v, a, i):
    w = W(v)
    return (a >> (w - 1 - i)) & 1 if i < w else 0


class Universe:
    """a small nested universe of prefixes so that covering chains and equal (prefix,len) keys are frequent"""

    def __init__(self, r, deep=False):
        self.r = r
        self.prefixes = []   # (v, addr, len)
        for v in (4, 6):
            w = W(v)
            nb = r.choice([1, 2, 2, 3])
            for _ in range(nb):
                base = r.getrandbits(w)
                if r.random() < 0.3:
                    base = trunc(v, base, r.choice([8, 16, 24]))       # many trailing zeros: ties between lengths
                if deep:
                    lens = list(range(0, w + 1))
                else:
                    lens = sorted(set([0, 1, 2, 7, 8, 9, 16, 24, w - 2, w - 1, w] +
                                      [r.randrange(0, w + 1) for _ in range(6)]))
                for ln in lens:
                    p = trunc(v, base, ln)
                    self.prefixes.append((v, p, ln))
                    if ln > 0 and r.random() < 0.5:
                        sib = p ^ (1 << (w - ln))
                        self.prefixes.append((v, sib, ln))
        self.prefixes = sorted(set(self.prefixes))

    def rec(self, r):
        v, a, ln = r.choice(self.prefixes)
        w = W(v)
        ml = r.choice([ln, ln, min(w, ln + 1), w, r.randrange(ln, w + 1), max(0, ln - 1)])
        return (v, a, ln, ml, r.choice(ASNS), r.choice(SRCS))

    def query(self, r, stored):
        """a query derived from a stored record (or the universe)"""
        if stored and r.random() < 0.8:
            v, a, ln = r.choice(stored)[:3]
        else:
            v, a, ln = r.choice(self.prefixes)
        w = W(v)
        mode = r.randrange(6)
        if mode == 0:
            n, q = ln, a
        elif mode == 1:                       # longer, random extension
            n = r.randrange(ln, w + 1)
            ext = r.getrandbits(w) & ((1 << (w - ln)) - 1) if ln < w else 0
            q = trunc(v, a | ext, n)
        elif mode == 2:                       # shorter
            n = r.randrange(0, ln + 1)
            q = trunc(v, a, n)
        elif mode == 3 and ln > 0:            # sibling
            n = ln
            q = a ^ (1 << (w - ln))
        elif mode == 4:                       # one bit longer
            n = min(w, ln + 1)
            q = a | (r.getrandbits(1) << (w - n)) if n > ln else a
        else:                                 # host bits set in the query (allowed: only leading bits matter)
            n = ln
            q = a | (r.getrandbits(w) & ((1 << (w - ln)) - 1) if ln < w else 0)
        return (v, q, n, r.choice(ASNS + [65001, 65002]))


def fmt_rec_args(rec):
    v, a, ln, ml, asn, src = rec
    return "%d %s %d %d %d %d" % (v, hexaddr(v, a), ln, ml, asn, src)


def rec_str(rec):
    v, a, ln, ml, asn, src = rec
    return "%d:%s/%d-%d:%d:%d" % (v, hexaddr(v, a), ln, ml, asn, src)


def parse_rec_str(s):
    # 4:0a000000/8-24:65001:1
    v, rest = s.split(":", 1)
    pfx, asn, src = rest.rsplit(":", 2)
    addr, lens = pfx.split("/")
    ln, ml = lens.split("-")
    return (int(v), int(addr, 16), int(ln), int(ml), int(asn), int(src))


# ------------------------------------------------------------------------------------------
# oracles: the properties' own statements, evaluated in Python over plain sets
# ------------------------------------------------------------------------------------------

def covers(rec, v, q, n):
    rv, a, ln = rec[:3]
    if rv != v or ln > n:
        return False
    w = W(v)
    if ln == 0:
        return True
    return (a >> (w - ln)) == (q >> (w - ln))


def rfc6811(records, v, q, n, asn):
    cov = [r for r in records if covers(r, v, q, n)]
    match = [r for r in cov if r[4] != 0 and r[4] == asn and n <= r[3]]
    if match:
        return "VALID", cov, match
    if cov:
        return "INVALID", cov, match
    return "NOTFOUND", cov, match


def check_validation(records, v, q, n, asn, state, reasons):
    """C01 statement on one answer; returns None or a description of the failed clause"""
    exp, cov, match = rfc6811(records, v, q, n, asn)
    if state != exp:
        return "state %s but RFC 6811 over the table's records says %s" % (state, exp)
    if exp == "NOTFOUND" and reasons:
        return "NOT FOUND with non-empty reasons"
    if exp == "INVALID" and sorted(reasons) != sorted(cov):
        return "INVALID reasons are not exactly the covering records"
    if exp == "VALID":
        if any(r not in cov for r in reasons):
            return "VALID reasons contain a non-covering record"
        if len(set(reasons)) != len(reasons):
            return "VALID reasons contain a record twice"
        if not any(r in match for r in reasons):
            return "VALID reasons contain no matching record"
    return None


class SetSpec:
    """C02: the mathematical set"""

    def __init__(self):
        self.s = set()

    def add(self, rec):
        if rec in self.s:
            return -2
        self.s.add(rec)
        return 0

    def rm(self, rec):
        if rec not in self.s:
            return -3
        self.s.remove(rec)
        return 0

    def srcrm(self, src):
        self.s = set(r for r in self.s if r[5] != src)
        return 0
