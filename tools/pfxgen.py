"""Generators and Python-side oracles for the prefix-table domain (C01, C02, C09)."""
import random

ASNS = [0, 65001, 65002, 4200000000]
SRCS = [1, 2, 3]


def W(v):
    return 32 if v == 4 else 128


def hexaddr(v, a):
    return "%0*x" % (8 if v == 4 else 32, a)


def trunc(v, a, ln):
    w = W(v)
    if ln >= w:
        return a
    return (a >> (w - ln)) << (w - ln)


def bit(v, a, i):
    w = W(v)
    return (a >> (w - 1 - i)) & 1 if i < w else 0


class Case:
    """one history: op lines + per-line tags used by the oracles; `cls` names the generator class (coverage gates),
    `expect` what the class is built to reach (measured on the implementation's answers, see pfxcheck.measure)"""

    def __init__(self, hid, cls="random"):
        self.hid = hid
        self.cls = cls
        self.ops = []
        self.tags = []
        self.expect = {}

    def emit(self, line, tag):
        self.ops.append(line)
        self.tags.append(tag)


class Universe:
    """a small nested universe of prefixes so that covering chains and equal (prefix,len) keys are frequent.
    noncanon: records carry host bits (bits beyond the prefix length) taken from a few patterns, so that records that
    differ only there are frequent - the trie treats them as distinct keys"""

    def __init__(self, r, deep=False, noncanon=False):
        self.r = r
        self.noncanon = noncanon
        self.hostpats = {}
        if noncanon:
            self.hostpats = {v: [0, 1, (1 << W(v)) - 1, r.getrandbits(W(v)), r.getrandbits(W(v)), 1 << r.randrange(W(v))] for v in (4, 6)}
        self.prefixes = []   # (v, addr, len)
        for v in (4, 6):
            w = W(v)
            nb = r.choice([1, 2, 2, 3])
            for _ in range(nb):
                base = r.getrandbits(w)
                if r.random() < 0.3:
                    base = trunc(v, base, r.choice([8, 16, 24]))       # many trailing zeros: ties between lengths
                if deep:
                    lens = list(range(0, w + 1))
                else:
                    lens = sorted(set([0, 1, 2, 7, 8, 9, 16, 24, w - 2, w - 1, w] +
                                      [r.randrange(0, w + 1) for _ in range(6)]))
                for ln in lens:
                    p = trunc(v, base, ln)
                    self.prefixes.append((v, p, ln))
                    if ln > 0 and r.random() < 0.5:
                        sib = p ^ (1 << (w - ln))
                        self.prefixes.append((v, sib, ln))
        self.prefixes = sorted(set(self.prefixes))

    def rec(self, r):
        v, a, ln = r.choice(self.prefixes)
        w = W(v)
        ml = r.choice([ln, ln, min(w, ln + 1), w, r.randrange(ln, w + 1), max(0, ln - 1)])
        if self.noncanon and ln < w and r.random() < 0.7:
            a |= r.choice(self.hostpats[v]) & ((1 << (w - ln)) - 1)
        return (v, a, ln, ml, r.choice(ASNS), r.choice(SRCS))

    def query(self, r, stored):
        """a query derived from a stored record (or the universe)"""
        if stored and r.random() < 0.8:
            v, a, ln = r.choice(stored)[:3]
        else:
            v, a, ln = r.choice(self.prefixes)
        w = W(v)
        mode = r.randrange(6)
        if mode == 0:
            n, q = ln, a
        elif mode == 1:                       # longer, random extension
            n = r.randrange(ln, w + 1)
            ext = r.getrandbits(w) & ((1 << (w - ln)) - 1) if ln < w else 0
            q = trunc(v, a | ext, n)
        elif mode == 2:                       # shorter
            n = r.randrange(0, ln + 1)
            q = trunc(v, a, n)
        elif mode == 3 and ln > 0:            # sibling
            n = ln
            q = a ^ (1 << (w - ln))
        elif mode == 4:                       # one bit longer
            n = min(w, ln + 1)
            q = a | (r.getrandbits(1) << (w - n)) if n > ln else a
        else:                                 # host bits set in the query (allowed: only leading bits matter)
            n = ln
            q = a | (r.getrandbits(w) & ((1 << (w - ln)) - 1) if ln < w else 0)
        return (v, q, n, r.choice(ASNS + [65001, 65002]))


def fmt_rec_args(rec):
    v, a, ln, ml, asn, src = rec
    return "%d %s %d %d %d %d" % (v, hexaddr(v, a), ln, ml, asn, src)


def rec_str(rec):
    v, a, ln, ml, asn, src = rec
    return "%d:%s/%d-%d:%d:%d" % (v, hexaddr(v, a), ln, ml, asn, src)


_PARSED = {}


def parse_rec_str(s):
    # 4:0a000000/8-24:65001:1
    t = _PARSED.get(s)
    if t is None:
        if len(_PARSED) > 400000:
            _PARSED.clear()
        t = _PARSED[s] = _parse_rec_str(s)
    return t


def _parse_rec_str(s):
    v, rest = s.split(":", 1)
    pfx, asn, src = rest.rsplit(":", 2)
    addr, lens = pfx.split("/")
    ln, ml = lens.split("-")
    return (int(v), int(addr, 16), int(ln), int(ml), int(asn), int(src))


# ------------------------------------------------------------------------------------------
# oracles: the properties' own statements, evaluated in Python over plain sets
# ------------------------------------------------------------------------------------------

def covers(rec, v, q, n):
    rv, a, ln = rec[:3]
    if rv != v or ln > n:
        return False
    w = W(v)
    if ln == 0:
        return True
    return (a >> (w - ln)) == (q >> (w - ln))


def rfc6811(records, v, q, n, asn):
    cov = [r for r in records if covers(r, v, q, n)]
    match = [r for r in cov if r[4] != 0 and r[4] == asn and n <= r[3]]
    if match:
        return "VALID", cov, match
    if cov:
        return "INVALID", cov, match
    return "NOTFOUND", cov, match


def check_validation(records, v, q, n, asn, state, reasons):
    """C01 statement on one answer; returns None or a description of the failed clause"""
    exp, cov, match = rfc6811(records, v, q, n, asn)
    if state != exp:
        return "state %s but RFC 6811 over the table's records says %s" % (state, exp)
    if exp == "NOTFOUND" and reasons:
        return "NOT FOUND with non-empty reasons"
    if exp == "INVALID" and sorted(reasons) != sorted(cov):
        return "INVALID reasons are not exactly the covering records"
    if exp == "VALID":
        covs, matchs = set(cov), set(match)
        if any(r not in covs for r in reasons):
            return "VALID reasons contain a non-covering record"
        if len(set(reasons)) != len(reasons):
            return "VALID reasons contain a record twice"
        if not any(r in matchs for r in reasons):
            return "VALID reasons contain no matching record"
    return None


class SetSpec:
    """C02: the mathematical set"""

    def __init__(self):
        self.s = set()

    def add(self, rec):
        if rec in self.s:
            return -2
        self.s.add(rec)
        return 0

    def rm(self, rec):
        if rec not in self.s:
            return -3
        self.s.remove(rec)
        return 0

    def srcrm(self, src):
        self.s = set(r for r in self.s if r[5] != src)
        return 0


# ------------------------------------------------------------------------------------------
# generator classes that reach a particular region deterministically (each has a coverage gate in pfxcheck)
# ------------------------------------------------------------------------------------------

def observe(c, t=0):
    c.emit("dump %d" % t, ("dump",))
    c.emit("shape %d" % t, ("shape",))
    c.emit("log %d" % t, ("log",))


def emit_val(c, q, tag="val"):
    c.emit("val 0 %d %s %d %d" % (q[0], hexaddr(q[0], q[1]), q[2], q[3]), (tag, q))


def emit_reload(c, r, s, new_recs):
    """what rtr_sync does for a full reload of source s: shadow copy of the other sources' records, fill, swap, notify_diff,
    discard the old table"""
    c.emit("newnocb 1", ("new1",))
    c.emit("copyx 0 1 %d" % s, ("copyx", s))
    for rec in new_recs:
        rec = rec[:5] + (s,)
        c.emit("add 1 " + fmt_rec_args(rec), ("add1", rec))
    c.emit("swap 0 1", ("swap",))
    c.emit("diff 0 1 %d" % s, ("diff", s))
    c.emit("free 1", ("free1",))


def literal_sizes(lo, hi):
    """integer literals of the tree under test within [lo, hi]: a count the code treats specially (a buffer size, the
    range of a narrow counter spelled as a constant) is a literal of the source"""
    import vlib
    return [x for x in vlib.source_literals()["ints"] if lo <= x <= hi]


def fat_sizes(tier):
    """numbers of records on ONE prefix/length (one trie node).  255/256/257 and 65535/65536/65537: the ranges of 8 and 16
    bit counters; L-1, L, L+1 for every literal L of the sources in 64..70000.  returns [(size, light)]: `light` histories
    (fewer observations) for the big ones; the quick tier takes only L+1 above 1100 and nothing above 8000."""
    base = set([255, 256, 257, 300, 513])
    big = set()
    for L in literal_sizes(64, 70000) + [65536]:
        for n in (L - 1, L, L + 1):
            if n <= 1100:
                base.add(n)
            elif tier == "thorough" or (n == L + 1 and n <= 8000):
                big.add(n)
    return [(n, False) for n in sorted(base)] + [(n, True) for n in sorted(big)]


def gen_fat(r, hid, N, light=False):
    """one trie node holding N records (one prefix/length authorised for N origin AS / max-length / source triples), the
    node being an inner node of the trie; validation queries whose only matching record sits at a chosen array index
    (first, last, around N mod 256, random); removals by record at both ends and in the middle; removal of a source that
    owns exactly ONE of the N records (everything else must survive); removal of the majority source (node vanishes,
    a child's payload is pulled up)"""
    c = Case(hid, "fat")
    c.expect = {"node": N}
    v = r.choice((4, 6))
    w = W(v)
    ln = r.choice([0, 1, 8, 16, 24, w - 1, w])
    base = r.getrandbits(w)
    a = trunc(v, base, ln)
    minor, major, third = r.sample(SRCS, 3)
    pm = r.choice([0, N - 1, N // 2, r.randrange(N)])
    elems = []
    for i in range(N):
        src = minor if i == pm else (third if r.random() < 0.1 else major)
        ml = r.choice([ln, w, w, r.randrange(ln, w + 1)])
        elems.append((v, a, ln, ml, 100000 + i, src))
    neigh = []
    if ln > 0:
        pl = r.randrange(0, ln)
        neigh.append((v, trunc(v, base, pl), pl, r.randrange(pl, w + 1), r.choice(ASNS), r.choice(SRCS)))
    if ln < w:
        for side in (0, 1):
            cl = r.randrange(ln + 1, w + 1)
            ca = trunc(v, (a | (side << (w - ln - 1)) | (r.getrandbits(w) & ((1 << (w - ln - 1)) - 1))), cl)
            neigh.append((v, ca, cl, r.randrange(cl, w + 1), r.choice(ASNS), r.choice([minor, major, third])))
    r.shuffle(neigh)
    nb = r.randrange(len(neigh) + 1)
    c.emit("new 0", ("new",))
    for rec in neigh[:nb]:
        c.emit("add 0 " + fmt_rec_args(rec), ("add", rec))
    for rec in elems:
        c.emit("add 0 " + fmt_rec_args(rec), ("add", rec))
    for rec in neigh[nb:]:
        c.emit("add 0 " + fmt_rec_args(rec), ("add", rec))
    arr = list(elems)          # the node's array, in the implementation's order (append at the end, removal shifts down)

    def val_for(rec):
        ml = rec[3]
        n = r.randrange(ln, ml + 1)
        q = a | (r.getrandbits(w) & ((1 << (w - ln)) - 1) if ln < w else 0)
        emit_val(c, (v, trunc(v, q, n), n, rec[4]))

    def late(k=1):
        return [arr[-1 - j] for j in range(min(k, len(arr)))]
    idx = set([0, N - 1])
    if not light:
        idx |= set(i for i in (N - 2, N // 2, N % 256, N % 256 - 1, N % 65536, r.randrange(N), r.randrange(N), r.randrange(N)) if 0 <= i < N)
    for i in sorted(idx):
        val_for(arr[i])
    q = a | (r.getrandbits(w) & ((1 << (w - ln)) - 1) if ln < w else 0)
    emit_val(c, (v, q, w, 4200000001))           # no record matches: every covering record is a reason
    if not light:
        emit_val(c, (v, q, w, 0))
    observe(c)
    for where in (("last", "first") if light else ("last", "first", "mid")):
        cand = [j for j, x in enumerate(arr) if x[5] != minor]          # the minority record stays for the removal by source
        if len(cand) < 3:
            break
        j = cand[-1] if where == "last" else cand[0] if where == "first" else r.choice(cand[1:-1])
        rec = arr.pop(j)
        c.emit("rm 0 " + fmt_rec_args(rec), ("rm", rec))
        val_for(late()[0])
    if not light:
        observe(c)
    c.emit("srcrm 0 %d" % minor, ("srcrm", minor))
    arr = [x for x in arr if x[5] != minor]
    observe(c)
    for rec in late(1 if light else 3):
        val_for(rec)
    if not light:
        back = (v, a, ln, w, 100000 + N + 1, minor)
        c.emit("add 0 " + fmt_rec_args(back), ("add", back))
        arr.append(back)
        c.emit("srcrm 0 %d" % third, ("srcrm", third))
        arr = [x for x in arr if x[5] != third]
        observe(c)
        for rec in late(2):
            val_for(rec)
        c.emit("srcrm 0 %d" % major, ("srcrm", major))
        arr = [x for x in arr if x[5] != major]
        observe(c)
        for rec in late(1):
            val_for(rec)
    c.emit("free 0", ("free",))
    c.emit("log 0", ("log",))
    c.emit("dump 0", ("dump",))
    return c


SPINE_PATTERNS = ("left", "right", "alt", "rand")


def spine_base(r, v, pattern):
    w = W(v)
    if pattern == "left":
        return 0
    if pattern == "right":
        return (1 << w) - 1
    if pattern == "alt":
        x = int("aa" * (w // 8), 16)
        return x if r.random() < 0.5 else x >> 1
    return r.getrandbits(w)


def gen_spine(r, hid, v, pattern, order):
    """the deepest trie canonical prefixes can build: base/0, base/1, ..., base/w (33 resp. 129 nodes on one path), inserted
    in ascending, descending or random order; enumeration, validation at the leaf, a full reload of one source (shadow
    copy, swap, diff), removals at the root, in the middle and at the leaf, removal by source"""
    c = Case(hid, "spine")
    w = W(v)
    c.expect = {"depth%d" % v: w, "pattern": pattern}
    base = spine_base(r, v, pattern)
    recs = []
    for ln in range(w + 1):
        recs.append((v, trunc(v, base, ln), ln, r.choice([ln, w, r.randrange(ln, w + 1)]), r.choice(ASNS[1:]), r.choice(SRCS)))
    s = r.choice(SRCS)
    if r.random() < 0.6:                # the leaf (and its parent) belong to another source than the one reloaded
        for ln in (w, w - 1):
            recs[ln] = recs[ln][:5] + (r.choice([x for x in SRCS if x != s]),)
    seq = list(recs)
    if order == "desc":
        seq.reverse()
    elif order == "shuffle":
        r.shuffle(seq)
    c.emit("new 0", ("new",))
    for rec in seq:
        c.emit("add 0 " + fmt_rec_args(rec), ("add", rec))
    extra = [(v, trunc(v, base, ln), ln, w, r.choice(ASNS), r.choice(SRCS)) for ln in r.sample(range(w + 1), 3)]
    for rec in extra:                   # a second record on some nodes of the path
        c.emit("add 0 " + fmt_rec_args(rec), ("add", rec))
    observe(c)
    leaf = recs[w]
    emit_val(c, (v, base, w, leaf[4]))
    emit_val(c, (v, base, w, 4200000001))
    emit_val(c, (v, base ^ 1, w, leaf[4]))
    mid = r.randrange(1, w)
    emit_val(c, (v, trunc(v, base, mid), mid, recs[mid][4]))
    olds = [x for x in recs + extra if x[5] == s]
    keep = [x for x in olds if r.random() < 0.6]
    new = [(v, trunc(v, base, w) ^ 1, w, w, 65001, s), (v, trunc(v, base, w), w, w, 65099, s)]
    if w > 1:
        new.append((v, trunc(v, base, w - 1), w - 1, w, 65098, s))
    fill = keep + new
    r.shuffle(fill)
    emit_reload(c, r, s, fill)
    observe(c)
    emit_val(c, (v, base, w, leaf[4]))
    emit_val(c, (v, base, w, 4200000001))
    for rec in (recs[0], recs[mid], recs[w]):
        c.emit("rm 0 " + fmt_rec_args(rec), ("rm", rec))
    observe(c)
    s2 = r.choice(SRCS)
    c.emit("srcrm 0 %d" % s2, ("srcrm", s2))
    observe(c)
    emit_val(c, (v, base, w, leaf[4]))
    c.emit("free 0", ("free",))
    c.emit("log 0", ("log",))
    c.emit("dump 0", ("dump",))
    return c


def noncanon_spines(tier):
    """numbers of nodes on one root path for the non-canonical class: the maximum (2w+1: w records `path address with bit d
    flipped`/0 and path/0 .. path/w), the canonical maximum +1, +2, and L-1 .. L+2 for every literal L of the sources
    in 34..2w+1 (a fixed stack / recursion bound on the depth is spelled in the code)"""
    out = {}
    for v in (4, 6):
        w = W(v)
        top = 2 * w + 1
        ms = set([top, top - 1, w + 2, w + 3])
        for L in literal_sizes(w + 2, top):
            for m in (L - 1, L, L + 1, L + 2):
                if w + 2 <= m <= top:
                    ms.add(m)
        out[v] = sorted(ms)
    return out


def gen_noncanon_spine(r, hid, v, M, pattern):
    """records whose host bits are set are distinct keys of the trie and are accepted by pfx_table_add (a cache can send
    them: only the lengths of a Prefix PDU are checked).  With them one root path holds up to 2w+1 nodes: `A with bit d
    flipped`/0 for d = 0..h-1 (inserted in this order: record d agrees with A on d leading bits and sits at depth d), then
    M-h records A/l.  Enumeration, shadow copy + swap + diff, removals and removal by source on such a table are judged by
    the set semantics (C02) and the callback replay (C09); validation answers are compared with the model only."""
    c = Case(hid, "ncspine")
    w = W(v)
    c.expect = {"ncnodes%d" % v: M, "pattern": pattern}
    A = spine_base(r, v, pattern)
    lo = max(0, M - (w + 1))
    h = r.randrange(lo, min(M, w) + 1)
    if r.random() < 0.5:
        h = min(M, w)
    k = M - h
    recs = []
    for d in range(h):
        recs.append((v, A ^ (1 << (w - 1 - d)), 0, r.choice([0, w, r.randrange(0, w + 1)]), r.choice(ASNS), r.choice(SRCS)))
    tail = []
    for ln in sorted(r.sample(range(w + 1), k)):
        tail.append((v, A, ln, r.choice([ln, w]), r.choice(ASNS), r.choice(SRCS)))
    if r.random() < 0.5:
        r.shuffle(tail)
    c.emit("new 0", ("new",))
    for rec in recs + tail:
        c.emit("add 0 " + fmt_rec_args(rec), ("add", rec))
    allrecs = recs + tail
    observe(c)
    for _ in range(3):
        x = r.choice(allrecs)
        emit_val(c, (v, x[1], r.randrange(x[2], w + 1), x[4]), tag="valx")
    for rec in r.sample(allrecs, min(4, len(allrecs))):       # every stored record is a duplicate for add
        c.emit("add 0 " + fmt_rec_args(rec), ("add", rec))
    s = r.choice(SRCS)
    olds = [x for x in allrecs if x[5] == s]
    fill = [x for x in olds if r.random() < 0.6] + [(v, A ^ 1, w, w, 65001, s), (v, A, w, w, 65099, s)]
    emit_reload(c, r, s, fill)
    observe(c)
    for rec in r.sample(allrecs, min(6, len(allrecs))):
        c.emit("rm 0 " + fmt_rec_args(rec), ("rm", rec))
    observe(c)
    s2 = r.choice(SRCS)
    c.emit("srcrm 0 %d" % s2, ("srcrm", s2))
    observe(c)
    c.emit("free 0", ("free",))
    c.emit("log 0", ("log",))
    c.emit("dump 0", ("dump",))
    return c


def gen_allocfail(r, hid, nops):
    """failing allocator: every operation of a short history is first attempted with the k-th allocation request of that
    operation failing, k = 1 .. 5 for an add (it makes at most three requests), 1 .. 2 / 1 .. 3 for the others, each attempt followed by the full observation, then
    executed normally.  The first add into each (empty) address family always comes first."""
    c = Case(hid, "allocfail")
    u = Universe(r)
    c.emit("new 0", ("new",))
    stored = []
    first = []
    for v in r.sample((4, 6), 2):
        cand = [p for p in u.prefixes if p[0] == v]
        p = r.choice(cand)
        first.append(("add", (p[0], p[1], p[2], r.randrange(p[2], W(v) + 1), r.choice(ASNS), r.choice(SRCS))))
    plan = list(first)
    for _ in range(nops):
        x = r.random()
        if x < 0.5 or not stored and not plan:
            plan.append(("add", u.rec(r)))
        elif x < 0.6:
            plan.append(("add", None))          # a second element on an existing node / a duplicate
        elif x < 0.8:
            plan.append(("rm", None))
        elif x < 0.9:
            plan.append(("srcrm", r.choice(SRCS)))
        else:
            plan.append(("val", None))
    for kind, arg in plan:
        if kind == "add":
            if arg is None:
                base = r.choice(stored) if stored else u.rec(r)
                arg = base if r.random() < 0.3 else base[:3] + (r.choice([base[3], W(base[0])]), r.choice(ASNS), r.choice(SRCS))
            line, tag, K = "add 0 " + fmt_rec_args(arg), ("add", arg), 5
            stored.append(arg)
        elif kind == "rm":
            arg = r.choice(stored) if stored and r.random() < 0.85 else u.rec(r)
            line, tag, K = "rm 0 " + fmt_rec_args(arg), ("rm", arg), 2
        elif kind == "srcrm":
            line, tag, K = "srcrm 0 %d" % arg, ("srcrm", arg), 2
        else:
            q = u.query(r, stored)
            line, tag, K = "val 0 %d %s %d %d" % (q[0], hexaddr(q[0], q[1]), q[2], q[3]), ("val", q), 3
        for k in range(1, K + 1):
            c.emit("fail %d" % k, ("fail", k))
            c.emit(line, tag)
            c.emit("failinfo", ("failinfo",))
            observe(c)
        c.emit(line, tag)
        observe(c)
    for _ in range(4):
        q = u.query(r, stored)
        emit_val(c, q)
    c.emit("free 0", ("free",))
    c.emit("log 0", ("log",))
    c.emit("dump 0", ("dump",))
    return c
