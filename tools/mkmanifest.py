#!/usr/bin/env python3
"""Writes /verif/MANIFEST.json from the table below (single source of truth for what is claimed)."""
import json
import os

HERE = os.path.dirname(os.path.dirname(os.path.abspath(__file__)))

TB = ("Trusted base: Lean 4.33 kernel (axioms propext, Classical.choice, Quot.sound only; audited by #print axioms on every run; "
      "no sorry/admit/native_decide/bv_decide), the hand-written Lean model tied to the C code by the differential "
      "correspondence harness (C compiled from /repo's working tree with ASan+UBSan and assertions on), the Python oracle/diff glue. ")

CHECKS = {
    "C01": dict(
        text="Proof: validation walk of the trie model = RFC 6811 over the flat record list, for every well-formed table (all "
             "tables reachable by any add/remove/src-remove history), every query, both families; reasons clause included; IPv4 and IPv6 bit "
             "code (lrtr_get_bits, the four-word cascade of lrtr_ipv6_get_bits) linked to the abstract bit view by theorem. Tie: model vs trie.c/trie-pfx.c on random histories incl. trie shape (validate_r entered in all three caller states of (reason, reason_len) the API allows); "
             "a CBMC obligation shows for every argument the trie passes that lrtr_get_bits / lrtr_ipv6_get_bits are the bit-field extraction the model is proved against, without undefined shifts.",
        note=TB + "Single-threaded; no allocation failure (C16, C18).",
        technique="Lean 4 theorems (structural induction over the trie, invariant WF) + differential correspondence of the executable model",
        design="§5 C01"),
    "C02": dict(
        text="Proof: refinement of add/remove/src_remove/enumerate to a mathematical set for every finite operation history "
             "(history_refines), incl. return codes and duplicate-free enumeration. Tie: as C01 (return codes, dump, trie shape compared after every op).",
        note=TB + "Records are required to have well-formed prefixes (len ≤ 32/128, host bits zero); max-length, AS, source arbitrary.",
        technique="Lean 4 refinement proof (trie -> finite set) + differential correspondence",
        design="§5 C02"),
    "C09": dict(
        text="Proof: the callback log replays, without any spurious/repeated entry, to exactly the table contents after every history of "
             "add/remove/src_remove, atomic reloads (copy_except_socket + swap + notify_diff: exactly the net difference for the reloading cache is "
             "reported, notifyDiff_net / reload_log_replays / log_replays_reload) and after destruction (free_log).",
        note=TB + "Rollback of a failed synchronisation is a sequence of add/remove (covered by log_replays); on the implementation the callbacks of both tables are "
             "replayed into a shadow set inside the protocol harness during thousands of synchronisations and state-machine conversations and compared with the table at every dump.",
        technique="Lean 4 invariant over operation histories (ghost callback log) + differential correspondence",
        design="§5 C09"),
}

CHECKS["C10"] = dict(
    text="Proof: representation invariant of the linear hash table (tommy_hashlin: stable/grow/shrink, split index, every node in the bucket "
         "of its key, count) preserved by insert+grow step and remove+shrink step for any hash function and any history; search finds exactly "
         "the stored nodes; the router-key table refines a finite set of (AS, SKI, key, source) records for every history of add/remove/"
         "src_remove/copy/swap/notify_diff/free incl. return codes (history_refines); get_all / search_by_ski return exactly the matching keys; "
         "the callback log replays to the contents (spki_log_replays) and notify_diff reports exactly the net difference. Tie: literal model vs "
         "ht-spkitable.c + tommyhashlin.c incl. internal observables (count, bucket_bit, split, state, bucket order) after every op.",
    note=TB + "bucket[bsr][pos] segment arithmetic flattened to an index; counts are Nat (agrees with C while count < 2^29); locks and "
         "allocation failure not modelled here (C16, C18); spki_table_free emits no removal callbacks (modelled literally, free excluded from log histories).",
    technique="Lean 4 invariant + refinement proofs over a literal model of tommy_hashlin and ht-spkitable + differential correspondence",
    design="§5 C10")

CHECKS["C20"] = dict(
    text="Proof (over tables and function shapes regenerated from the source on every run): every declared enumerator of rtr_socket_state / "
         "rtr_mgr_status maps to its own name, every other integer to NULL, no read outside the name table, for ALL integers (toStr_spec_*). "
         "Tie: translator (clang AST + compiled probes) regenerates RtrModel/Generated/Names.lean each run; the real functions are called "
         "under ASan/UBSan on every enumerator, boundary values and random 32-bit values and compared with the model.",
    note=TB + "translator tools/gen_constants.py (clang-14 JSON AST for names and function shape, gcc probes for values); gcc/clang modulo-2^32 conversion to the enum type.",
    technique="Lean 4 theorems (whole-table decide + range split over all Int) over a model generated from the source + differential calls",
    design="§5 C20")
CHECKS["C17"] = dict(
    text="Proof: rtr_init rejects out-of-range intervals; after any End of Data the three timers are exactly what the configured mode prescribes "
         "for ALL 32-bit values (eod_intervals), hence in range unless accept-any, across any history (history_in_range); version 0 never changes "
         "them; wait timeout = max 0 (last_update + refresh - now); Serial Notify polls at once. Range constants regenerated from the source and "
         "proved equal to the RFC 8210 literals. Tie: static functions reached by #include packets.c, real rtr_sync / rtr_wait_for_sync / rtr_start "
         "on a scripted transport with a fake clock.",
    note=TB + "clock does not advance inside one transport call except as scripted; time_t does not overflow.",
    technique="Lean 4 theorems over UInt32 (all values) + generated constants + differential correspondence",
    design="§5 C17")

CHECKS["C15"] = dict(
    text="Proof (any number of groups and sockets, any finite history of socket state changes, add/remove-group, start, stop): init/add rejections, "
         "last group kept, groups strictly ascending by preference after every operation (sorted_inv), a group becomes ESTABLISHED only when all its "
         "sockets are synced, establishing closes every less-preferred group with a CLOSED callback and an rtr_stop per socket, no rtr_stop is ever "
         "issued on behalf of a less-preferred group (never_closed_for_worse), an ERROR with no ESTABLISHED group starts the most-preferred CLOSED group. "
         "Tie: real rtr_mgr.c / rtr_start / rtr_stop / rtr_change_socket_state with parked FSM threads; status callbacks, start/stop log and group "
         "enumeration compared after every op.",
    note=TB + "callbacks and API used from one thread (rwlock not exercised); user status callback passive; 'reported ESTABLISHED' read as 'becomes ESTABLISHED' "
         "(set_status re-issues the unchanged status on every socket state change: theorem rereport_while_unsynced documents it).",
    technique="Lean 4 invariants by induction over operation histories of a literal model of rtr_mgr.c + differential correspondence",
    design="§5 C15")

CHECKS["C19"] = dict(
    text="Proof: for all 2^32 IPv4 and all 2^128 IPv6 addresses the text produced parses back to the same address (fmt4_parse4, fmt6_parse6: case "
         "analysis over every zero-run position/length with symbolic words, embedded-IPv4 forms included); the formatter's output lies in the RFC 4291 text "
         "language and every string of that language (= what the inet_pton model accepts) is parsed to its value; the parser never reads a word it has not "
         "written (parse6_defined) so the result depends only on the text; conversion writes at most the given length. Tie: library vs model vs real "
         "inet_pton/inet_ntop on formatted addresses, grammar-generated strings, mutations, all buffer lengths 0..50 with canaries, two stack poisonings.",
    note=TB + "glibc sscanf(%3hhu)/snprintf/sprintf(%x) and inet_pton are modelled by small Lean functions validated differentially on every run (completeness of the inet_pton recogniser is differential, not proved).",
    technique="Lean 4 theorems over character-level models of the formatters/parsers + differential correspondence against the library and the platform parser",
    design="§5 C19")

CHECKS["C16"] = dict(
    text="Proof (generic, any number of threads, any paths): if every access of every thread is guarded (reads under R or W of the table's lock, writes under W) "
         "no reachable state of the interleaving semantics has two conflicting accesses of different threads enabled (guarded_no_race); the abstract "
         "value of a table changes only in steps of the thread holding its write lock and is constant during any read section (writes_only_under_W, "
         "read_section_snapshot); the path-insensitive checker wellLocked is sound. Generated each run from the clang AST of trie-pfx.c, trie.c, "
         "ht-spkitable.c: every public function is well locked (decide over the whole table) hence api_no_race / api_reads_snapshot. PARTIAL: full "
         "serialisability (linearization point = lock acquisition composed with the sequential correctness of C01/C02/C10) is stated but only its "
         "snapshot part is proved (reads_linearizable_partial). Failing-input search: TSan stress harness, N readers + 1 writer, version-window oracle.",
    note=TB + "POSIX rwlock semantics as coded in the model; distinct table parameters are distinct tables; user callbacks do not touch table state; "
         "gen_locks.py incl. its effect table for tommyds/libc entry points; ThreadSanitizer on the implementation side.",
    technique="Lean 4 proofs over an interleaving semantics + lock IR regenerated from the source (translator) + TSan stress",
    design="§5 C16")
CHECKS["C06"] = dict(
    text="Proof: the reload (copy_except_socket into private shadows, fill, rtr_swap_tables = ONE critical section under the write locks of both live "
         "tables with both swaps inside, notify_diff, free) write-locks each live table at most once; per table, in every interleaving every reader "
         "section observes the complete old or the complete new contents, never new then old (reload_two_states, never_new_then_old, stable_answers); "
         "across the two tables: on every path of the reload the write section of the prefix table contains the only write acquisition of the "
         "router-key table (swap_section_combined: an automaton over lock events accepts every path of the lock IR, checker proved sound), hence "
         "outside that section both swaps are ahead or both are done, the pair of tables is (old, old) or (new, new), and no reader sees new data of "
         "one table and afterwards old data of the other (cross_table_atomic, cross_table_two_states, never_new_pfx_then_old_keys, "
         "never_new_keys_then_old_pfx, stable_pair_answers). The reload call sequence and the combined section are extracted from packets.c and "
         "compared by decide. Failing-input search: TSan/ASan stress with an oracle in which a reload is one step for both tables, plus two "
         "parked-reader schedules on the real reload path (a reader that sees new prefixes with old router keys is a violation; this was the "
         "known finding C06/cross-table until the reload got its combined section).",
    note=TB + "as C16; the purge path after a failed undo writes the live tables without a swap (C03's domain) and is outside this model.",
    technique="Lean 4 proofs over the lock IR of the reload path regenerated from the source + TSan stress with two-state/monotonicity oracle",
    design="§5 C06")

CHECKS["C11"] = dict(
    text="Proof: for all path lengths, signature lengths and NLRI lengths the byte stream align_byte_sequence builds, cut at the per-hop offsets "
         "of the validation loop, equals the RFC 8205 section 4.2 digest written independently as a recursion over the path (align_eq_rfc); "
         "validate = VALID iff the pre-checks pass and for every hop some key registered for the segment's SKI and the Secure_Path segment's AS "
         "verifies hash(digest i) (decision, full strength); equal digests force equal signed fields (digest_injective); error-code precedence, never VALID. "
         "Tie: align/size byte-for-byte; end-to-end with fresh OpenSSL P-256 keys signing the Lean digest, all single-bit corruptions, key tables "
         "with several keys per SKI and keys under other AS numbers.",
    note=TB + "SHA-256, ECDSA, DER and key loading are uninterpreted hash/verify/sign (OpenSSL in the runs); counters are unbounded Nat; NLRI trailing bits are the caller's duty.",
    technique="Lean 4 theorems over a byte-level model with uninterpreted crypto + differential correspondence with real crypto",
    design="§5 C11")
CHECKS["C12"] = dict(
    text="Proof: the signing digest equals the RFC 8205 digest for all lengths (sign_digest_eq_rfc); a path built hop by hop from generated signatures "
         "validates VALID at every stage under the verify-after-sign assumption per key pair (hop_by_hop_valid, induction on hops); error codes. "
         "Tie: generated signatures verified with OpenSSL ECDSA_verify over SHA-256 of the Lean digest, strict DER parse, N-hop paths validated by rtrlib.",
    note=TB + "as C11: randomised ECDSA and DER live in OpenSSL.",
    technique="Lean 4 theorems over a byte-level model with uninterpreted crypto + differential correspondence with real crypto",
    design="§5 C12")

RTR_TIE = ("Tie: the real packets.c / rtr.c / transport.c (static functions reached by #include, the real rtr_fsm_start in its own thread) run on a scripted "
           "transport with a fake clock; every transport call, sleep, state callback, table dump at open() is compared line by line with the model's "
           "trace on thousands of mutated responses (sync level) and reactive conversations with fault schedules (state-machine level); the property's "
           "own oracle is evaluated on the implementation's trace. ")
RTR_NOTE = TB + ("Tables are the abstract sets justified by C02/C10; thread cancellation is not modelled (the script ends by a stop request observed in recv); "
                 "the transport delivers at least one byte per successful call; unaligned 32-bit loads in packets.c are tolerated (-fno-sanitize=alignment).")
CHECKS["C03"] = dict(
    text="Proof: for every socket state, every pair of duplicate-free tables and every transport script, rtr_sync (model syncG) either succeeds - then "
         "every buffered Prefix/Router-Key PDU was applied in order to the previous tables (or, for a reload, to the tables without this cache's records), "
         "the serial is the End of Data's, the session the one both PDUs carry - or fails - then the tables are exactly as before with the same next query, or "
         "all of this cache's records are gone and a Reset Query is pending; records of other caches are never touched (sync_success, sync_failure, "
         "others_untouched; key lemma forward_undo: a forward-order undo that succeeds at every step restores). " + RTR_TIE,
    note=RTR_NOTE, technique="Lean 4 refinement/invariant proofs over an executable model of rtr_sync + differential correspondence + trace oracle",
    design="§5 C03")
CHECKS["C04"] = dict(
    text="PARTIAL (memory safety is not a theorem). Proved on the model: the outcome of tr_recv_all, rtr_receive_pdu, rtr_sync and rtr_wait_for_sync depends only "
         "on the byte stream and the placement of faults, not on its segmentation into reads (recvAll_chunking, receivePdu_chunk_independent, syncG_chunk_independent, "
         "waitForSync_chunk_independent; arbitrary tapes incl. faults); the size check accepts exactly the ten known types with their exact lengths incl. the nested "
         "lengths of an Error Report (checkSize_spec); a length below 8, above RTR_MAX_PDU_LEN or inconsistent with the type, and unknown types, make rtr_receive_pdu fail "
         "and nothing of the PDU is handed on (bad_length_rejected, receivePdu_ok_checked); every receive consumes input or ends (recv_terminates_consumes), which with "
         "C08's ranking argument bounds every call. NOT proved: absence of invalid memory accesses / assertion failures in the C code - decided by running the real "
         "receive path under ASan+UBSan with assertions on, and again under MemorySanitizer, on every generated stream (hostile field values incl. every 32-bit "
         "wrap-around candidate of the nested lengths, truncations, oversizes, garbage), each in several segmentations (also whole conversations re-chunked), with the same "
         "outcome required. Additionally three CBMC obligations re-checked on every run tie small C functions to their specification for EVERY input, with full "
         "pointer/bounds/shift checks on the real receive-buffer size: rtr_pdu_check_size == KnownSize (the right-hand side of the Lean theorem checkSize_spec), "
         "the in-place byte-order conversions stay inside a size-checked PDU, lrtr_get_bits/lrtr_ipv6_get_bits == bit-field extraction for the trie's calling patterns; "
         "a CBMC counterexample of the size check is turned into a PDU and replayed on the real receive path. " + RTR_TIE,
    note=RTR_NOTE + " Unaligned accesses through the packed PDU structs are excluded from UBSan for this harness (see DESIGN.md, false alarms).",
    technique="Lean 4 proofs of chunk-independence and of the size check over the receive-path model + CBMC equivalence/memory-safety obligations for the size check, conversions and bit access + differential correspondence under ASan/UBSan/MSan with wrap-around-aware stream generator",
    design="§5 C04")
CHECKS["C05"] = dict(
    text="Proof: the query the state machine sends is a function of the session part (Reset Query iff a new session is requested, else Serial Query with "
         "the stored session and serial: connecting_query / reset_query); a successful synchronisation sets it to the session and serial of its End of Data, "
         "whose session equals the Cache Response's and the established one (after_eod, foreign_session_refused); every other iteration leaves it unchanged or "
         "turns it into a Reset Query (stable_until); Cache Reset, no-data, expiry and stop force a Reset Query (reset_causes). " + RTR_TIE,
    note=RTR_NOTE, technique="Lean 4 invariant over every iteration of the state-machine model + differential correspondence + trace oracle",
    design="§5 C05")
CHECKS["C07"] = dict(
    text="Proof: last_update is exactly the time of the last successful rtr_sync or 0 after a purge - every iteration leaves it alone (records same set or gone), "
         "clears it together with a purge and a pending Reset Query, or sets it to the completion time of a successful sync (last_update_written; a failed or "
         "interrupted reload does not touch it); invariant over all histories: records of this socket present => time stamp non-zero, no time stamp => Reset Query "
         "(invariant, invariant_init); hence at every open() with last_update+expire<now the tables hold nothing of this socket, others untouched, next state RESET "
         "(expiry_at_open); rtr_stop purges (stop_clears). The clock is monotone (RtrProofs.TimeMono). " + RTR_TIE +
         " The FSM oracle checks on the real thread: tables at every open(), first query after an expired open(), tables after rtr_stop, other sockets' records.",
    note=RTR_NOTE, technique="Lean 4 invariant over all histories of the state-machine model (clock monotone) + differential correspondence with fake clock + trace oracle",
    design="§5 C07")
CHECKS["C08"] = dict(
    text="Proved on the model, for all socket states, tables, intervals, data sets and segmentations. PROGRESS (RtrProps/C08.lean): every iteration of the state machine "
         "lets the clock advance, or consumes part of the scripted environment, or moves down a finite rank of states (no_zero_time_cycle), so at most 4 consecutive "
         "iterations take no time and consume nothing (bounded_zero_time_steps, steps_bounded); the clock is monotone; error states sleep exactly retry_interval and are "
         "not absorbing (retry_sleep_advances, error_states_reconnect); the limit retry_interval=0 (only in interval mode ACCEPT_ANY) is a theorem (retry_zero_cycle). "
         "CONVERGENCE (RtrProps/C08b.lean): completeness of rtr_receive_pdu and of rtr_sync for the correct answer to a Reset Query and to a Serial Query "
         "(sync_complete_reset / _serial / _items: success, the socket's records are exactly the cache's data, others untouched, session/serial/intervals/update time "
         "as in the End of Data); from ERROR_TRANSPORT, ERROR_FATAL, ERROR_NO_DATA_AVAIL, ERROR_NO_INCR_UPDATE_AVAIL, FAST_RECONNECT, CONNECTING or RESET, once open and "
         "send succeed and the cache answers the query the socket sends (which query is a function of its state, C05), at most 4 iterations lead to ESTABLISHED with "
         "exactly the cache's data and at most one retry_interval of protocol time passes (converges_with_reset_query, converges_with_serial_query, ...). "
         "MULTI-EXCHANGE (RtrProps/C08c.lean): the wait in ESTABLISHED ends at a Serial Notify or exactly at last_update+refresh and the increment is applied in 2 iterations "
         "(established_polls_and_updates); Cache Reset -> Reset Query -> reload in exactly 4 iterations and no time (converges_after_cache_reset); 'No Data Available' -> one "
         "retry interval -> reload (converges_after_no_data); a Cache Response of a foreign session is refused, nothing is purged, and three exchanges / 7 iterations / one "
         "retry interval later the socket holds the new session's data (converges_after_session_change); a reactive cache given as a function from the socket's query to "
         "its reply brings any of the seven recovery states to ESTABLISHED with exactly its data in at most 2 exchanges, 6 iterations and one retry interval "
         "(converges_eventually), and an ESTABLISHED socket in 2 resp. 5 iterations after the wait (established_converges_eventually). "
         "STILL PARTIAL: unboundedly repeated 'no data' rounds (each costs one retry interval, the induction is not stated), version negotiation composed with a good "
         "exchange, notifications or clock advances inside an answer, and the refresh+expire part of the time bound (the fault phase: C07 + progress) are decided on the "
         "implementation by correspondence: fault schedules (every transport call site x fault kind, generated reactively from the model's own queries, "
         "per-connection byte streams) followed by a correct simulated cache; the oracle checks on the real thread that the run ends ESTABLISHED with exactly the "
         "cache's records within the time bound. " + RTR_TIE,
    note=RTR_NOTE, technique="Lean 4 ranking-function proof (progress) and completeness/convergence proof (good cache => ESTABLISHED with the cache's data in <= 4 iterations) over the state-machine model + differential correspondence with reactive simulated cache and fake clock",
    design="§5 C08")
CHECKS["C13"] = dict(
    text="Proof: over any run (any reconnects, any script) the version never rises and stays supported (version_monotone); it changes only in the three "
         "legitimate places - first PDU of a connection with a lower supported version, Unsupported-Version error report with a lower version (then FAST_RECONNECT), "
         "hang-up before any session exists (then FAST_RECONNECT); every PDU handed on for processing carries the socket's version unless it is an Error Report, "
         "a mismatching header is answered with code 8 and not read further; End of Data formats per version (eod_format). " + RTR_TIE,
    note=RTR_NOTE, technique="Lean 4 monotonicity/invariant proofs over the receive path and the state-machine model + differential correspondence + trace oracle",
    design="§5 C13")

CHECKS["C14"] = dict(
    text="Proof: Serial Query, Reset Query and Error Report as built by the client are complete PDUs of the socket's version whose length field equals their length "
         "and is within RTR_MAX_PDU_LEN, and pass the client's own size check (serialQuery_wf, resetQuery_wf, errorPdu_wf, *_fields: code, encapsulated length and bytes, "
         "text length and bytes, total length); tr_send_all hands exactly those bytes to the transport however the writes are split, and a prefix if a write fails "
         "(sendAll_chunking, sendAll_prefix); nothing is sent in reply to an Error Report (no_reply_to_error); the in-place byte-order conversions are inverse to each "
         "other for every buffer, so the echoed copy (header only or whole PDU) is byte-exact as received (conv_roundtrip, echo_header_exact), stay inside a checked PDU "
         "(conv_in_bounds), and every field the protocol model reads big-endian is the field the C code reads from the converted struct (Conv.toHost_reads). "
         "ERROR REPORTS (RtrProps/C14b.lean, relation Sent between environments built from the real model primitives): rtr_sync / rtr_receive_pdu / rtr_wait_for_sync "
         "send at most one Error Report, only when they fail; it is a well-formed PDU of the socket's version with consistent length fields; its encapsulated bytes are "
         "the first 8 bytes or the whole of the offending PDU exactly as received at a PDU boundary of the stream (or empty for the one site that reports a Cache Response "
         "of a foreign session); the code is the one of the violation class (site->code table as theorems: receive_violation_reported, pfx_codes, key_codes, "
         "eod_session_mismatch_reported, ...; codes are the RFC 8210 constants); nothing is ever sent in reply to an Error Report, whatever is wrong with it "
         "(no_report_for_error_pdu_*). Stated limit (waitForSync_silent): while waiting for a Serial Notify, any other well-formed PDU is consumed and ignored without a "
         "report - the client does not treat it as a violation. On the implementation the same is checked by correspondence + the sent-PDU oracle (each Error Report "
         "matched against the bytes consumed); uninitialised bytes are found by a "
         "MemorySanitizer build of the same harness whose transport formats every byte sent. Second tie: tools/pduconvcheck.py runs the real static conversion "
         "functions of packets.c against RtrModel.PduConv; a CBMC obligation shows for every size-checked PDU that the conversions stay inside it. " + RTR_TIE,
    note=RTR_NOTE, technique="Lean 4 proofs over the PDU builders, tr_send_all and the byte-order conversions + two differential correspondences (protocol trace, conversion functions) + MSan",
    design="§5 C14")

CHECKS["C18"] = dict(
    text="PARTIAL (the allocator is an oracle). Proved on the model (RtrModel/Alloc.lean: every table operation and the allocating part of rtr_sync with their "
         "allocation sites in the order of the C code, an oracle that refuses the k-th request): without refusals the functions coincide with the C02/C10 models "
         "(failure_free_coincides); for every operation and every k a refused request yields the error code with the table exactly as before, or - the request was "
         "optional: a shrinking realloc, a hash-table growth segment - the complete undisturbed effect (fail_contained*, hashlin_grow_optional); invariants hold "
         "after any refusal (fail_keeps_invariant); block accounting: net allocations = change of table blocks for every operation and budget, a failing call "
         "leaves nothing allocated, any history followed by free is balanced and never uses libc free (alloc_count, balanced, configured_free_only); rtr_sync under "
         "any refusal is all-or-nothing-or-purged and leak-free (sync_fail_clean, sync_no_leak). Theorems about the unfixed variants are kept as witnesses "
         "(F15/F16a/F16c/F16d_unfixed_*). Tie: the harness installs a counting allocator that refuses the k-th request via lrtr_set_alloc_functions, wraps libc free, "
         "runs each operation for k = 0,1,2,... until undisturbed (rtr_sync on a scripted transport), under ASan/UBSan; the model driver replays the same file; "
         "a set-semantics oracle and a coverage gate over 22 allocation-site classes judge the implementation's output.",
    note="The real allocator, block sizes and realloc's old size are not modelled; a refused optional request (shrink, growth) is absorbed, which the property's "
         "'reports an error' clause is read to permit because the operation then has its complete effect (see DESIGN.md 0.5). Five defects (F15, F16a-d) were "
         "repaired in /repo.",
    technique="Lean 4 proofs over an allocation-site model with a refusing oracle + differential correspondence with an injected failing allocator (every k) + set/accounting oracle",
    design="§5 C18")

NOT_YET = {}

# additions that apply to several properties (DESIGN.md 0.8, 0.9)
TIE = {
    "C01": "lrtr_get_bits, lrtr_ipv4/ipv6_get_bits, lrtr_ip_addr_is_zero/get_bits/equal and trie.c is_left_child",
    "C04": "rtr_get_pdu_type, rtr_pdu_check_size and the in-place header conversion (incl. rtr_pdu_check_size_safe / _mem_indep: for every content, every "
           "nested length of an Error Report, the size check reads only inside the received PDU - the memory-safety clause for this function is a theorem, not an observation)",
    "C10": "tommy_inthash_u32, key_entry_cmp (0 exactly when AS, SKI, SPKI and source agree) and the two record copy helpers",
    "C14": "lrtr_convert_short/long, rtr_pdu_convert_header_byte_order, tr_send_all (chunks contiguous and complete for every transport behaviour), the query "
           "senders (record handed to rtr_send_pdu), rtr_send_error_pdu / rtr_send_pdu / rtr_send_error_pdu_from_host (the bytes handed over are exactly the "
           "Error Report: lengths consistent, encapsulated copy byte-exact, no byte from uninitialised memory; never in reply to an Error Report) and the "
           "echo of rtr_receive_pdu (receive_pdu_echo), and the body conversion rtr_pdu_convert_footer_byte_order with the two address helpers of rtrlib/lib inlined "
           "(for every memory, size, pointer and direction: exactly the 32-bit words the type and version name are swapped in place, defined iff they lie inside "
           "the object, to-network then to-host is the identity - CLinkFooter)",
    "C17": "rtr_check_interval_range, apply_interval_value, rtr_check_interval_option (with the frame condition on struct rtr_socket), rtr_get/set_interval_mode, "
           "rtr_wait_for_sync (timeout = max 0 (last_update + refresh - now)), tr_recv_all (the deadline is fixed by the first clock reading, never re-armed) "
           "and rtr_init (accepts exactly the RFC 8210 ranges - the acceptance condition of the C text is C17.InRange - and writes exactly the listed fields)",
    "C05": "the state machine's control skeleton rtr_fsm_start (query choice in CONNECTING / RESET), rtr_stop, the query senders, rtr_handle_cache_response_pdu "
           "and rtr_sync (request_session_id is cleared only after the payload was stored), rtr_send_pdu and tr_send_all (a query is handed to the transport "
           "once, converted, and sent in contiguous chunks - no restart at byte 0)",
    "C06": "the handlers that write the socket fields deciding between the live tables and the shadow tables of a reload: rtr_handle_error_pdu (a downgrade changes "
           "the version only), rtr_handle_cache_response_pdu, rtr_sync, rtr_send_reset_query, rtr_set_last_update",
    "C07": "rtr_purge_outdated_records, the CONNECTING iteration of rtr_fsm_start (purge before tr_open), rtr_stop (resets after the join), rtr_set_last_update and rtr_sync",
    "C08": "rtr_fsm_start (one iteration = a readable skeleton specification; the model's fsmStep is that skeleton instantiated with the model's sub-operations; every "
           "iteration in a proper state makes an external call; error states close, change to CONNECTING and sleep retry_interval), rtr_sync and the transport-error "
           "handling of rtr_receive_pdu; the translation of the state machine is validated by replaying logged real runs (harness -DXTRACE)",
    "C13": "rtr_receive_pdu (the version changes only by the live downgrade on the first PDU of a connection; any other PDU of another version is refused with code 8 "
           "and nothing more is received), rtr_sync (downgrade on TR_CLOSED before a session exists), rtr_handle_error_pdu (downgrade on error code 4), and the "
           "reset of has_received_pdus in CONNECTING",
}
TIE["C04"] += ("; rtr_receive_pdu as a whole (receive_pdu_defined: under the caller's contract it never reads or writes outside the receive buffer and its own header "
               "copy, for every byte stream, segmentation and callee answer; lengths < 8 and > RTR_MAX_PDU_LEN are rejected before the payload is received; agreement with "
               "the model's receivePdu), tr_recv_all (never returns after a short read) and rtr_handle_error_pdu (reads stay inside a size-checked PDU)")
GATE = ("C01", "C02", "C03", "C09", "C10")
for _pid, _fns in TIE.items():
    CHECKS[_pid]["text"] += (" Translation tie: the C text of " + _fns + " is translated from clang's typed AST into Lean on every run "
                             "(tools/gen_cfuns.py -> Generated/CFuns.lean; undefined behaviour = no result) and proved equal to the model for ALL inputs "
                             "(RtrProofs/CLink*.lean); when a link breaks, the translated text and the model are evaluated side by side to give the failing input.")
    CHECKS[_pid]["technique"] += " + C-to-Lean translation of the loop-free functions regenerated per run with link theorems (generated = model, all inputs)"
    CHECKS[_pid]["note"] += " Translation tie trusts the translator's reading of clang's AST instead of a hand transcription (DESIGN.md 0.8)."
for _pid in GATE:
    CHECKS[_pid]["text"] += (" Lock-discipline gate: the sequential theorems are claimed for tables shared between cache threads, so the check also re-proves over the "
                             "lock IR regenerated from the source that every access is guarded and that every read call and every single-record update is ONE critical "
                             "section (record_writers_single_section).")


def main():
    checks = []
    for pid in sorted(CHECKS):
        c = CHECKS[pid]
        checks.append({
            "property_id": pid,
            "quick_cmd": "./check %s --tier quick" % pid,
            "thorough_cmd": "./check %s --tier thorough" % pid,
            "evidence_file": "/verif/evidence/%s.json" % pid,
            "replay_cmd_template": "./check --replay {path}",
            "engine": "lean4+correspondence",
            "level_claimed": {"category": c.get("category", "proof"), "text": c["text"], "design_ref": c["design"]},
            "level_note": c["note"],
            "technique": c["technique"],
        })
    props = [json.loads(l)["id"] for l in open(os.path.join(HERE, "properties.jsonl"))]
    na = [{"property_id": p, "reason": NOT_YET.get(p, "check not built yet in this round (work in progress; the design in DESIGN.md §5 applies the same technique)")}
          for p in props if p not in CHECKS]
    m = {
        "version": 1,
        "setup_cmd": "cd /verif && tools/setup.sh",
        "hooks": {
            "guard": "RTRLIB_VERIF",
            "enable": "checks compile /repo's sources themselves with -DRTRLIB_VERIF (tools/vlib.py BASE_FLAGS); no hook is present in the source so far",
            "baseline_off_cmd": "/verif/tools/run_baseline.sh",
            "source_commits": [],
            "add_only": True,
        },
        "engines": [{"name": "lean4+correspondence", "path": "/verif/check", "serves_properties": sorted(CHECKS),
                     "kind_free_text": "Lean 4 proofs about executable models (lean/), model drivers (lean_exe) and C harnesses run on the same op files, Python runner"}],
        "checks": checks,
        "not_applicable": na,
        "notes": "See DESIGN.md. known_findings.json lists recorded and fixed defects.",
    }
    with open(os.path.join(HERE, "MANIFEST.json"), "w") as f:
        json.dump(m, f, indent=1)
        f.write("\n")


if __name__ == "__main__":
    main()
