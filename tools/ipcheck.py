"""Check C19: address <-> text conversion (rtrlib/lib/ip.c, ipv4.c, ipv6.c).

 * proofs: RtrProps.C19 (round trips, RFC 4291 language, definedness of the parser, lengths)
 * tie: the real functions (harness/ip_harness.c, ASan+UBSan, canaries, patterned private stack)
   vs the Lean model (ipdriver) vs the REAL inet_pton, on formatted addresses, on strings
   generated from the render grammar and on mutated / truncated / malformed strings
 * oracle = the property itself, evaluated on what the implementation returned:
     round trip through the library, round trip through inet_pton, every string inet_pton accepts
     is accepted by the library with the same result, the result of a parse does not depend on
     stack contents, no byte outside the given buffer length is written.
"""
import os
import re
import socket
import sys

sys.path.insert(0, os.path.dirname(os.path.abspath(__file__)))
import vlib

PID = "C19"
MODULES = ["RtrProps.C19"]
THEOREMS = [
    "Rtr.C19.hexWord_roundtrip", "Rtr.C19.fmt4_parse4", "Rtr.C19.fmt6_parse6", "Rtr.C19.fmt6_in_language",
    "Rtr.C19.parse6_accepts_language", "Rtr.C19.parse6_defined", "Rtr.C19.parse6Orig_undefined",
    "Rtr.C19.fmt_len", "Rtr.C19.fmt_within_buffer", "Rtr.C19.pton6_accepted", "Rtr.C19.pton4_accepted",
    "Rtr.C19.ip_roundtrip", "Rtr.C19.ip_accepts_pton", "Rtr.C19.ipStrCmp_fmt",
]

PROOF_MODULES = ["RtrProofs.IpTextDigits", "RtrProofs.IpTextParse", "RtrProofs.IpTextLang", "RtrProofs.IpTextFmt",
                 "RtrProofs.IpTextIp", "RtrProofs.IpTextDefined", "RtrModel.IpText"]

HEXD = "0123456789abcdefABCDEF"
EDGE_WORDS = [1, 0xf, 0x10, 0xff, 0x100, 0xfff, 0x1000, 0x7fff, 0x8000, 0xffff, 0xa, 0xabcd, 0xfffe]
EDGE_OCT = [0, 1, 9, 10, 99, 100, 127, 128, 199, 200, 254, 255]
ALPHABET = ":.0123456789abcdefABCDEFgGxX +-/%\t\n\x0b\r,;]["


def xhex(s):
    """protocol encoding of a byte string"""
    if isinstance(s, str):
        s = s.encode("latin-1")
    return "x" + s.hex()


def unx(x):
    return bytes.fromhex(x[1:]).decode("latin-1")


def a6hex(words):
    return "".join("%04x" % w for w in words)


def nzword(r):
    x = r.random()
    if x < 0.4:
        return r.choice(EDGE_WORDS)
    if x < 0.6:
        return r.randrange(1, 0x100)
    return r.randrange(1, 0x10000)


def zero_run(words):
    """(bestpos, bestlen) exactly as the C loop computes it (first longest run)"""
    bp = bl = cp = cl = 0
    for i, w in enumerate(words):
        if w:
            cl = 0
        else:
            if not cl:
                cp = i
            cl += 1
            if cl > bl:
                bp, bl = cp, cl
    return bp, bl


def form_of(words):
    bp, bl = zero_run(words)
    if bl < 2:
        return "plain"
    if bp == 0 and bl == 6:
        return "v4compat"
    if bp == 0 and bl == 5 and words[5] == 0xffff:
        return "v4mapped"
    return "run@%d+%d" % (bp, bl)


# ------------------------------------------------------------------------------------------
# generators: each returns a list of (op line, tag) ; tag = (kind, payload...)
# ------------------------------------------------------------------------------------------

def gen_fmt6(r, per_pattern, extra):
    """IPv6 addresses covering every zero pattern: all 256 zero/non-zero masks (hence every run
    position x length, every pair of runs incl. ties) x `per_pattern` fillings, the embedded IPv4
    forms over a structured IPv4 sample, and near misses of those forms."""
    addrs = []
    for mask in range(256):
        for _ in range(per_pattern):
            addrs.append([0 if mask >> (7 - i) & 1 else nzword(r) for i in range(8)])
    # every run position/length explicitly, neighbours forced non-zero, with boundary words
    for pos in range(8):
        for ln in range(1, 9 - pos):
            for wv in (1, 0xffff, None):
                addrs.append([0 if pos <= i < pos + ln else (wv or nzword(r)) for i in range(8)])
    v4s = [(a, b, c, d) for a in EDGE_OCT for b in (0, 255, 10) for c in (0, 1, 100) for d in EDGE_OCT]
    r.shuffle(v4s)
    for (a, b, c, d) in v4s[:extra]:
        addrs.append([0, 0, 0, 0, 0, 0, a << 8 | b, c << 8 | d])          # ::a.b.c.d  (or ::x when a.b = 0)
        addrs.append([0, 0, 0, 0, 0, 0xffff, a << 8 | b, c << 8 | d])     # ::ffff:a.b.c.d
        addrs.append([0, 0, 0, 0, 0, r.choice([0xfffe, 1, 0xff]), a << 8 | b, c << 8 | d])
        addrs.append([0, 0, 0, 0, r.choice([0, 1]), 0xffff, a << 8 | b, c << 8 | d])
    for _ in range(extra):
        addrs.append([r.getrandbits(16) for _ in range(8)])
    addrs.append([0] * 8)
    addrs.append([0xffff] * 8)
    ops = []
    for w in addrs:
        ops.append(("rt6 " + a6hex(w), ("rt6", tuple(w))))
    return ops


def gen_fmt4(r, nrand):
    ops = []
    sample = [(a, b, c, d) for a in EDGE_OCT for b in EDGE_OCT for c in (0, 9, 10, 100, 255) for d in EDGE_OCT]
    for (a, b, c, d) in sample:
        v = a << 24 | b << 16 | c << 8 | d
        ops.append(("rt4 %08x" % v, ("rt4", v)))
    for _ in range(nrand):
        v = r.getrandbits(32)
        ops.append(("rt4 %08x" % v, ("rt4", v)))
    return ops


def gen_buffers(r, naddr):
    """every buffer length 0..50 (and a few larger) for a set of addresses of both families"""
    ops = []
    a4 = [0, 0xffffffff, 0x01020304, 0xc0a80001, 0x0a000001] + [r.getrandbits(32) for _ in range(naddr)]
    a6 = [[0] * 8, [0xffff] * 8, [0, 0, 0, 0, 0, 0xffff, 0xffff, 0xffff], [0, 0, 0, 0, 0, 0, 0xffff, 0xffff],
          [0x2001, 0xdb8, 0, 0, 0, 0, 0, 1]] + [[nzword(r) if r.random() < 0.7 else 0 for _ in range(8)] for _ in range(naddr)]
    lens = list(range(0, 51)) + [63, 64, 100, 4096]
    for v in a4:
        for ln in lens:
            ops.append(("f4 %08x %d" % (v, ln), ("f4", v, ln)))
    for w in a6:
        for ln in lens:
            ops.append(("f6 %s %d" % (a6hex(w), ln), ("f6", tuple(w), ln)))
    return ops


def rand_group(r):
    n = r.choice([1, 1, 2, 3, 4, 4])
    style = r.random()
    g = "".join(r.choice(HEXD) for _ in range(n))
    if style < 0.2:
        g = ("0" * 4 + g)[-r.choice([n, 4]):]         # leading zeros
    if style > 0.8:
        g = g.upper()
    return g


def rand_quad(r):
    return ".".join(str(r.choice(EDGE_OCT) if r.random() < 0.5 else r.randrange(256)) for _ in range(4))


def rand_render(r):
    """a well-formed string of the RFC 4291 text language (the render grammar of the model)"""
    quad = r.random() < 0.3
    qn = 2 if quad else 0
    if r.random() < 0.7:
        total = r.randrange(0, 8 - qn)            # explicit groups; '::' stands for >= 1 group
        npre = r.randrange(0, total + 1)
        pre = [rand_group(r) for _ in range(npre)]
        post = [rand_group(r) for _ in range(total - npre)]
        if quad:
            post.append(rand_quad(r))
        return ":".join(pre) + "::" + ":".join(post)
    groups = [rand_group(r) for _ in range(8 - qn)]
    if quad:
        groups.append(rand_quad(r))
    return ":".join(groups)


def mutate(r, s):
    """one edit: truncate / delete / insert / replace / duplicate a piece / swap / append garbage"""
    k = r.randrange(9)
    n = len(s)
    if k == 0:
        return s[:r.randrange(0, n + 1)], "truncate"
    if k == 1 and n:
        i = r.randrange(n)
        return s[:i] + s[i + 1:], "delete"
    if k == 2:
        i = r.randrange(n + 1)
        return s[:i] + r.choice(ALPHABET) + s[i:], "insert"
    if k == 3 and n:
        i = r.randrange(n)
        return s[:i] + r.choice(ALPHABET) + s[i + 1:], "replace"
    if k == 4 and n:
        i = r.randrange(n)
        j = r.randrange(i, min(n, i + 6) + 1)
        return s[:j] + s[i:j] + s[j:], "duplicate"
    if k == 5:
        return s + r.choice([":", "::", ".", ":0", ".1", "x", " ", ":1.2.3.4", "/64", "%eth0"]), "append"
    if k == 6:
        return r.choice([":", "::", " ", "+", "-", "0", "0x", "\t"]) + s, "prepend"
    if k == 7 and n:
        i = r.randrange(n)
        return s[i:], "drop-head"
    parts = re.split(r"([:.])", s)
    if len(parts) > 2:
        i = r.randrange(0, len(parts), 2)
        parts[i] = r.choice(["", "0", "00000", "12345", "256", "999", "1000", "g", "ffff", "-1", "+1", " 1", "01", "001"])
        return "".join(parts), "field"
    return s + s, "double"


def short_forms(r, n):
    """the F17 class: fewer than eight groups and no '::' (and relatives)"""
    out = ["", "1", "1:2", "1:2:3", "1:2:3:4:5:6:7", "a:b", "1:2:3:4:5:6:7:8:9", "1:2:3:4:5:6:7:8", "1:2:3:4:1.2.3.4",
           "1:2:3:4:5:1.2.3.4", "1:2:3:4:5:6:1.2.3.4", "1:2:3:4:5:6:7:1.2.3.4", "::1:2:3:4:5:6:7:8", "1:2:3:4:5:6:7::8",
           "1:2:3:4:5:6:7:8::", "1:2:3:4:5:6::1.2.3.4", "::", ":", ":::", "1::", "::1", "1::2::3", "1:::2", "12345::", "::12345",
           "::1.2.3.4", "::1.2.3", "::1.2.3.4.5", "::1.2.3.256", "::ffff:1.2.3.4", "::ffff:01.2.3.4", "1.2.3.4::", "::1.2.3.4:5"]
    for _ in range(n):
        k = r.randrange(0, 11)
        out.append(":".join(rand_group(r) for _ in range(k)))
    return out


def gen_strings(r, nvalid, nmut, nmal):
    ops = []
    valid = []
    for _ in range(nvalid):
        s = rand_render(r)
        valid.append(s)
        ops.append(("p " + xhex(s), ("p", s, "render")))
    v4 = []
    for _ in range(nvalid // 4):
        s = rand_quad(r)
        v4.append(s)
        ops.append(("p " + xhex(s), ("p", s, "quad")))
    # what the platform's own formatter prints
    for _ in range(nvalid // 4):
        b = bytes(r.getrandbits(8) if r.random() < 0.6 else 0 for _ in range(16))
        if r.random() < 0.2:
            b = bytes(10) + r.choice([b"\xff\xff", b"\0\0"]) + b[12:]
        s = socket.inet_ntop(socket.AF_INET6, b)
        valid.append(s)
        ops.append(("p " + xhex(s), ("p", s, "inet_ntop")))
    # mostly-valid stream: one or two edits of a valid string
    base = valid + v4
    for _ in range(nmut):
        s = r.choice(base)
        s, kind = mutate(r, s)
        if r.random() < 0.25:
            s, k2 = mutate(r, s)
            kind += "+" + k2
        s = s.replace("\0", "")
        x = r.random()
        op = "p" if x < 0.7 else ("p6" if x < 0.9 else "p4")
        ops.append(("%s %s" % (op, xhex(s)), (op, s, "mut:" + kind)))
    # malformed stream
    for s in short_forms(r, nmal // 4):
        ops.append(("p " + xhex(s), ("p", s, "short")))
        ops.append(("p6 " + xhex(s), ("p6", s, "short")))
    for _ in range(nmal):
        n = r.choice([0, 1, 2, 3, 5, 8, 13, 20, 39, 46, 60, 200])
        s = "".join(r.choice(ALPHABET) for _ in range(n))
        ops.append(("p " + xhex(s), ("p", s, "random")))
    for _ in range(nmal // 4):
        s = "".join(chr(r.randrange(1, 256)) for _ in range(r.randrange(1, 24)))
        ops.append(("p6 " + xhex(s), ("p6", s, "bytes")))
        ops.append(("p4 " + xhex(s), ("p4", s, "bytes")))
    # sscanf quirk probes for the IPv4 parser
    for s in [" 1.2.3.4", "1. 2.3.4", "1 .2.3.4", "+1.2.3.4", "-1.2.3.4", "+12.2.3.4", "+123.2.3.4", "256.1.1.1", "999.1.1.1",
              "1000.1.1.1", "01.2.3.4", "001.2.3.4", "0001.2.3.4", "1.2.3.4x", "1.2.3.4.5", "1.2.3", "1.2.3.", "1..2.3",
              "\t\n1.2.3.4", "1.2.3.\x0b4", "+.1.2.3", "-0.0.0.0", "0x1.2.3.4", "1.2.3.4 ", "1.2.3.+4", "1.2.3.-", "- 1.2.3.4",
              "1.2.3.300", "1.2.3.3000", ".", "1", "-", "+", " ", "1.2.3.-1", "1.2.3.-12", "1.2.3.-123", "\x0c1.\r2.\n3.\t4"]:
        ops.append(("p " + xhex(s), ("p", s, "quirk4")))
        ops.append(("p6 " + xhex("::" + s), ("p6", "::" + s, "quirk4in6")))
    return ops


def gen_exhaustive(maxlen):
    """every string over a four-letter alphabet up to maxlen: the parser's group/colon bookkeeping
    is exercised on all shapes, not only on neighbours of valid strings"""
    import itertools
    ops = []
    for n in range(0, maxlen + 1):
        for t in itertools.product(":1.f", repeat=n):
            s = "".join(t)
            ops.append(("p " + xhex(s), ("p", s, "exhaustive")))
            if ":" not in s or n <= 4:
                ops.append(("p6 " + xhex(s), ("p6", s, "exhaustive")))
    return ops


# ---- the dictionary of the tree under test --------------------------------------------------------------------------
# A value the code treats specially (a well-known prefix, a magic word, a format fragment) is spelled in the code.  The
# integer and string literals of the CURRENT sources therefore become group values, address prefixes and text fragments.

CONV = re.compile(r"%[-+ 0#]*\d*(?:\.\d+)?(?:hh|h|ll|l|j|z|t)?[diuxXsc]")


def _groups_of_int(v):
    if v < 0x10000:
        return (v,)
    if v < 1 << 32:
        return (v >> 16, v & 0xffff)
    return tuple((v >> s) & 0xffff for s in (48, 32, 16, 0))


def _address_like(s):
    if not (":" in s or "." in s) or "\\" in s or " " in s or "/" in s or "(" in s:
        return False
    if re.search(r"\.[ch]$", s):
        return False
    rest = CONV.sub("", s)
    return all(c in "0123456789abcdefABCDEF:." for c in rest)


def literal_dictionary():
    """-> (prefixes: {tuple of 16-bit groups: origin}, texts: [(template, origin)], words32: [int])"""
    L = vlib.source_literals()
    prefixes = {}
    words32 = []
    for v in L["ints"]:
        prefixes.setdefault(_groups_of_int(v), "integer literal %#x" % v)
        if 0xffff < v < 1 << 32:
            words32.append(v)
    texts = []
    for s in L["strings"]:
        if not _address_like(s):
            continue
        texts.append((s, "string literal %r" % s))
        # leading run of hex groups of the fragment: an address prefix spelled as text
        gs = []
        for tok in CONV.sub("%", s).split(":"):
            if re.fullmatch(r"[0-9a-fA-F]{1,4}", tok):
                gs.append(int(tok, 16))
            else:
                break
        if gs and len(gs) <= 7:
            prefixes.setdefault(tuple(gs), "string literal %r" % s)
            if len(gs) >= 2:
                words32.append(gs[0] << 16 | gs[1])
    return prefixes, texts, sorted(set(words32))


def _fill(r, mask_bits, n, style):
    """n groups, zero where the mask says so; style 0: random non-zero words, 1: boundary words"""
    out = []
    for i in range(n):
        if mask_bits >> (n - 1 - i) & 1:
            out.append(0)
        else:
            out.append(nzword(r) if style == 0 else r.choice([1, 0xffff, 0x8000, 0xff]))
    return out


def gen_literals(r, k):
    """for every literal of the tree: a few hundred addresses 'literal prefix + structured tail' (every zero/non-zero pattern of
    the tail, hence zero runs of every start and length; embedded-IPv4-looking tails), the literal at other positions,
    IPv4 addresses made of its bytes; the address-like string literals as whole texts and spliced into valid texts."""
    prefixes, texts, words32 = literal_dictionary()
    ops = []
    per = {}
    v4tails = [(a, b, c, d) for a in (0, 1, 192, 255) for b in (0, 168) for c in (0, 2) for d in (0, 1, 33, 255)]

    def emit(words, origin, count=True):
        ops.append(("rt6 " + a6hex(words), ("rt6", tuple(words), "literal")))
        if count:
            per[origin] = per.get(origin, 0) + 1

    for pre, origin in sorted(prefixes.items()):
        m = len(pre)
        t = 8 - m
        if t <= 0:
            emit(list(pre[:8]), origin)
            continue
        nfill = max(1, -(-130 // (1 << t))) * k                 # at least ~130 (quick) patterned tails per literal
        for mask in range(1 << t):
            for j in range(nfill):
                emit(list(pre) + _fill(r, mask, t, j % 2), origin)
        # embedded-IPv4-looking tails: zeros, optionally ffff, then the quad
        for (a, b, c, d) in r.sample(v4tails, 12):
            quad = [a << 8 | b, c << 8 | d]
            if t >= 2:
                emit(list(pre) + [0] * (t - 2) + quad, origin)
            if t >= 3:
                emit(list(pre) + [0] * (t - 3) + [0xffff] + quad, origin)
                emit(list(pre) + [0] * (t - 3) + [nzword(r)] + quad, origin)
            if t >= 4:
                emit(list(pre) + [nzword(r)] + [0] * (t - 3) + quad, origin)
        # the literal somewhere else in the address
        for pos in range(1, 9 - m):
            for _ in range(8 if m == 1 else 24):
                w = _fill(r, r.getrandbits(8), 8, 0)
                w[pos:pos + m] = list(pre)
                emit(w, origin)
    # IPv4: the 32-bit literals (and neighbours) as addresses, and as the embedded quad of the IPv4 forms
    for v in words32:
        for x in (v, v ^ 1, v ^ 0x80000000, (v + 1) & 0xffffffff, (v - 1) & 0xffffffff):
            ops.append(("rt4 %08x" % x, ("rt4", x)))
        for head in ([0, 0, 0, 0, 0, 0], [0, 0, 0, 0, 0, 0xffff], [0, 0, 0, 0, 1, 0xffff], [nzword(r), 0, 0, 0, 0, 0]):
            w = head + [v >> 16, v & 0xffff]
            ops.append(("rt6 " + a6hex(w), ("rt6", tuple(w), "literal")))
    # texts
    nums = ["0", "1", "9", "33", "192", "255", "256"]
    for tmpl, origin in texts:
        for _ in range(12 * k):
            def sub(mo, _r=r):
                c = mo.group(0)[-1]
                if c == "s":
                    return _r.choice(["", "ffff:", "1:", "0:"])
                if c in "xX":
                    return "%x" % nzword(_r)
                return _r.choice(nums)
            txt = CONV.sub(sub, tmpl)
            ops.append(("p " + xhex(txt), ("p", txt, "literal-text")))
            ops.append(("p6 " + xhex(txt), ("p6", txt, "literal-text")))
            # fragment spliced into valid texts: as head, as tail, in the middle at a separator
            v = rand_render(r)
            cut = [i for i, ch in enumerate(v) if ch == ":"] or [0]
            i = r.choice(cut)
            for t2 in (txt + v, v + txt, v[:i] + ":" + txt.strip(":") + v[i:], txt + rand_quad(r), txt.rstrip(":") + ":" + rand_group(r)):
                ops.append(("p " + xhex(t2), ("p", t2, "literal-splice")))
            # what the text denotes (when the platform accepts it) seeds formatter inputs around it
            try:
                b = socket.inet_pton(socket.AF_INET6, txt)
            except (OSError, ValueError):
                b = None
            if b:
                w = [int.from_bytes(b[2 * j:2 * j + 2], "big") for j in range(8)]
                emit(w, origin, False)
                for j in range(8):
                    w2 = list(w)
                    w2[j] = 0 if w2[j] else nzword(r)
                    emit(w2, origin, False)
    return ops, per, len(prefixes), len(texts)


def gen_cmp(r, n):
    ops = []
    for _ in range(n):
        if r.random() < 0.5:
            w = [nzword(r) if r.random() < 0.5 else 0 for _ in range(8)]
            s = socket.inet_ntop(socket.AF_INET6, b"".join(x.to_bytes(2, "big") for x in w))
            same = r.random() < 0.7
            w2 = w if same else [w[0] ^ 1] + w[1:]
            ops.append(("cmp 6 %s %s" % (a6hex(w2), xhex(s)), ("cmp", same)))
        else:
            v = r.getrandbits(32)
            s = socket.inet_ntoa(v.to_bytes(4, "big"))
            same = r.random() < 0.7
            ops.append(("cmp 4 %08x %s" % (v if same else v ^ 0x100, xhex(s)), ("cmp", same)))
    ops.append(("cmp 4 00000000 " + xhex("nonsense"), ("cmp", False)))
    ops.append(("cmp 6 " + "0" * 32 + " " + xhex("1:2:3"), ("cmp", False)))
    return ops


# ------------------------------------------------------------------------------------------
# oracle
# ------------------------------------------------------------------------------------------

CLAUSE = {
    "rt-lib": "an address converted to text parses back to the same address with the library",
    "rt-pton": "an address converted to text parses back to the same address with the platform's inet_pton",
    "accept": "every string inet_pton accepts is accepted by the library with the same result",
    "determ": "the result of parsing depends only on the text given",
    "buffer": "conversion never writes beyond the buffer length it was told",
    "cmp": "lrtr_ip_str_cmp: an address equals the text it was formatted to",
}


def fields(line):
    return dict(kv.split("=", 1) for kv in line.split() if "=" in kv)


def oracle_line(tag, line):
    """returns list of (clause key, message) for one implementation reply"""
    kind = tag[0]
    bad = []
    if "nondet" in line:
        bad.append(("determ", "two executions over differently filled stacks disagree: " + line))
        return bad
    if kind in ("rt4", "rt6"):
        f = fields(line)
        want = ("4:%08x" % tag[1]) if kind == "rt4" else ("6:" + a6hex(tag[1]))
        try:
            txt = repr(unx(f["s"]))
        except (KeyError, ValueError):
            txt = f.get("s")
        if f.get("lib") != want:
            bad.append(("rt-lib", "address %s is formatted as %s, the library parses that back as %s" % (want, txt, f.get("lib"))))
        if f.get("pton") != want:
            bad.append(("rt-pton", "address %s is formatted as %s, inet_pton parses that back as %s" % (want, txt, f.get("pton"))))
    elif kind == "p":
        f = fields(line)
        for fam in ("p4", "p6"):
            if f.get(fam, "-") != "-" and f.get("lib") != f[fam]:
                bad.append(("accept", "inet_pton gives %s, the library gives %s" % (f[fam], f.get("lib"))))
    elif kind in ("f4", "f6"):
        ln = tag[2]
        w = line.split()
        if "CANARY" in line or "UNSTABLE" in line:
            bad.append(("buffer", "bytes outside the %d-byte buffer were modified / output unstable: %s" % (ln, line)))
        elif len(w) >= 2 and (len(w[1]) - 1) // 2 > ln:
            bad.append(("buffer", "more than %d bytes written" % ln))
    elif kind == "cmp":
        if tag[1] and line != "true":
            bad.append(("cmp", "comparison of an address with its own text gave " + line))
    return bad


def run_ops(exe, drv, ops):
    """run one batch on both sides. returns (impl lines, model lines, impl rc, impl stderr)"""
    lines = [o for o, _ in ops]
    impl, rc, err = vlib.run_lines(exe, lines, timeout=600)
    model, mrc, merr = vlib.run_lines(drv, lines, timeout=600)
    if mrc != 0 or len(model) != len(lines):
        raise RuntimeError("model driver failed rc=%s %s" % (mrc, merr[-400:]))
    return impl, model, rc, err


def crash_signature(err):
    m = re.search(r"runtime error: ([^\n]*)", err)
    if m:
        return "ubsan:" + re.sub(r"\b\d+\b", "N", m.group(1))[:90]
    m = re.search(r"ERROR: AddressSanitizer: ([a-zA-Z-]+)", err)
    if m:
        return "asan:" + m.group(1)
    m = re.search(r"Assertion `([^']*)' failed", err)
    if m:
        return "assert:" + m.group(1)
    return "crash"


def min_string(exe, op, s, pred):
    """shrink the text of a single parse op while pred(impl reply line) holds"""
    def fails(chars):
        o, rc, err = vlib.run_lines(exe, ["%s %s" % (op, xhex("".join(chars)))])
        return rc == 0 and len(o) == 1 and pred(o[0])
    chars = list(s)
    if len(chars) >= 2:
        chars = vlib.ddmin(chars, fails, max_tests=120)
    return "".join(chars)


def load_corpus():
    cdir = os.path.join(vlib.VERIF, "corpus", "ip")
    out = []
    if os.path.isdir(cdir):
        for f in sorted(os.listdir(cdir)):
            if f.endswith(".ops"):
                ops = []
                for line in open(os.path.join(cdir, f)):
                    line = line.strip()
                    if line and not line.startswith("#"):
                        ops.append((line, tag_of(line)))
                out.append((f, ops))
    return out


def tag_of(line):
    w = line.split()
    try:
        if w[0] == "rt4":
            return ("rt4", int(w[1], 16))
        if w[0] == "rt6":
            return ("rt6", tuple(int(w[1][4 * i:4 * i + 4], 16) for i in range(8)))
        if w[0] == "f4":
            return ("f4", int(w[1], 16), int(w[2]))
        if w[0] == "f6":
            return ("f6", tuple(int(w[1][4 * i:4 * i + 4], 16) for i in range(8)), int(w[2]))
        if w[0] in ("p", "p4", "p6"):
            return (w[0], unx(w[1]), "corpus")
        if w[0] == "cmp":
            return ("cmp", False)
    except (ValueError, IndexError):
        pass
    return ("other",)


def run(pid, tier):
    rep = vlib.Report(pid, tier)
    proved = vlib.prove(rep, MODULES, THEOREMS, extra_targets=["ipdriver"])
    if proved and tier == "thorough":
        for m in MODULES + PROOF_MODULES:
            ok, out = vlib.leanchecker(m)
            if not ok:
                proved = False
                rep.build_log = "leanchecker %s failed:\n%s" % (m, out)
                for t in THEOREMS:
                    rep.obligations[t] = False
                break
        rep.cov["leanchecker"] = "ok" if proved else "FAILED"
    drv = vlib.driver_path("ipdriver")
    if not os.path.exists(drv):
        ok, log = vlib.lake_build(["ipdriver"])
        if not ok:
            rep.build_log = log
            vlib.proof_failure(rep, "model driver ipdriver does not build")
            return rep.finish()
    exe, blog = vlib.build_harness("ip", ["ip_harness.c"], link=["-Wl,-z,now"])
    if exe is None:
        rep.build_log = blog
        vlib.proof_failure(rep, "harness build against %s failed (correspondence ip)" % vlib.REPO)
        return rep.finish()

    r = vlib.rng(pid)
    k = {"quick": 5, "thorough": 100}[tier]
    groups = []
    corpus = load_corpus()
    for f, ops in corpus:
        groups.append(("corpus:" + f, ops))
    groups.append(("fmt6", gen_fmt6(r, 3 * k, 150 * k)))
    lit_ops, lit_per, lit_nprefix, lit_ntext = gen_literals(r, 1 if tier == "quick" else 4)
    groups.append(("literals", lit_ops))
    groups.append(("fmt4", gen_fmt4(r, 2000 * k)))
    groups.append(("buffers", gen_buffers(r, 6 * k)))
    groups.append(("strings", gen_strings(r, 3000 * k, 12000 * k, 3000 * k)))
    groups.append(("exhaustive", gen_exhaustive(7 if tier == "quick" else 9)))
    groups.append(("cmp", gen_cmp(r, 300 * k)))

    stats = {"ops": 0, "groups": {}, "forms6": {}, "parse": {"lib_accept": 0, "lib_reject": 0, "pton_accept": 0, "pton_reject": 0,
                                                           "both_accept": 0, "lib_only_accept": 0, "pton_only_accept": 0},
             "by_class": {}, "fmt_rc": {}, "buffer_lengths": 0, "corpus": len(corpus), "lib_only_examples": [],
             "literals": {"prefixes": lit_nprefix, "address_like_strings": lit_ntext, "addresses": sum(lit_per.values()),
                          "min_addresses_per_literal": min(lit_per.values()) if lit_per else 0,
                          "forms6": {}}}
    distinct = set()
    fails = []          # (group, op, tag, line, clause, msg)
    diverg = []         # (group, op, impl line, model line, field)
    crashes = []        # (group, op, signature, stderr)
    validated = 0
    buflens = set()

    for gname, ops in groups:
        stats["groups"][gname] = len(ops)
        B = 4000
        for b0 in range(0, len(ops), B):
            batch = ops[b0:b0 + B]
            try:
                impl, model, rc, err = run_ops(exe, drv, batch)
            except RuntimeError as ex:
                rep.build_log = str(ex)
                vlib.proof_failure(rep, "model driver crashed (group %s)" % gname)
                return rep.finish()
            ncr = 0
            while (rc != 0 or len(impl) != len(batch)) and len(impl) < len(batch):
                # the op after the last reply is the failing input; record it, then go on behind it
                i = len(impl)
                o1, rc1, err1 = vlib.run_lines(exe, [batch[i][0]])
                if rc1 != 0:
                    crashes.append((gname, batch[i][0], batch[i][1], crash_signature(err1), err1))
                else:
                    crashes.append((gname, "\n".join(x for x, _ in batch[:i + 1]), ("seq",), crash_signature(err), err))
                ncr += 1
                del batch[i]
                del model[i]
                if ncr >= 3:
                    batch = batch[:i]
                    model = model[:i]
                    break
                more, rc, err = vlib.run_lines(exe, [o for o, _ in batch[i:]], timeout=600)
                impl = impl + more
            for (op, tag), il, ml in zip(batch, impl, model):
                stats["ops"] += 1
                if il != "bad-op":
                    distinct.add((op, il))
                bad = oracle_line(tag, il)
                for cl, msg in bad:
                    fails.append((gname, op, tag, il, cl, msg))
                if il != ml:
                    diverg.append((gname, op, il, ml))
                else:
                    validated += 1
                kind = tag[0]
                if kind == "rt6":
                    fm = form_of(tag[1])
                    stats["forms6"][fm] = stats["forms6"].get(fm, 0) + 1
                    if len(tag) > 2:
                        stats["literals"]["forms6"][fm] = stats["literals"]["forms6"].get(fm, 0) + 1
                elif kind == "p":
                    f = fields(il)
                    la = f.get("lib", "-") != "-"
                    pa = f.get("p4", "-") != "-" or f.get("p6", "-") != "-"
                    P = stats["parse"]
                    P["lib_accept" if la else "lib_reject"] += 1
                    P["pton_accept" if pa else "pton_reject"] += 1
                    if la and pa:
                        P["both_accept"] += 1
                    elif la:
                        P["lib_only_accept"] += 1
                        if len(stats["lib_only_examples"]) < 12 and len(tag[1]) < 30:
                            stats["lib_only_examples"].append(tag[1])
                    elif pa:
                        P["pton_only_accept"] += 1
                    c = tag[2].split("+")[0]
                    d = stats["by_class"].setdefault(c, {"lib_accept": 0, "pton_accept": 0, "n": 0})
                    d["n"] += 1
                    d["lib_accept"] += la
                    d["pton_accept"] += pa
                elif kind in ("p4", "p6"):
                    c = kind + ":" + tag[2].split("+")[0]
                    d = stats["by_class"].setdefault(c, {"lib_accept": 0, "n": 0})
                    d["n"] += 1
                    d["lib_accept"] += il != "-"
                elif kind in ("f4", "f6"):
                    buflens.add((kind, tag[2]))
                    rcv = kind + " rc=" + il.split()[0] + (" truncated" if kind == "f4" and tag[2] < 16 and il.split()[0] == "0" else "")
                    stats["fmt_rc"][rcv] = stats["fmt_rc"].get(rcv, 0) + 1
            if ncr >= 3:
                break
    stats["buffer_lengths"] = len(buflens)

    # coverage gate: the generator must have reached every output form of the formatter
    need = {"plain", "v4compat", "v4mapped"} | {"run@%d+%d" % (p, l) for p in range(8) for l in range(2, 9 - p) if not (p == 0 and l == 6)}
    missing = sorted(need - set(stats["forms6"]))
    # ... and the dictionary of the tree must have been used: every literal with its few hundred structured tails
    if lit_nprefix == 0 or stats["literals"]["min_addresses_per_literal"] < 100:
        missing.append("literal prefixes of the sources x structured tails (%s)" % stats["literals"])
    if lit_ntext == 0:
        missing.append("address-like string literals of the sources")
    rep.cov.update({
        "evaluations": stats["ops"], "distinct_nontrivial": len(distinct),
        "rule": "IPv6: all 256 zero/non-zero word masks x random/boundary fillings, every run position x length, embedded IPv4 forms "
                "over a structured IPv4 sample and their near misses; every integer literal of the current sources (16-bit: one group, "
                "32-bit: two groups, 64-bit: four) and every leading hex-group run of an address-like string literal as address PREFIX "
                "x all zero/non-zero patterns of the remaining groups x fillings, x embedded-IPv4-looking tails, and at every other "
                "position; address-like string literals (printf conversions substituted) as whole texts and spliced into valid texts; IPv4: products of boundary octets + random; every buffer "
                "length 0..50 for both families with canaries; strings: render grammar (valid), inet_ntop output, 1-2 edit "
                "mutations/truncations of valid strings, short/over-long group lists, random strings, raw bytes, sscanf quirk "
                "probes. distinct = distinct (request, implementation reply) pairs",
        "traces_validated_against_impl": validated,
        "distribution": stats,
        "forms_missing": missing,
    })
    for gname, ops in groups[len(corpus):len(corpus) + 5]:
        rep.sample({"group": gname, "ops": [o for o, _ in ops[:4]]})
    rep.assumptions = [
        "glibc sscanf(%3hhu), snprintf(%hhu), sprintf(%x/%d) are modelled (scanU3, dec8, hex16), validated by this differential run",
        "glibc inet_pton is modelled by the render grammar (pton4/pton6), validated by this differential run on every string",
        "byte strings without NUL; C locale for isspace",
    ]

    # ---- report ---------------------------------------------------------------------------
    seen_sig = set()
    for gname, op, tag, sig, err in crashes:
        if sig in seen_sig:
            continue
        seen_sig.add(sig)
        if tag[0] in ("p", "p4", "p6") and len(tag[1]) > 1:
            def still(chars, _op=tag[0]):
                o, rc1, e1 = vlib.run_lines(exe, ["%s %s" % (_op, xhex("".join(chars)))])
                return rc1 != 0 and crash_signature(e1) == sig
            s = "".join(vlib.ddmin(list(tag[1]), still, max_tests=80))
            op = "%s %s\n# text: %r" % (tag[0], xhex(s), s)
        rep.violation("crash_" + re.sub(r"\W+", "_", sig)[:40],
                      "# C19: the implementation aborted under ASan/UBSan (%s)\n# group %s\n%s\n--- stderr ---\n%s\n" % (
                          sig, gname, op, err[-2500:]), signature=sig)
    seen_cl = set()
    for gname, op, tag, il, cl, msg in fails:
        if cl in seen_cl:
            continue
        seen_cl.add(cl)
        rop = op
        if tag[0] in ("p", "p4", "p6") and cl == "determ":
            # prefer the shortest failing text, then shrink it
            cands = [f for f in fails if f[4] == cl and f[2][0] == tag[0]]
            gname, op, tag, il, cl, msg = min(cands, key=lambda f: len(f[2][1]))
            s = min_string(exe, tag[0], tag[1], lambda l: "nondet" in l)
            rop = "%s %s" % (tag[0], xhex(s))
            o, _, _ = vlib.run_lines(exe, [rop])
            il = o[0] if o else il
            msg = "text %r: %s" % (s, il)
        m, _, _ = vlib.run_lines(drv, [rop])
        rep.violation("oracle_" + cl,
                      "# property C19 fails on the implementation\n# clause: %s\n# %s\n# group %s\n%s\n# observed: %s\n# model   : %s\n" % (
                          CLAUSE[cl], msg, gname, rop, il, m[0] if m else "?"))
    if diverg and not fails and not crashes:
        gname, op, il, ml = diverg[0]
        fi, fm = fields(il), fields(ml)
        which = "model RtrModel.IpText vs rtrlib/lib/ip*.c"
        if fi.get("lib") == fm.get("lib") and (fi.get("p4") != fm.get("p4") or fi.get("p6") != fm.get("p6") or fi.get("pton") != fm.get("pton")):
            which = "model of inet_pton (Render grammar, pton4/pton6) vs the platform's inet_pton"
        rep.build_log = "%d diverging replies; first: group %s\n op   : %s\n impl : %s\n model: %s" % (len(diverg), gname, op, il, ml)
        vlib.proof_failure(rep, "correspondence ip diverges: " + which)
    if missing and not fails and not crashes and not diverg:
        rep.build_log = "formatter output forms never generated: %s" % missing
        vlib.proof_failure(rep, "coverage gate of the C19 generator")
    if not proved and not fails and not crashes and not diverg:
        vlib.proof_failure(rep, "\n".join(t for t, ok in rep.obligations.items() if not ok))
    return rep.finish()



def replay(path):
    return vlib.generic_replay(path, lambda: vlib.build_harness("ip", ["ip_harness.c"], link=["-Wl,-z,now"]), "ipdriver")

if __name__ == "__main__":
    sys.exit(run(PID, sys.argv[1] if len(sys.argv) > 1 else "quick"))
