#!/usr/bin/env python3
"""False-alarm probe: apply a behaviour-preserving change (written by an independent sub-agent) to /repo, run the checks whose
code it touches, undo.  tools/harmlesstest.py <worktree> [<name>...]   -> build/harmless_results.json"""
import json, os, subprocess, sys
VERIF = os.path.dirname(os.path.dirname(os.path.abspath(__file__)))
AFFECTS = [
    ("rtrlib/rtr/packets.c", "C03 C04 C05 C07 C08 C09 C10 C13 C14 C17 C18 C06"),
    ("rtrlib/rtr/rtr.c", "C05 C07 C08 C13 C17 C20 C15 C03"),
    ("rtrlib/transport/", "C03 C04 C08 C14 C13"),
    ("rtrlib/pfx/", "C01 C02 C09 C16 C06 C18 C03"),
    ("rtrlib/spki/", "C10 C16 C06 C18 C11 C03"),
    ("rtrlib/lib/", "C01 C02 C19 C04 C18"),
    ("rtrlib/rtr_mgr.c", "C15 C20 C17"),
    ("rtrlib/bgpsec/", "C11 C12"),
    ("third-party/", "C10 C18 C16"),
]


def sh(cmd, cwd=None, timeout=3600):
    r = subprocess.run(cmd, shell=True, cwd=cwd, stdout=subprocess.PIPE, stderr=subprocess.STDOUT, text=True, timeout=timeout)
    return r.returncode, r.stdout


def main():
    wt = sys.argv[1]
    names = sys.argv[2:] or sorted(d for d in os.listdir(os.path.join(wt, "out")) if os.path.exists(os.path.join(wt, "out", d, "patch.diff")))
    resf = os.path.join(VERIF, "build", "harmless_results.json")
    results = json.load(open(resf)) if os.path.exists(resf) else {}
    for n in names:
        patch = os.path.join(wt, "out", n, "patch.diff")
        files = [l[6:].strip() for l in open(patch) if l.startswith("+++ b/")]
        checks = []
        for pre, ids in AFFECTS:
            if any(f.startswith(pre) for f in files):
                checks += [i for i in ids.split() if i not in checks]
        rc, out = sh("git -C /repo status --short -- rtrlib third-party")
        if out.strip():
            print("/repo dirty; refusing")
            return 1
        rc, out = sh("git -C /repo apply %s" % patch)
        if rc != 0:
            results[n] = {"applies": False, "note": out[-300:]}
            continue
        res = {"applies": True, "files": files, "checks": {}}
        try:
            for c in sorted(checks):
                rc, out = sh("./check %s --tier quick" % c, cwd=VERIF)
                lines = [l for l in out.splitlines() if l.startswith("VIOLATION")]
                res["checks"][c] = {"rc": rc, "violations": lines}
                if lines:
                    heads = []
                    for l in lines[:2]:
                        p = l.split("replay=")[1].split()[0]
                        if os.path.exists(p):
                            heads.append(open(p).read()[:1200])
                    res["checks"][c]["replay_heads"] = heads
        finally:
            sh("git -C /repo checkout -- .")
            sh("python3 tools/gen_constants.py; python3 tools/gen_locks.py", cwd=VERIF)
        # keep the patch for the record
        dst = os.path.join(VERIF, "seeded", "harmless", n)
        os.makedirs(dst, exist_ok=True)
        for f in ("patch.diff", "meta.json"):
            if os.path.exists(os.path.join(wt, "out", n, f)):
                open(os.path.join(dst, f), "w").write(open(os.path.join(wt, "out", n, f)).read())
        results[n] = res
        json.dump(results, open(resf, "w"), indent=1)
        print(n, {c: (v["rc"], len(v["violations"])) for c, v in res["checks"].items()}, flush=True)
    return 0


if __name__ == "__main__":
    sys.exit(main())
