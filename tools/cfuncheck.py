"""Translation tie: the loop-free C functions a property rests on are translated from the current source into Lean
(tools/gen_cfuns.py -> lean/RtrModel/Generated/CFuns.lean) and proved equal to the hand-written models for ALL inputs
(lean/RtrProofs/CLink*.lean).  Used by the domain checks:

    ok = cfuncheck.link(rep, pid)

  1. translate   gen_cfuns: regenerate Generated/CFuns.lean from VERIF_REPO (default /repo)
  2. prove       lake build the link modules of `pid`, `#print axioms` on every link theorem (adds to rep.obligations)
  3. when a link theorem no longer checks (or a function is no longer translatable): search for a concrete input on
     which the C text as translated and the model differ - the model driver `cfundriver` evaluates both sides on boundary
     and random inputs.  A difference is reported with that input as the replay; if none is found the violation is still
     reported (the tie is no longer shown to hold), ending in no-failing-input-found.
The search also runs when everything checks (a cheap smoke test of the driver and of the statement of the link).
"""
import json
import os
import subprocess
import sys

sys.path.insert(0, os.path.dirname(os.path.abspath(__file__)))
import vlib

# per property: link modules, link theorems, the translated functions they are about, and the driver ops to search with
LINKS = {
    "C01": {
        "modules": ["RtrProofs.CLink", "RtrProofs.CLinkBits"],
        "theorems": ["Rtr.CLink.lrtr_get_bits_eq", "Rtr.CLink.lrtr_ipv4_get_bits_eq", "Rtr.CLink.lrtr_ipv4_addr_equal_eq",
                     "Rtr.CLink.lrtr_ipv6_addr_equal_eq", "Rtr.CLink.lrtr_ipv6_get_bits_eq", "Rtr.CLink.lrtr_ip_addr_is_zero_eq",
                     "Rtr.CLink.lrtr_ip_addr_equal_eq", "Rtr.CLink.lrtr_ip_addr_get_bits_eq", "Rtr.CLink.c_is_left_child4",
                     "Rtr.CLink.c_is_left_child6", "Rtr.CLink.c_covers4", "Rtr.CLink.c_covers6"],
        "functions": ["lrtr_get_bits", "lrtr_ipv4_get_bits", "lrtr_ipv4_addr_equal", "lrtr_ipv6_addr_equal", "lrtr_ipv6_get_bits",
                      "lrtr_ip_addr_is_zero", "lrtr_ip_addr_get_bits", "lrtr_ip_addr_equal", "is_left_child"],
        "ops": "bits",
    },
    "C17": {
        "modules": ["RtrProofs.CLinkIntervals", "RtrProofs.CLinkMisc"],
        "theorems": ["Rtr.CLink.rtr_wait_for_sync_eq", "Rtr.CLink.wait_for_sync_timeout", "Rtr.CLink.wait_for_sync_result", "Rtr.CLink.wait_for_sync_undefined_iff",
                     "Rtr.CLink.rtr_check_interval_range_eq", "Rtr.CLink.apply_interval_value_eq", "Rtr.CLink.rtr_check_interval_option_eq",
                     "Rtr.CLink.c_check_interval_option_in_range", "Rtr.CLink.c_eod_intervals_in_range",
                     "Rtr.CLink.rtr_set_interval_mode_eq", "Rtr.CLink.rtr_set_interval_mode_model", "Rtr.CLink.rtr_get_interval_mode_eq",
                     "Rtr.CLink.tr_recv_all_eq", "Rtr.CLink.tr_recv_all_of_world", "Rtr.CLink.tr_recv_all_timeouts",
                     "Rtr.CLink.rtr_init_eq", "Rtr.CLink.rtr_init_rejects", "Rtr.CLink.rtr_init_accepts", "Rtr.CLink.initInRange_iff_C17",
                     "Rtr.CLink.rtr_init_ok_iff_model"],
        "modules_extra": ["RtrProofs.CLinkSync", "RtrProofs.CLinkIo", "RtrProofs.CLinkInit"],
        "functions": ["rtr_wait_for_sync", "rtr_check_interval_range", "apply_interval_value", "rtr_check_interval_option", "rtr_set_interval_mode",
                      "rtr_get_interval_mode", "tr_recv_all", "rtr_init"],
        "ops": "intervals+io+proto",
    },
    "C04": {
        "modules": ["RtrProofs.CLinkPdu"],
        "theorems": ["Rtr.CLink.Recv.receive_pdu_eq_model", "Rtr.CLink.Recv.receive_pdu_defined", "Rtr.CLink.Recv.receive_pdu_lengths", "Rtr.CLink.Recv.receive_pdu_transport_errors", "Rtr.CLink.Recv.receive_pdu_success", "Rtr.CLink.Recv.receive_pdu_frame", "Rtr.CLink.Recv.receive_pdu_agrees_C", "Rtr.CLink.error_pdu_reads_in_bounds", "Rtr.CLink.rtr_handle_error_pdu_eq",
                     "Rtr.CLink.rtr_get_pdu_type_eq", "Rtr.CLink.rtr_pdu_check_size_eq", "Rtr.CLink.rtr_pdu_check_size_safe",
                     "Rtr.CLink.rtr_pdu_check_size_mem_indep", "Rtr.CLink.rtr_pdu_check_size_true_iff",
                     "Rtr.CLink.rtr_pdu_header_to_host_byte_order_view", "Rtr.CLink.rtr_convert_then_check_size_eq",
                     "Rtr.CLink.tr_recv_all_eq", "Rtr.CLink.tr_recv_all_never_short"],
        "modules_extra": ["RtrProofs.CLinkRecv", "RtrProofs.CLinkRecvModel", "RtrProofs.CLinkSync", "RtrProofs.CLinkIo"],
        "functions": ["rtr_receive_pdu", "rtr_handle_error_pdu", "rtr_get_pdu_type", "rtr_pdu_check_size", "lrtr_convert_long", "lrtr_convert_short",
                      "rtr_pdu_convert_header_byte_order", "rtr_pdu_header_to_host_byte_order", "tr_recv_all"],
        "ops": "pdu+io+proto",
    },
    "C08": {
        "modules": ["RtrProofs.CLinkFsm", "RtrProofs.CLinkFsmModel"],
        "modules_extra": ["RtrProofs.CLinkSync", "RtrProofs.CLinkRecv"],
        "theorems": ["Rtr.CLink.rtr_sync_eq", "Rtr.CLink.syncRound_wouldblock", "Rtr.CLink.syncRound_cache_reset", "Rtr.CLink.syncRound_recv_failed", "Rtr.CLink.Recv.receive_pdu_transport_errors",
                     "Rtr.CLink.rtr_fsm_step_eq", "Rtr.CLink.rtr_purge_outdated_records_eq", "Rtr.CLink.rtr_fsm_start_eq",
                     "Rtr.CLink.fsm_error_states_retry", "Rtr.CLink.fsm_no_data_retry", "Rtr.CLink.fsm_no_incr_retry", "Rtr.CLink.fsm_fast_reconnect",
                     "Rtr.CLink.fsm_every_iteration_calls_out", "Rtr.CLink.fsm_every_iteration_consumes", "Rtr.CLink.fsm_shutdown_exits",
                     "Rtr.CLink.fsm_closed_or_invalid_spins", "Rtr.CLink.fsmStep_eq_skeleton", "Rtr.CLink.purgeOutdated_eq_skeleton"],
        "functions": ["rtr_sync", "rtr_receive_pdu", "rtr_fsm_start", "rtr_purge_outdated_records"],
        "ops": "fsm+proto", "xtrace": True,
    },
    "C07": {
        "modules": ["RtrProofs.CLinkFsm", "RtrProofs.CLinkFsmModel"],
        "modules_extra": ["RtrProofs.CLinkSync"],
        "theorems": ["Rtr.CLink.rtr_set_last_update_eq", "Rtr.CLink.set_last_update_ok", "Rtr.CLink.set_last_update_clock_failed", "Rtr.CLink.sync_success_order",
                     "Rtr.CLink.rtr_purge_outdated_records_eq", "Rtr.CLink.purge_no_data", "Rtr.CLink.purge_fresh", "Rtr.CLink.purge_expired",
                     "Rtr.CLink.fsm_connecting_purges_first", "Rtr.CLink.rtr_stop_eq", "Rtr.CLink.stop_purges", "Rtr.CLink.stop_not_running",
                     "Rtr.CLink.purgeOutdated_eq_skeleton", "Rtr.CLink.stop_eq_skeleton"],
        "functions": ["rtr_set_last_update", "rtr_sync", "rtr_purge_outdated_records", "rtr_fsm_start", "rtr_stop"],
        "ops": "fsm+proto",
    },
    "C05": {
        "modules": ["RtrProofs.CLinkFsm"],
        "modules_extra": ["RtrProofs.CLinkSync", "RtrProofs.CLinkErr", "RtrProofs.CLinkIo", "RtrProofs.CLinkInit"],
        "theorems": ["Rtr.CLink.rtr_send_serial_query_eq", "Rtr.CLink.rtr_send_reset_query_eq", "Rtr.CLink.serial_query_contents", "Rtr.CLink.reset_query_contents", "Rtr.CLink.rtr_handle_cache_response_pdu_eq", "Rtr.CLink.cache_response_adopts_session", "Rtr.CLink.cache_response_foreign_session", "Rtr.CLink.cache_response_same_session", "Rtr.CLink.rtr_sync_eq", "Rtr.CLink.sync_success_order",
                     "Rtr.CLink.rtr_fsm_step_eq", "Rtr.CLink.fsm_connecting_query_choice", "Rtr.CLink.fsm_connecting_open_fails",
                     "Rtr.CLink.fsm_reset_query", "Rtr.CLink.fsm_no_data_retry", "Rtr.CLink.fsm_no_incr_retry", "Rtr.CLink.stop_purges",
                     "Rtr.CLink.Err.rtr_send_pdu_eq", "Rtr.CLink.Err.send_pdu_sends", "Rtr.CLink.tr_send_all_eq", "Rtr.CLink.tr_send_all_chunks",
                     "Rtr.CLink.rtr_init_eq", "Rtr.CLink.rtr_init_accepts"],
        "functions": ["rtr_send_serial_query", "rtr_send_reset_query", "rtr_handle_cache_response_pdu", "rtr_sync", "rtr_fsm_start", "rtr_stop",
                      "rtr_send_pdu", "tr_send_all", "rtr_init"],
        "ops": "fsm+proto+io+intervals",
    },
    # the decision "build the new set in shadow tables and swap" is taken from socket fields (request_session_id, last_update, is_resetting)
    # that the handlers of the synchronisation path write: a reload is atomic only if they are written as specified
    "C06": {
        "modules": ["RtrProofs.CLinkSync"],
        "theorems": ["Rtr.CLink.rtr_handle_error_pdu_eq", "Rtr.CLink.error_pdu_downgrade", "Rtr.CLink.error_pdu_no_downgrade",
                     "Rtr.CLink.rtr_handle_cache_response_pdu_eq", "Rtr.CLink.cache_response_adopts_session", "Rtr.CLink.rtr_sync_eq",
                     "Rtr.CLink.sync_success_order", "Rtr.CLink.rtr_send_reset_query_eq", "Rtr.CLink.rtr_set_last_update_eq"],
        "functions": ["rtr_handle_error_pdu", "rtr_handle_cache_response_pdu", "rtr_sync", "rtr_send_reset_query", "rtr_set_last_update"],
        "ops": "proto",
    },
    "C13": {
        "modules": ["RtrProofs.CLinkFsm"],
        "modules_extra": ["RtrProofs.CLinkRecv", "RtrProofs.CLinkSync"],
        "theorems": ["Rtr.CLink.Recv.receive_pdu_eq_model", "Rtr.CLink.Recv.receive_pdu_version", "Rtr.CLink.Recv.downgrade_spec", "Rtr.CLink.Recv.downgrade_version_le", "Rtr.CLink.Recv.receive_pdu_socket", "Rtr.CLink.sync_downgrade", "Rtr.CLink.sync_version_only_downgrade", "Rtr.CLink.error_pdu_downgrade", "Rtr.CLink.error_pdu_no_downgrade", "Rtr.CLink.error_pdu_version_le", "Rtr.CLink.rtr_sync_eq",
                     "Rtr.CLink.rtr_fsm_step_eq", "Rtr.CLink.fsm_connecting_purges_first", "Rtr.CLink.fsm_fast_reconnect"],
        "functions": ["rtr_receive_pdu", "rtr_sync", "rtr_handle_error_pdu", "rtr_fsm_start"],
        "ops": "fsm+proto",
    },
    "C10": {
        "modules": ["RtrProofs.CLinkMisc", "RtrProofs.CLinkSpki"],
        "theorems": ["Rtr.CLink.tommy_inthash_u32_eq", "Rtr.CLink.key_entry_cmp_eq", "Rtr.CLink.key_entry_cmp_model",
                     "Rtr.CLink.key_entry_to_spki_record_eq", "Rtr.CLink.spki_record_to_key_entry_eq"],
        "functions": ["tommy_inthash_u32", "key_entry_cmp", "key_entry_to_spki_record", "spki_record_to_key_entry"],
        "ops": "hash",
    },
    "C14": {
        "modules": ["RtrProofs.CLinkMisc"],
        "modules_extra": ["RtrProofs.CLinkErr", "RtrProofs.CLinkRecv", "RtrProofs.CLinkSync", "RtrProofs.CLinkIo", "RtrProofs.CLinkFooter", "RtrProofs.CLinkFooterModel", "RtrProofs.CLinkConv"],
        "theorems": ["Rtr.CLink.Err.rtr_send_error_pdu_eq", "Rtr.CLink.Err.error_report_never_for_error_report", "Rtr.CLink.Err.error_report_one_call", "Rtr.CLink.Err.error_report_length_consistent", "Rtr.CLink.Err.error_report_echo_exact", "Rtr.CLink.Err.error_report_no_uninitialised_byte", "Rtr.CLink.Err.rtr_send_pdu_eq", "Rtr.CLink.Err.send_pdu_sends", "Rtr.CLink.Err.send_pdu_caller_unchanged", "Rtr.CLink.Err.rtr_send_error_pdu_from_host_eq", "Rtr.CLink.Err.from_host_header_bytes",
                     "Rtr.CLink.Recv.receive_pdu_echo", "Rtr.CLink.Recv.receive_pdu_buffer_on_error", "Rtr.CLink.serial_query_contents", "Rtr.CLink.reset_query_contents",
                     "Rtr.CLink.lrtr_convert_long_eq", "Rtr.CLink.lrtr_convert_short_eq",
                     "Rtr.CLink.Footer.footer_fixed", "Rtr.CLink.Footer.footer_ipv6", "Rtr.CLink.Footer.footer_error_to_network",
                     "Rtr.CLink.Footer.footer_error_to_host", "Rtr.CLink.Footer.swapWords_involutive",
                     "Rtr.CLink.Footer.footer_fixed_round_trip", "Rtr.CLink.Footer.footer_error_round_trip",
                     "Rtr.CLink.Footer.convFooter_eq_swapWords", "Rtr.CLink.Footer.footer_C_eq_model", "Rtr.CLink.Footer.footer_C_eq_model_ipv6",
                     "Rtr.CLink.Footer.footer_C_eq_model_error_to_network", "Rtr.CLink.Footer.footer_C_eq_model_error_to_host",
                     "Rtr.CLink.Footer.header_C_eq_model", "Rtr.CLink.Footer.to_network_C_eq_model", "Rtr.CLink.Footer.footer_to_host_C_eq_model",
                     "Rtr.CLink.Footer.send_receive_roundtrip_C",
                     "Rtr.CLink.tr_send_all_eq", "Rtr.CLink.tr_send_all_of_world", "Rtr.CLink.tr_send_all_chunks", "Rtr.CLink.tr_send_all_timeouts"],
        "functions": ["rtr_send_error_pdu", "rtr_send_pdu", "rtr_send_error_pdu_from_host", "rtr_receive_pdu", "rtr_send_serial_query", "rtr_send_reset_query", "lrtr_convert_long", "lrtr_convert_short", "rtr_pdu_convert_header_byte_order", "rtr_pdu_header_to_host_byte_order",
                      "rtr_pdu_convert_footer_byte_order", "rtr_pdu_to_network_byte_order", "rtr_pdu_footer_to_host_byte_order", "tr_send_all"],
        "ops": "conv+io+proto",
    },
}

# properties whose link theorems are registered (a property is added here when its CLink module is complete)
ENABLED = ["C17", "C10", "C14", "C01", "C04", "C05", "C07", "C08", "C13", "C06"]

U32 = 2 ** 32


def translate():
    """run the translator; returns its info dict (translated, failures) or {'error': text}"""
    r = subprocess.run([sys.executable, os.path.join(vlib.VERIF, "tools", "gen_cfuns.py")], stdout=subprocess.PIPE,
                       stderr=subprocess.STDOUT, text=True)
    info = {"rc": r.returncode, "log": r.stdout[-3000:]}
    p = os.path.join(vlib.BUILD, "cfuns.json")
    if r.returncode in (0, 3) and os.path.exists(p):
        info.update(json.load(open(p)))
    else:
        info["error"] = r.stdout[-3000:]
    return info


# ------------------------------------------------------------------------------------------
# search inputs
# ------------------------------------------------------------------------------------------

def edge32(r):
    base = [0, 1, 2, 3, 31, 32, 33, 255, 256, 599, 600, 601, 7199, 7200, 7201, 65535, 65536, 65537, 86399, 86400, 86401, 172799, 172800,
            172801, 2 ** 31 - 1, 2 ** 31, 2 ** 31 + 1, U32 - 2, U32 - 1, 0x80000000, 0xFFFF0000, 0x0000FFFF, 0xAAAAAAAA, 0x55555555]
    return base + [r.randrange(U32) for _ in range(6)] + [1 << r.randrange(32) for _ in range(4)]


def ops_bits(r, n):
    ops = []
    vals = [0, 1, U32 - 1, 0x80000000, 0x7FFFFFFF, 0xAAAAAAAA, 0x12345678]
    for v in vals:
        for f in list(range(0, 36)) + [63, 64, 127, 128, 255]:
            for k in [0, 1, 2, 7, 8, 31, 32, 33, 255]:
                ops.append("get_bits %d %d %d" % (v, f, k))
    for _ in range(n):
        ops.append("get_bits %d %d %d" % (r.randrange(U32), r.choice([r.randrange(40), r.randrange(256)]), r.choice([r.randrange(40), r.randrange(256)])))
    words = [0, U32 - 1, 0x80000000, 1, 0xAAAAAAAA]
    for _ in range(n):
        a = [r.choice(words + [r.randrange(U32)]) for _ in range(4)]
        f = r.choice([0, 1, 31, 32, 33, 63, 64, 65, 95, 96, 97, 127, 128, 129, 255, r.randrange(256)])
        q = r.choice([0, 1, 2, 31, 32, 33, 64, 65, 96, 97, 127, 128, 129, 255, r.randrange(256), max(0, 128 - f)])
        ops.append("ipv6_get_bits %d %d %d %d %d %d" % (a[0], a[1], a[2], a[3], f, q))
    for lvl in list(range(0, 34)) + [127, 128, 129, 255]:
        for v in (0, U32 - 1, 0x80000000, 1, r.randrange(U32)):
            ops.append("is_left_child4 %d %d" % (v, lvl))
    for lvl in list(range(0, 130)) + [255]:
        a = [r.choice(words + [r.randrange(U32)]) for _ in range(4)]
        ops.append("is_left_child6 %d %d %d %d %d" % (a[0], a[1], a[2], a[3], lvl))
    return ops


def ops_intervals(r, n):
    ops = []
    e = edge32(r)
    for i in e:
        for lo, hi in ((1, 86400), (1, 7200), (600, 172800), (0, U32 - 1), (5, 4), (U32 - 1, 0)):
            ops.append("interval_range %d %d %d" % (i, lo, hi))
    for ty in (0, 1, 2, 3, 4, 255, U32 - 1):
        for mode in (0, 1, 2, 3, 4, -1, 7):
            for iv in e:
                ops.append("interval_option 3600 7200 600 %d %d %d %d" % (r.choice([0, 1, 2, 3]), mode, iv, ty))
    for _ in range(n):
        ops.append("interval_option %d %d %d %d %d %d %d" % (r.randrange(U32), r.randrange(U32), r.randrange(U32), r.randrange(-2, 6),
                                                            r.randrange(-2, 6), r.choice(e), r.randrange(0, 5)))
    for sm in (0, 1, 2, 3, 9):
        for opt in (0, 1, 2, 3, 4, -1, 255, 65536, 2 ** 31 - 1):
            ops.append("set_interval_mode %d %d" % (sm, opt))
    # rtr_init on a socket that held a session: every boundary of the three ranges, with and without a transport
    rng = {"r": (1, 86400), "e": (600, 172800), "y": (1, 7200)}
    for f in "rey":
        lo, hi = rng[f]
        for x in sorted(set([0, lo - 1 if lo else 0, lo, lo + 1, hi - 1, hi, hi + 1, U32 - 1, 2 ** 31] + e[:6])):
            v = {"r": 3600, "e": 7200, "y": 600}
            v[f] = x
            ops.append("rtr_init %d %d %d %d %d %d %d %d %d" % (r.randrange(U32), r.randrange(U32), r.randrange(U32), r.choice([0, 1, 2, 3]),
                                                                r.choice([0, 1]), v["r"], v["e"], v["y"], r.choice([0, 1, 2, 3, 7, -1])))
    for _ in range(max(20, n // 10)):
        ops.append("rtr_init 3600 7200 600 0 %d %d %d %d %d" % (r.choice([0, 1]), r.choice(e), r.choice(e), r.choice(e), r.choice([0, 1, 2, 3])))
    return ops


def be32(v):
    return "%08x" % (v % U32)


def ops_pdu(r, n):
    ops = []
    sizes = {0: 12, 1: 12, 2: 8, 3: 8, 4: 20, 6: 32, 7: 12, 8: 8, 9: 123}

    def pdu(ver, ty, ln, body=None):
        ln_bytes = ln
        b = "%02x%02x%04x%s" % (ver % 256, ty % 256, r.randrange(65536), be32(ln))
        rest = max(0, ln_bytes - 8)
        if body is None:
            body = "".join("%02x" % r.randrange(256) for _ in range(rest))
        body = (body + "00" * rest)[:2 * rest]
        return b + body
    for ty in list(range(0, 12)) + [127, 128, 255]:
        for ver in (0, 1, 2, 255):
            for ln in sorted(set([8, 9, 11, 12, 13, 16, 19, 20, 21, 24, 31, 32, 33, 122, 123, 124, 200] + [sizes.get(ty, 8)])):
                ops.append("pdu_check_size " + pdu(ver, ty, ln))
    # error reports: nested lengths, incl. values near 2^32 (a 32-bit accumulator would wrap) and every short length
    for ln in list(range(8, 40)) + [64, 100, 255, 256, 1000]:
        for enc in [0, 1, 4, 8, ln - 16, ln - 17, ln - 15, ln - 12, ln, U32 - 1, U32 - 4, U32 - 8, U32 - 12, U32 - 16, U32 - 17, 0x7ffffff0, 0x80000000,
                    U32 - 16 + (ln - 16), r.randrange(U32)]:
            enc %= U32
            for txt in [0, 1, (ln - 16 - enc) % U32, (ln - 16 - enc + 1) % U32, U32 - 1, (U32 - enc) % U32, r.randrange(U32)]:
                rest = max(0, ln - 8)
                body = bytearray(r.randrange(256) for _ in range(rest))
                if rest >= 4:
                    body[0:4] = enc.to_bytes(4, "big")
                off = 4 + enc
                if off + 4 <= rest:
                    body[off:off + 4] = (txt % U32).to_bytes(4, "big")
                ops.append("pdu_check_size " + pdu(r.choice([0, 1]), 10, ln, body.hex()))
    for _ in range(n):
        ty = r.choice(list(sizes) + [10, 5, 11, 200])
        ln = r.choice([sizes.get(ty, 8), r.randrange(8, 200)])
        ops.append("pdu_check_size " + pdu(r.choice([0, 1, 1, 2]), ty, ln))
    for ty in (0, 9, 10, 255):
        ops.append("pdu_type %02x%02x" % (1, ty))
    ops.append("pdu_type 01")
    return ops


def ops_hash(r, n):
    ops = ["inthash %d" % v for v in edge32(r) + [r.randrange(U32) for _ in range(n)]]

    def ent():
        return [r.randrange(U32), bytearray(r.randrange(256) for _ in range(20)), bytearray(r.randrange(256) for _ in range(91)), r.randrange(1, 5)]
    for _ in range(60):
        a = ent()
        variants = [list(a)]
        b = list(a); b[0] = (a[0] + r.choice([1, 65536, 2 ** 31])) % U32; variants.append(b)
        for pos in (0, 1, 19):
            b = list(a); k = bytearray(a[1]); k[pos] ^= 1 << r.randrange(8); b[1] = k; variants.append(b)
        for pos in (0, 19, 20, 21, 45, 89, 90):
            b = list(a); k = bytearray(a[2]); k[pos] ^= 1 << r.randrange(8); b[2] = k; variants.append(b)
        b = list(a); b[3] = a[3] + 1; variants.append(b)
        for v in variants:
            ops.append("key_cmp %d %s %s %d %d %s %s %d" % (a[0], a[1].hex(), a[2].hex(), a[3], v[0], v[1].hex(), v[2].hex(), v[3]))
    return ops


def ops_conv(r, n):
    ops = []
    for ty in (0, 4, 9, 10, 255):
        for _ in range(6):
            ops.append("header_to_host %02x%02x%04x%s" % (r.choice([0, 1]), ty, r.randrange(65536), be32(r.choice(edge32(r)))))
    # the body conversion: every type, both directions, objects shorter / exactly / longer than the fields need,
    # Error Reports whose encapsulated length points inside, at the end and beyond the object
    full = {0: 12, 1: 12, 2: 8, 3: 8, 4: 20, 6: 32, 7: 24, 8: 8, 9: 123, 10: 40, 5: 8, 11: 8, 255: 8}
    for ty, size in sorted(full.items()):
        for d in (0, 1):
            for ln in sorted(set([2, 8, 11, 12, 16, 19, 20, 23, 24, 28, 31, 32, size, size + 5])):
                for _ in range(2):
                    body = [r.randrange(256) for _ in range(ln)]
                    body[0] = r.choice([0, 1, 1, 2])
                    body[1] = ty
                    if ty == 10 and ln >= 12:
                        enc = r.choice([0, 8, ln - 16 if ln >= 16 else 0, ln - 12, ln, r.randrange(0, 64), 2 ** 32 - 4, 2 ** 31])
                        enc &= 0xffffffff
                        w = [(enc >> 24) & 255, (enc >> 16) & 255, (enc >> 8) & 255, enc & 255]
                        body[8:12] = w if d == 1 else list(reversed(w))
                    ops.append("footer %d %s" % (d, bytes(body).hex()))
                    if d == 0 and ln >= 8:
                        ops.append("tonet %s" % bytes(body).hex())
    return ops


def ops_io(r, n):
    """scripted transports for tr_send_all / tr_recv_all: partial answers, errors, zero answers, clock jumps around the deadline"""
    ops = []
    for fn in ("send_all", "recv_all"):
        for _ in range(max(60, n // 3)):
            ln = r.choice([1, 2, 8, 12, 20, 123, 3248, r.randrange(1, 400)])
            timeout = r.choice([0, 1, 60, 3600, r.randrange(0, 100000), -1])
            c0 = r.choice([0, 100, 10 ** 6, r.randrange(10 ** 9)])
            now, left, rounds = c0, ln, []
            for _k in range(r.randrange(0, 8)):
                now += r.choice([0, 0, 1, timeout - 1 if timeout > 1 else 1, timeout, timeout + 1, r.randrange(0, 2 * abs(timeout) + 2)])
                x = r.random()
                if x < 0.12:
                    a = r.choice([-1, -2, -3, -4])
                elif x < 0.18:
                    a = 0
                else:
                    a = max(1, min(left, r.choice([1, left, (left + 1) // 2, r.randrange(1, left + 1)]))) if left > 0 else 1
                rounds.append("%d:%d" % (now, a))
                if a < 0:
                    break
                left -= a
                if left <= 0:
                    break
            ops.append("%s %d %d %s" % (fn, ln, timeout, ",".join([str(c0)] + rounds)))
    return ops


def ops_fsm(r, n):
    """random sockets in every state and random answers of the callees: the translated state machine next to the skeleton specification"""
    ops = []

    def sock(state=None):
        lu = r.choice([0, 0, 100, 1000, r.randrange(1, 10 ** 6)])
        return [r.choice([1, 300, 3600, 86400]), lu, r.choice([600, 7200, 172800, U32 - 1]), r.choice([0, 1, 30, 600, 7200]), r.choice([0, 1, 2, 3]),
                r.randrange(0, 12) if state is None else state, r.randrange(65536), r.choice([0, 1]), r.randrange(U32), r.choice([0, 5]),
                r.choice([0, 1]), r.choice([0, 1]), r.choice([0, 1])]
    for _ in range(max(150, n)):
        s0 = sock(r.choice(list(range(11)) + [0, 0, 1, 7, 8, 5, 6]))
        answers = []
        cur = list(s0)
        for _k in range(r.randrange(1, 14)):
            nxt = list(cur)
            if r.random() < 0.7:
                nxt[5] = r.choice([0, 1, 2, 3, 4, 5, 6, 7, 8, 9])
            if r.random() < 0.2:
                nxt = sock(nxt[5])
            rc = r.choice([0, 0, 0, -1, -1, -2, -4, 1])
            aux = r.choice([0, cur[1] + cur[2], cur[1] + cur[2] + 1, cur[1] + cur[2] - 1, r.randrange(10 ** 7)])
            answers.append("%d %d %s" % (rc, aux, " ".join(str(x) for x in nxt)))
            cur = nxt
        ops.append("fsm_replay %d %s ; %s" % (r.randrange(1, 8), " ".join(str(x) for x in s0), " ; ".join(answers)))
    return ops


def ops_proto(r, n):
    """the translated protocol functions next to their specifications: random sockets, buffers and answers of the callees"""
    ops = []

    def sock(**kw):
        s = {"refresh": r.choice([1, 300, 3600, 86400]), "lu": r.choice([0, 100, 1000, r.randrange(1, 10 ** 6)]),
             "expire": r.choice([600, 7200]), "retry": r.choice([1, 600]), "iv": r.choice([0, 1, 2, 3]), "state": r.choice([1, 3, 0]),
             "sid": r.randrange(65536), "rq": r.choice([0, 1]), "sn": r.randrange(U32), "th": 5, "ver": r.choice([0, 1]), "hp": r.choice([0, 1]), "ir": r.choice([0, 1])}
        s.update(kw)
        return [s[k] for k in ("refresh", "lu", "expire", "retry", "iv", "state", "sid", "rq", "sn", "th", "ver", "hp", "ir")]

    def st(x):
        return " ".join(str(v) for v in x)

    def ans(rc, aux, buf, so):
        return "%d %d %s %s" % (rc, aux, buf or "-", st(so))
    for _ in range(max(40, n // 6)):
        s0 = sock()
        dl = s0[1] + s0[0]
        now = r.choice([dl - 1, dl, dl + 1, s0[1], dl + 10 ** 6, r.randrange(10 ** 7), 2 ** 63 - 1 if r.random() < 0.05 else dl])
        rc = r.choice([12, 0, 8, -1, -2, -3, -4])
        ty = r.choice([0, 0, 3, 8, 10, 4, 255])
        ops.append("proto_fn wait_for_sync %s ; - ; %s ; %s" % (st(s0), ans(0, now, "", s0), ans(rc, 0, "01%02x0000" % ty, sock(state=s0[5]))))
        # a complete Serial Notify (host byte order, as rtr_receive_pdu leaves it): session and serial equal to / different from the socket's
        nsid = r.choice([s0[6], s0[6], s0[6] ^ 1])
        nsn = r.choice([s0[8], s0[8], (s0[8] + 1) % U32, r.randrange(U32)])
        nbuf = "%02x00%s0c000000%s" % (s0[10], (nsid % 65536).to_bytes(2, "little").hex(), nsn.to_bytes(4, "little").hex())
        s1 = list(s0)
        ops.append("proto_fn wait_for_sync %s ; - ; %s ; %s ; %s ; %s" % (st(s0), ans(0, now, "", s0), ans(12, 0, nbuf, s1), ans(0, now + 5, "", s1), ans(0, 0, "", s1)))
        ops.append("proto_fn set_last_update %s ; - ; %s ; %s" % (st(s0), ans(r.choice([0, 0, -1]), r.randrange(10 ** 7), "", s0), ans(0, 0, "", sock(state=7))))
        for q in ("serial_query", "reset_query"):
            ops.append("proto_fn %s %s ; - ; %s ; %s" % (q, st(s0), ans(r.choice([0, 0, -1, 5]), 0, "", s0), ans(0, 0, "", sock(state=8))))
        sid = r.choice([s0[6], s0[6] ^ 1, r.randrange(65536)])
        ops.append("proto_fn cache_response %s ; %02x03%04x00000008 ; %s ; %s" % (st(s0), s0[10], sid, ans(0, 0, "", s0), ans(0, 0, "", sock(state=7))))
        # a stored session id of 0 is a session id like any other (not "no session yet")
        z0 = sock(sid=0, rq=r.choice([0, 0, 1]))
        ops.append("proto_fn cache_response %s ; %02x03%04x00000008 ; %s ; %s" % (st(z0), z0[10], r.choice([0, 1, 77, r.randrange(65536)]), ans(0, 0, "", z0), ans(0, 0, "", sock(state=7))))
        ln = r.choice([16, 16, 20, 40])
        enc = r.choice([0, 0, ln - 16, 4, U32 - 1, ln])
        body = bytearray(max(0, ln - 12))
        txt_off = enc
        if txt_off + 4 <= len(body):
            body[txt_off:txt_off + 4] = (max(0, ln - 16 - enc)).to_bytes(4, "little")
        ops.append("proto_fn error_pdu %s ; %02x0a%s%s%s%s ; %s" % (st(s0), r.choice([0, 1, 2]), (r.choice([0, 1, 2, 3, 4, 5, 6, 8, 9])).to_bytes(2, "little").hex(),
                                                                      ln.to_bytes(4, "little").hex(), (enc % U32).to_bytes(4, "little").hex(), body.hex(), ans(0, 0, "", sock())))
        # rtr_send_pdu: the conversion's answer (the converted copy), then the transport's answer(s): complete, short, would-block,
        # interrupted, error, closed - the PDU is handed to tr_send_all exactly once
        pl = r.choice([8, 12, 12, 20, 32, 123])
        pdu = bytes(r.randrange(256) for _ in range(pl))
        conv = bytes(r.randrange(256) for _ in range(pl))
        s1 = sock(state=r.choice([s0[5], s0[5], 9]))
        outs = [ans(0, 0, conv.hex(), s1)] + [ans(r.choice([pl, pl, 5, 0, -1, -2, -3, -4]), 0, "", s1) for _ in range(3)]
        ops.append("proto_fn send_pdu %s ; %s ; %s" % (st(s1), pdu.hex(), " ; ".join(outs)))
        # rtr_sync: a few rounds of answers (cancel, receive, cancel, then the dispatch)
        rounds = []
        cur = s0
        for _k in range(r.randrange(1, 4)):
            t = r.choice([0, 0, 3, 3, 8, 10, 6])
            rcv = r.choice([12, 12, 12, -1, -2, -4])
            nxt = sock(state=cur[5], rq=cur[7], ver=cur[10])
            rounds += [ans(0, 0, "", cur), ans(rcv, 0, "01%02x00000000000c" % t, nxt), ans(0, 0, "", nxt)]
            cur = nxt
            if rcv < 0 or t != 0:
                break
        rounds += [ans(r.choice([0, -1]), 0, "", sock()) for _ in range(4)]
        ops.append("proto_fn sync %s ; - ; %s" % (st(s0), " ; ".join(rounds)))
        # rtr_receive_pdu: header answer, payload answer, footer/report/state answers
        ver = r.choice([0, 1, 1, 2])
        ty = r.choice([0, 3, 4, 7, 8, 10, 10, 5, 255])
        sizes = {0: 12, 3: 8, 4: 20, 7: 12 if ver == 0 else 24, 8: 8, 10: 16}
        ln = r.choice([sizes.get(ty, 8), sizes.get(ty, 8), 7, 0, 9, 3248, 3249, U32 - 1, r.randrange(8, 64)])
        hdr = "%02x%02x%04x%08x" % (ver, ty, r.randrange(65536), ln)
        pl = max(0, min(ln, 3248) - 8)
        payload = bytearray(r.randrange(256) for _ in range(pl))
        if ty == 10 and pl >= 8:
            payload[0:4] = r.choice([0, pl - 8, U32 - 16, U32 - 1, 4]).to_bytes(4, "big") if True else b""
        rc1 = r.choice([8, 8, 8, 8, -1, -2, -3, -4, -7])
        rc2 = r.choice([pl, pl, pl, -1, -2, -4])
        so = sock(state=r.choice([1, 3, 9]), hp=r.choice([0, 1]), ver=r.choice([0, 1]))
        extra = [ans(0, 0, payload.hex()[:80] or "-", so) for _ in range(3)]
        ops.append("proto_fn receive_pdu %s ; - ; %s ; %s ; %s" % (st(so), ans(rc1, 0, hdr, so), ans(rc2, 0, payload.hex() or "-", so), " ; ".join(extra)))
    return ops


OPS = {"proto": ops_proto, "fsm": ops_fsm, "bits": ops_bits, "intervals": ops_intervals, "pdu": ops_pdu, "hash": ops_hash, "conv": ops_conv, "io": ops_io}


def search(pid, tier):
    """returns (mismatches, nops, note): mismatches = list of (op line, reply)"""
    L = LINKS[pid]
    # the driver takes the specifications from proof-free copies of the link modules (tools/gen_specs.py): it builds also when a link proof is broken
    subprocess.run([sys.executable, os.path.join(vlib.VERIF, "tools", "gen_specs.py")], stdout=subprocess.DEVNULL, stderr=subprocess.DEVNULL)
    ok, log = vlib.lake_build(["cfundriver"])
    drv = vlib.driver_path("cfundriver")
    if not ok or not os.path.exists(drv):
        return None, 0, "the driver for the translated functions does not build against the current translation:\n" + log[-1500:]
    r = vlib.rng("cfun/" + pid)
    ops = []
    for kind in L["ops"].split("+"):
        ops += OPS[kind](r, 300 if tier == "quick" else 5000)
    out, rc, err = vlib.run_lines(drv, ops)
    if rc != 0 or len(out) != len(ops):
        return None, len(ops), "cfundriver failed (rc=%s, %d replies for %d ops): %s" % (rc, len(out), len(ops), err[-500:])
    bad = []
    for o, l in zip(ops, out):
        if l == "bad-op":
            continue
        if not l.startswith("gen=") or " model=" not in l:
            bad.append((o, l))
            continue
        g, m = l[4:].split(" model=", 1)         # the two sides may contain blanks (sockets, traces of calls)
        if m == "-":
            continue
        if g != m:
            bad.append((o, l))
    return bad, len(ops), ""


def link(rep, pid, tier=None):
    """translation tie for `pid`; records obligations/violations in rep; True when the tie holds"""
    tier = tier or getattr(rep, "tier", "quick")
    L = LINKS[pid]
    info = translate()
    rep.cov.setdefault("translation_tie", {})
    tie = rep.cov["translation_tie"]
    tie["translator"] = "tools/gen_cfuns.py (clang-14 typed AST -> Lean), regenerated this run"
    tie["functions"] = L["functions"]
    failures = {n: why for n, why in info.get("failures", [])} if "error" not in info else {}
    missing = [f for f in L["functions"] if f in failures or ("translated" in info and f not in info["translated"])]
    main_obl = dict(rep.obligations)
    main_log = getattr(rep, "build_log", None)
    proved = False
    if "error" not in info:
        sub = vlib.Report(pid, tier)
        proved = vlib.prove(sub, L["modules"] + L.get("modules_extra", []), L["theorems"])
        for t, v in sub.obligations.items():
            rep.obligations[t] = v
        tie["axioms"] = sub.cov.get("axioms", {})
        link_log = getattr(sub, "build_log", "")
    else:
        for t in L["theorems"]:
            rep.obligations[t] = False
        link_log = info["error"]
    bad, nops, note = search(pid, tier)
    if L.get("xtrace") and "error" not in info:
        import xtracecheck
        xtracecheck.check(rep, tier)      # translator validation: real runs of the state machine replayed on its translation
    tie["search_inputs"] = nops
    tie["search_differences"] = None if bad is None else len(bad)
    if bad:
        txt = ("The C text of %s, as translated from the current source, differs from the model the property theorems are about.\n"
               "Each line: the driver request (function and arguments) and what the translated C text (gen) and the model compute.\n"
               "Replay: echo '<request>' | lean/.lake/build/bin/cfundriver   (after `lake build cfundriver`)\n\n" % ", ".join(L["functions"]))
        for o, l in bad[:20]:
            txt += "%s\n    %s\n" % (o, l)
        rep.violation("clink", txt)
        return False
    if proved and not missing:
        return True
    why = []
    if missing:
        why.append("no longer translatable: " + "; ".join("%s (%s)" % (f, failures.get(f, "not in the translation")) for f in missing))
    bad_thms = [t for t in L["theorems"] if not rep.obligations.get(t)]
    if bad_thms:
        why.append("link theorems that no longer check: " + ", ".join(bad_thms))
    if note:
        why.append(note)
    rep.build_log = link_log
    vlib.proof_failure(rep, "translation tie (generated C functions = model):\n  " + "\n  ".join(why) +
                       "\n(search over %d inputs found no input on which the translated C text and the model differ)" % nops)
    if main_log is not None:
        rep.build_log = main_log
    return False


if __name__ == "__main__":
    pid = sys.argv[1]
    rep = vlib.Report(pid + "link", "quick")
    print(link(rep, pid))
    print(json.dumps(rep.cov.get("translation_tie"), indent=1)[:2000])
    for p, ni in rep.violations:
        print("VIOLATION", p, ni)
