"""Check C15: proofs about the group-manager model + correspondence with rtr_mgr.c (real rtr_start / rtr_stop /
rtr_change_socket_state, mock transport) + the property's own oracle evaluated on the implementation's trace."""
import os
import re
import sys

sys.path.insert(0, os.path.dirname(os.path.abspath(__file__)))
import vlib

MODULES = ["RtrProps.C15"]
THEOREMS = [
    "Rtr.C15.init_rejects", "Rtr.C15.add_rejects_dup", "Rtr.C15.last_group_kept", "Rtr.C15.sorted_inv",
    "Rtr.C15.sorted_inv_run", "Rtr.C15.established_only_if_synced", "Rtr.C15.established_closes_less_preferred",
    "Rtr.C15.never_closed_for_worse", "Rtr.C15.error_starts_best_closed", "Rtr.C15.closed_groups_have_no_thread",
    "Rtr.C15.rereport_while_unsynced", "Rtr.C15.failed_add_changes_nothing", "Rtr.C15.last_group_never_removed",
    "Rtr.C15.len_bookkeeping",
]
LINK = ["-Wl,--wrap=rtr_start", "-Wl,--wrap=rtr_stop", "-Wl,--wrap=lrtr_dbg"]

STATE_NAMES = ["CONNECTING", "ESTABLISHED", "RESET", "SYNC", "FAST_RECONNECT", "ERROR_NO_DATA_AVAIL",
               "ERROR_NO_INCR_UPDATE_AVAIL", "ERROR_FATAL", "ERROR_TRANSPORT", "SHUTDOWN", "CLOSED"]
ST_ESTABLISHED, ST_SHUTDOWN = 1, 9
ERROR_STATES = (5, 7, 8)
SYNC_OK_STATES = (1, 2, 3)


def build():
    # rtrlib/rtr_mgr.h includes "config.h" relative to rtrlib/; fresh worktrees have no generated config.h
    flags = vlib.SAN_FLAGS + ["-I" + os.path.join(vlib.BUILD, "gen", "rtrlib")]
    return vlib.build_harness("mgr", ["mgr_harness.c"], flags=flags, link=LINK)


# ------------------------------------------------------------------------------------------ traces

class Obs:
    """parsed reply line of an operation on a live configuration"""
    __slots__ = ("rc", "log", "first", "groups", "raw")

    def prefs(self):
        return [g[0] for g in self.groups]

    def group(self, p):
        for g in self.groups:
            if g[0] == p:
                return g
        return None


def parse_obs(line):
    """'rc=0 log=... first=3 groups=3:CLOSED:10.0.0,10.0.0|5:...'  ->  Obs (None when the line has no observation)"""
    m = re.match(r"^rc=(-?\d+) log=(\S+) first=(\d+|\?) groups=(\S*)$", line)
    if not m:
        return None
    o = Obs()
    o.raw = line
    o.rc = int(m.group(1))
    o.log = [] if m.group(2) == "-" else m.group(2).split(";")
    o.first = int(m.group(3)) if m.group(3) != "?" else None
    o.groups = []
    for gtxt in m.group(4).split("|"):
        if not gtxt:
            continue
        p, st, socks = gtxt.split(":")
        ss = []
        for s in socks.split(","):
            if s:
                a, b, c = s.split(".")
                ss.append((int(a), int(b), int(c)))
        o.groups.append((int(p), st, ss))
    return o


def log_entries(log):
    """-> list of ('S', q, STATUS, sock) | ('start', q, j, ok) | ('stop', q, j) | ('?', text)"""
    out = []
    for e in log:
        m = re.match(r"^S(\d+):([A-Z]+)@(\S+)$", e)
        if m:
            out.append(("S", int(m.group(1)), m.group(2), m.group(3)))
            continue
        m = re.match(r"^start(\d+)\.(\d+):(ok|fail)$", e)
        if m:
            out.append(("start", int(m.group(1)), int(m.group(2)), m.group(3) == "ok"))
            continue
        m = re.match(r"^stop(\d+)\.(\d+)$", e)
        if m:
            out.append(("stop", int(m.group(1)), int(m.group(2))))
            continue
        out.append(("?", e))
    return out


def oracle(ops, out):
    """The statement of C15 evaluated on the implementation's own observations (no model involved).
    returns list of (line index, clause, message)"""
    fails = []
    pre = None                                 # last observation of the live configuration
    pristine = True                            # no setiv since init: every socket still has the intervals of rtr_mgr_init
    for k, (op, line) in enumerate(zip(ops, out)):
        w = op.split()
        if not w:
            continue
        if line == "bad-op":
            continue
        if w[0] == "free":
            pre = None
            continue
        cur = parse_obs(line)
        if w[0] == "init":
            pristine = True
            specs = []
            for t in w[1:]:
                a, b = t.split(":")
                specs.append((int(a), int(b)))
            want_ok = bool(specs) and all(n >= 1 for _, n in specs) and len({p for p, _ in specs}) == len(specs)
            m = re.match(r"^rc=(-?\d+)", line)
            rc = int(m.group(1)) if m else None
            if want_ok != (rc == 0):
                fails.append((k, "init_rejects", "rtr_mgr_init returned %s for %s (%s expected)" % (
                    rc, w[1:], "success" if want_ok else "rejection")))
            if rc == 0:
                if cur is None:
                    fails.append((k, "init_rejects", "no configuration after successful init"))
                else:
                    if cur.prefs() != sorted(p for p, _ in specs):
                        fails.append((k, "sorted_inv", "groups after init are %s" % cur.prefs()))
                    if any(g[1] != "CLOSED" for g in cur.groups):
                        fails.append((k, "init_rejects", "a group is not CLOSED after init"))
                pre = cur
            else:
                if cur is not None or "CONFIG" in line:
                    fails.append((k, "init_rejects", "failed init left a configuration: " + line))
                pre = None
            continue
        if cur is None:
            fails.append((k, "protocol", "unparsable reply: " + line))
            pre = None
            continue
        if pre is None:
            pre = cur
            continue
        entries = log_entries(cur.log)
        prefs = cur.prefs()
        # ---- ascending order, first group, never empty
        if not prefs:
            fails.append((k, "last_group_kept", "no group left"))
        if any(a >= b for a, b in zip(prefs, prefs[1:])):
            fails.append((k, "sorted_inv", "groups presented as %s" % prefs))
        if prefs and cur.first != prefs[0]:
            fails.append((k, "sorted_inv", "first group is %d, order is %s" % (cur.first, prefs)))
        # ---- add / remove
        if w[0] == "setiv":
            pristine = False
            if cur.groups != pre.groups or cur.log or cur.rc != 0:
                fails.append((k, "protocol", "setiv changed the observable configuration: " + line))
        if w[0] in ("add", "addf"):
            p = int(w[1])
            if p in pre.prefs():
                if cur.rc == 0 or cur.groups != pre.groups or cur.log:
                    fails.append((k, "add_rejects_dup", "adding preference %d (in use) gave rc=%d" % (p, cur.rc)))
            elif cur.rc == 0:
                if prefs != sorted(pre.prefs() + [p]):
                    fails.append((k, "add_rejects_dup", "adding fresh preference %d gave rc=%d groups %s" % (p, cur.rc, prefs)))
            else:
                # a refused add (intervals rejected by rtr_init, refused allocation) must not change or start anything
                if cur.groups != pre.groups or cur.log:
                    fails.append((k, "failed_add_changes_nothing", "add of fresh preference %d failed with rc=%d but groups %s -> %s, log %s" % (
                        p, cur.rc, pre.prefs(), prefs, cur.log)))
                if w[0] == "add" and pristine:
                    # no interval of any socket was ever touched and no allocation refused: nothing can make it fail
                    fails.append((k, "add_rejects_dup", "adding fresh preference %d gave rc=%d groups %s" % (p, cur.rc, prefs)))
        if w[0] == "remove":
            p = int(w[1])
            if len(pre.groups) == 1:
                if cur.rc == 0 or cur.groups != pre.groups:
                    fails.append((k, "last_group_kept", "removing from a one-group configuration gave rc=%d groups %s" % (cur.rc, prefs)))
            elif p in pre.prefs():
                if cur.rc != 0 or prefs != [q for q in pre.prefs() if q != p]:
                    fails.append((k, "last_group_kept", "remove %d gave rc=%d groups %s" % (p, cur.rc, prefs)))
            else:
                if cur.rc == 0 or cur.groups != pre.groups:
                    fails.append((k, "last_group_kept", "removing unknown preference %d gave rc=%d" % (p, cur.rc)))
        evp = int(w[1]) if w[0] == "ev" else None
        evi = int(w[2]) if w[0] == "ev" else None
        evst = int(w[3]) if w[0] == "ev" else None
        # ---- ESTABLISHED only when synced
        became = set()
        for g in cur.groups:
            old = pre.group(g[0])
            if g[1] == "ESTABLISHED" and (old is None or old[1] != "ESTABLISHED"):
                became.add(g[0])
        for e in entries:
            if e[0] == "S" and e[2] == "ESTABLISHED":
                old = pre.group(e[1])
                if old is None or old[1] != "ESTABLISHED":
                    became.add(e[1])
        for q in sorted(became):
            g = cur.group(q)
            if w[0] != "ev" or evp != q or evst != ST_ESTABLISHED:
                fails.append((k, "established_only_if_synced", "group %d reported ESTABLISHED by '%s'" % (q, op)))
            elif g is None or g[1] != "ESTABLISHED" or not all(s[1] == 1 and s[0] in SYNC_OK_STATES for s in g[2]):
                fails.append((k, "established_only_if_synced", "group %d reported ESTABLISHED with sockets %s" % (q, g)))
        # ---- failover on ESTABLISHED
        stops = [e for e in entries if e[0] == "stop"]
        starts = [e for e in entries if e[0] == "start"]
        if w[0] == "ev":
            if evp in became:
                for g in cur.groups:
                    if g[0] > evp and g[1] != "CLOSED":
                        fails.append((k, "established_closes_less_preferred",
                                      "group %d became ESTABLISHED, less preferred group %d is %s" % (evp, g[0], g[1])))
                for g in pre.groups:
                    if g[0] > evp and g[1] != "CLOSED":
                        if not any(e[0] == "S" and e[1] == g[0] and e[2] == "CLOSED" for e in entries):
                            fails.append((k, "established_closes_less_preferred",
                                          "no CLOSED status callback for group %d" % g[0]))
                        for j in range(len(g[2])):
                            if ("stop", g[0], j) not in stops:
                                fails.append((k, "established_closes_less_preferred",
                                              "socket %d.%d was not stopped" % (g[0], j)))
            for e in stops:
                if e[1] <= evp or evp not in became:
                    fails.append((k, "never_closed_for_worse",
                                  "rtr_stop on socket %d.%d while handling an event of group %d (%s)" % (
                                      e[1], e[2], evp, "which became ESTABLISHED" if evp in became else "not newly ESTABLISHED")))
        elif w[0] in ("add", "addf", "start", "setiv"):
            if stops:
                fails.append((k, "never_closed_for_worse", "'%s' stopped sockets %s" % (op, stops)))
        elif w[0] == "remove":
            for e in stops:
                if e[1] != int(w[1]):
                    fails.append((k, "never_closed_for_worse", "remove %s stopped socket %d.%d" % (w[1], e[1], e[2])))
        # ---- failover on ERROR
        if w[0] == "ev":
            g0 = pre.group(evp)
            effective = g0 is not None and evi < len(g0[2]) and g0[2][evi][0] != evst and g0[2][evi][0] != ST_SHUTDOWN
            if evst in ERROR_STATES and effective:
                gp = cur.group(evp)
                if gp is None or gp[1] != "ERROR":
                    fails.append((k, "error_starts_best_closed", "group %d not ERROR after error event" % evp))
                others_est = any(g[0] != evp and g[1] == "ESTABLISHED" for g in pre.groups)
                closed = [g for g in pre.groups if g[0] != evp and g[1] == "CLOSED"]
                if others_est or not closed:
                    if starts:
                        fails.append((k, "error_starts_best_closed", "unexpected starts %s" % starts))
                else:
                    q = min(closed, key=lambda g: g[0])
                    want = []
                    allok = True
                    for j, s in enumerate(q[2]):
                        if s[2]:
                            want.append(("start", q[0], j, False))
                            allok = False
                            break
                        want.append(("start", q[0], j, True))
                    if starts != want:
                        fails.append((k, "error_starts_best_closed",
                                      "most preferred closed group is %d, starts seen: %s" % (q[0], starts)))
                    gq = cur.group(q[0])
                    if gq is None or (gq[1] == "CONNECTING") != allok:
                        fails.append((k, "error_starts_best_closed", "group %d is %s after being started" % (
                            q[0], gq[1] if gq else None)))
            elif starts:
                fails.append((k, "error_starts_best_closed", "starts %s on a non-error event" % starts))
        pre = cur
    return fails


# ------------------------------------------------------------------------------------------ generator

class Case:
    def __init__(self, hid, ops=None):
        self.hid = hid
        self.ops = list(ops or [])


def gen_case(r, hid):
    c = Case(hid)
    prefpool = r.choice([list(range(0, 8)), [0, 1, 2, 3, 250, 253, 254, 255], list(range(10, 200, 17)), [7, 7, 7, 9, 11]])

    def specs(valid):
        n = r.choice([1, 1, 2, 2, 2, 3, 3, 4])
        if valid:
            ps = r.sample(sorted(set(prefpool)) + [100, 101, 102, 103], n)
            return ["%d:%d" % (p, r.choice([1, 1, 2, 2, 3])) for p in ps]
        kind = r.choice(["empty", "nosock", "dup", "dup", "both"])
        if kind == "empty":
            return []
        ps = [r.choice(prefpool) for _ in range(max(n, 2))]
        ns = [r.choice([1, 2, 3]) for _ in ps]
        if kind in ("dup", "both"):
            ps[r.randrange(1, len(ps))] = ps[0]
        if kind in ("nosock", "both"):
            ns[r.randrange(len(ns))] = 0
        return ["%d:%d" % (p, n_) for p, n_ in zip(ps, ns)]

    # a few rejected initialisations first
    while r.random() < 0.25:
        c.ops.append(("init " + " ".join(specs(False))).strip())
    sp = specs(True)
    c.ops.append("init " + " ".join(sp))
    groups = {int(t.split(":")[0]): int(t.split(":")[1]) for t in sp}   # generator's view: pref -> nsocks
    if r.random() < 0.9:
        c.ops.append("start")
    nops = r.choice([8, 15, 25, 40, 60])
    for _ in range(nops):
        x = r.random()
        ps = sorted(groups)
        if x < 0.12:
            # bring a whole group up the way the FSM does: SYNC then ESTABLISHED with data
            p = r.choice(ps)
            for j in range(groups[p]):
                if r.random() < 0.5:
                    c.ops.append("ev %d %d 3 1" % (p, j))
                c.ops.append("ev %d %d 1 %d" % (p, j, 1 if r.random() < 0.92 else 0))
        elif x < 0.015 + 0.12:
            # End of Data in ACCEPT_ANY mode: intervals of the group's first socket, in range / out of range / 0
            t = [r.choice([0, 1, 599, 600, 3600, 7200, 7201, 86400, 86401, 172800, 172801, 999999999]) for _ in range(3)]
            c.ops.append("setiv %d %d %d %d" % (r.choice(ps + [r.choice(prefpool)]), t[0], t[1], t[2]))
        elif x < 0.72:
            p = r.choice(ps)
            j = r.randrange(groups[p]) if r.random() < 0.99 else groups[p]
            st = r.choice([1, 1, 1, 1, 7, 7, 8, 8, 5, 0, 0, 3, 2, 3, 9, 4, 6, 10])
            c.ops.append("ev %d %d %d %d" % (p, j, st, 1 if r.random() < 0.7 else 0))
        elif x < 0.82:
            p = r.choice(prefpool + ps)
            n = r.choice([1, 1, 2, 3])
            c.ops.append("add %d %d" % (p, n))
            if p not in groups:
                groups[p] = n
        elif x < 0.92:
            p = r.choice(ps) if r.random() < 0.8 else r.choice(prefpool + [300, 70000])
            c.ops.append("remove %d" % p)
            if p in groups and len(groups) > 1:
                del groups[p]
        elif x < 0.97:
            c.ops.append("start")
        else:
            c.ops.append("stop")
    c.ops.append("free")
    return c


# allocation indexes of rtr_mgr_add_group that the generator refuses.  Index 2 (the list node) is supported by harness and
# model (as fixed: RTR_ERROR, nothing changes) but the present code returns RTR_SUCCESS there without adding the group
# (build/fixes/C15_add_group_node_alloc_rc.diff); it joins the generated classes when VERIF_MGR_ALLOC2=1 or once /repo is fixed.
# Index 3 does not exist today: refusing it must be without effect (it detects an allocation that is added to the function).
ALLOC_FAIL_INDEXES = (1, 2, 3)       # index 2 (the list node) since the fix cc85024 in /repo


def interval_bounds():
    """(refresh, expire, retry) ranges of rtr_init as spelled in the tree under test (rtrlib/rtr/rtr_private.h), plus the integer
    literals of the sources as further candidates for announced values"""
    vals = {}
    try:
        src = ""
        for f in ("rtr_private.h", "rtr.h"):
            fp = os.path.join(vlib.REPO, "rtrlib", "rtr", f)
            if os.path.exists(fp):
                src += open(fp, errors="replace").read()
        for m in re.finditer(r"\b(RTR_(?:REFRESH|EXPIRATION|RETRY)_(?:MIN|MAX))\s*=\s*(\d+)", src):
            vals[m.group(1)] = int(m.group(2))
    except OSError:
        pass
    rng_ = [(vals.get("RTR_REFRESH_MIN", 1), vals.get("RTR_REFRESH_MAX", 86400)),
            (vals.get("RTR_EXPIRATION_MIN", 600), vals.get("RTR_EXPIRATION_MAX", 172800)),
            (vals.get("RTR_RETRY_MIN", 1), vals.get("RTR_RETRY_MAX", 7200))]
    lits = [v for v in vlib.source_literals()["ints"] if 2 <= v <= 999999998]
    return rng_, lits


def gen_ivcase(r, hid, bounds, lits, kind):
    """An add that fails AFTER the duplicate-preference check, then removals down to the last group and further:
    kind 'iv'    - End of Data with out-of-range intervals (ACCEPT_ANY) on the group(s) rtr_mgr_add_group copies from,
    kind 'alloc' - an allocation of rtr_mgr_add_group is refused,
    kind 'inrange' - interval changes that stay inside the ranges / are 0 ("not set"): every add must still succeed."""
    c = Case(hid)
    LIM = 999999999

    def inside(j):
        lo, hi = bounds[j]
        return r.choice([lo, hi, min(lo + 1, hi), max(hi - 1, lo), r.randint(lo, hi)])

    def outside(j):
        lo, hi = bounds[j]
        cands = [hi + 1, min(hi * 2 + 7, LIM), LIM] + [v for v in (r.choice(lits), r.choice(lits)) if v > hi]
        if lo > 1:
            cands += [lo - 1, 1, max(1, lo // 2)]
        return min(r.choice(cands), LIM)

    def iv(bad):
        x = [inside(0), inside(1), inside(2)]
        if bad:
            for j in r.sample([0, 1, 2], r.choice([1, 1, 2, 3])):
                x[j] = outside(j)
        else:
            for j in range(3):
                if r.random() < 0.2:
                    x[j] = 0
        return tuple(x)

    def ok(t):
        return all(bounds[j][0] <= t[j] <= bounds[j][1] for j in range(3))

    def picked(ivs, order):
        acc = [3600, 7200, 600]
        for p in order:
            for j in range(3):
                if ivs[p][j]:
                    acc[j] = ivs[p][j]
        return tuple(acc)

    n = r.choice([1, 1, 2, 2, 3])
    ps = sorted(r.sample(range(1, 60), n))
    nsock = {p: r.choice([1, 1, 2]) for p in ps}
    ivs = {p: (3600, 7200, 600) for p in ps}
    c.ops.append("init " + " ".join("%d:%d" % (p, nsock[p]) for p in ps))
    if r.random() < 0.7:
        c.ops.append("start")

    def fresh():
        while True:
            p = r.randrange(0, 256)
            if p not in ivs:
                return p

    def do_add(failk=0):
        p, k = fresh(), r.choice([1, 1, 2])
        c.ops.append(("addf %d %d %d" % (p, k, failk)) if failk else "add %d %d" % (p, k))
        pk = picked(ivs, sorted(ivs))
        if ok(pk) and failk not in (1, 2):
            ivs[p] = pk
            nsock[p] = k

    for _ in range(r.choice([0, 1, 1, 2])):
        do_add()
    if r.random() < 0.4:
        p = r.choice(sorted(ivs))
        c.ops.append("ev %d 0 1 1" % p)
    if kind == "alloc":
        for _ in range(r.choice([1, 2, 3])):
            do_add(r.choice(ALLOC_FAIL_INDEXES))
    else:
        order = sorted(ivs)
        shape = r.choice(["last", "last", "all", "earlier"])
        if shape == "last" or len(order) == 1:
            targets = [(order[-1], iv(kind == "iv"))]
        elif shape == "all":
            targets = [(p, iv(kind == "iv")) for p in order]
        else:
            # the groups after q announce 0 ("not set") in the component that q announces out of range
            q = r.choice(order[:-1])
            t = iv(kind == "iv")
            targets = [(q, t)] + [(p, tuple(0 if not (bounds[j][0] <= t[j] <= bounds[j][1]) or r.random() < 0.3 else inside(j)
                                           for j in range(3))) for p in order if p > q]
        for p, t in targets:
            c.ops.append("setiv %d %d %d %d" % ((p,) + t))
            ivs[p] = t
        for _ in range(r.choice([1, 1, 2, 3])):
            do_add()
        if r.random() < 0.3:
            c.ops.append("add %d 1" % r.choice(sorted(ivs)))          # duplicate in between
    if r.random() < 0.3:
        c.ops.append("ev %d 0 %d 1" % (r.choice(sorted(ivs)), r.choice([1, 7, 3])))
    # removals down to the last group, and further
    order = sorted(ivs)
    r.shuffle(order)
    for p in order[:-1]:
        c.ops.append("remove %d" % p)
        del ivs[p]
    last = order[-1]
    c.ops.append("remove %d" % last)
    if r.random() < 0.5:
        c.ops.append("remove %d" % last)
    if r.random() < 0.3:
        c.ops.append("remove %d" % fresh())
    # repair the intervals, grow again, and try the old last group once more (now removable)
    if r.random() < 0.6:
        t = iv(False)
        c.ops.append("setiv %d %d %d %d" % ((last,) + t))
        ivs[last] = t
        do_add()
        c.ops.append("remove %d" % last)
        if len(ivs) > 1:
            del ivs[last]
        c.ops.append("remove %d" % sorted(ivs)[0])
    c.ops.append("free")
    return c


SCRIPTED = [
    # every rejection class of init, then a run through failover in both directions
    ["init", "init 4:0", "init 4:1 4:2", "init 9:1 4:0 9:2", "init 9:1 3:2 5:1", "start",
     "ev 3 0 1 1", "ev 3 1 1 0", "ev 3 1 3 1", "ev 3 1 1 1", "ev 3 0 8 1", "ev 5 0 3 1", "ev 5 0 1 1",
     "ev 3 0 0 1", "ev 3 1 7 1", "ev 9 0 7 0", "ev 3 0 1 1", "ev 3 1 0 1", "ev 3 1 1 1",
     "add 5 1", "add 1 2", "remove 3", "remove 9", "remove 5", "remove 1", "remove 1", "stop", "free"],
    # injected RTR_SHUTDOWN leaves a thread behind; the next failover cannot start that group
    ["init 3:1 5:1", "start", "ev 3 0 9 0", "add 1 1", "ev 1 0 7 0", "ev 5 0 7 0", "free"],
    # End of Data (ACCEPT_ANY) makes the intervals of the least preferable group's first socket unusable: adds fail after
    # the duplicate check (in every reading of the code); the last group must stay however often removal is tried
    ["init 3:1 5:2", "start", "add 7 1", "setiv 7 200000 7200 600", "add 9 1", "add 7 1", "addf 9 1 1", "add 11 2",
     "remove 5", "remove 3", "remove 7", "remove 7", "remove 9", "setiv 7 0 0 0", "add 9 1", "remove 7", "remove 9", "free"],
    # re-report of ESTABLISHED while a socket is in FAST_RECONNECT (observation, not a violation)
    ["init 3:1", "start", "ev 3 0 3 1", "ev 3 0 1 1", "ev 3 0 4 1", "ev 3 0 0 1", "free"],
]


def oracle_selftest():
    """the oracle must flag doctored traces (otherwise a real violation could pass unnoticed)"""
    probs = []
    good = ["rc=0 log=- first=3 groups=3:CONNECTING:0.0.1|5:CONNECTING:0.0.1",
            "rc=0 log=S3:ESTABLISHED@3.0;stop5.0;S5:CLOSED@5.0;S5:CLOSED@3.0 first=3 groups=3:ESTABLISHED:1.1.1|5:CLOSED:10.0.0"]
    base = ["rc=0 log=- first=3 groups=3:CLOSED:10.0.0|5:CLOSED:10.0.0"]
    mid = "rc=0 log=- first=3 groups=3:CONNECTING:0.0.1|5:CONNECTING:0.0.1"
    doctored = {
        "established_closes_less_preferred": "rc=0 log=S3:ESTABLISHED@3.0 first=3 groups=3:ESTABLISHED:1.1.1|5:CONNECTING:0.0.1",
        "established_only_if_synced": "rc=0 log=S3:ESTABLISHED@3.0;stop5.0;S5:CLOSED@3.0 first=3 groups=3:ESTABLISHED:1.0.1|5:CLOSED:10.0.0",
        "sorted_inv": "rc=0 log=S3:CONNECTING@3.0 first=5 groups=5:CONNECTING:0.0.1|3:CONNECTING:1.1.1",
    }
    ops3 = ["init 3:1 5:1", "start", "ev 3 0 1 1"]
    if oracle(ops3, base + [mid, good[1]]):
        probs.append("oracle rejects a correct trace: %s" % oracle(ops3, base + [mid, good[1]]))
    for clause, line in doctored.items():
        f = oracle(ops3, base + [mid, line])
        if not any(x[1] == clause for x in f):
            probs.append("oracle misses doctored %s" % clause)
    f = oracle(["init 3:1 5:1", "start", "ev 5 0 1 1"], base + [mid,
               "rc=0 log=S5:ESTABLISHED@5.0;stop3.0;S3:CLOSED@5.0 first=3 groups=3:CLOSED:10.0.0|5:ESTABLISHED:1.1.1"])
    if not any(x[1] == "never_closed_for_worse" for x in f):
        probs.append("oracle misses doctored never_closed_for_worse")
    f = oracle(["init 3:1 5:1 9:1", "start", "ev 3 0 7 0"],
               ["rc=0 log=- first=3 groups=3:CLOSED:10.0.0|5:CLOSED:10.0.0|9:CLOSED:10.0.0",
                "rc=0 log=start3.0:ok first=3 groups=3:CONNECTING:0.0.1|5:CLOSED:10.0.0|9:CLOSED:10.0.0",
                "rc=0 log=S3:ERROR@3.0;start9.0:ok first=3 groups=3:ERROR:7.0.1|5:CLOSED:10.0.0|9:CONNECTING:0.0.1"])
    if not any(x[1] == "error_starts_best_closed" for x in f):
        probs.append("oracle misses doctored error_starts_best_closed")
    f = oracle(["init 3:1 3:2"], ["rc=0 log=- first=3 groups=3:CLOSED:10.0.0|3:CLOSED:10.0.0,10.0.0"])
    if not any(x[1] == "init_rejects" for x in f):
        probs.append("oracle misses doctored init_rejects")
    return probs


# ------------------------------------------------------------------------------------------ run

def crash_signature(err):
    if "rtr_mgr_init" in err and ("lrtr_free" in err or "free" in err):
        return "C15/init-error-path-frees-uninitialised-groups-pointer"
    m = re.search(r"Assertion `([^']*)' failed", err)
    if m:
        return "assert:" + m.group(1)
    m = re.search(r"runtime error: ([^\n]*)", err)
    if m:
        return "ubsan:" + re.sub(r"0x[0-9a-f]+|\d+", "N", m.group(1))[:80]
    m = re.search(r"ERROR: AddressSanitizer: ([a-zA-Z-]+)", err)
    if m:
        return "asan:" + m.group(1)
    return "crash"


def load_corpus():
    cdir = os.path.join(vlib.VERIF, "corpus", "mgr")
    out = []
    if os.path.isdir(cdir):
        for f in sorted(os.listdir(cdir)):
            if f.endswith(".ops"):
                ops = [l.strip() for l in open(os.path.join(cdir, f)) if l.strip() and not l.startswith("#")]
                out.append(Case("corpus:" + f, ops))
    return out


def run(pid, tier):
    rep = vlib.Report(pid, tier)
    proved = vlib.prove(rep, MODULES, THEOREMS, extra_targets=["mgrdriver"])
    drv = vlib.driver_path("mgrdriver")
    if not os.path.exists(drv):
        ok, log = vlib.lake_build(["mgrdriver"])
        if not ok:
            rep.build_log = log
    exe, blog = build()
    if exe is None or not os.path.exists(drv):
        rep.build_log = blog if exe is None else getattr(rep, "build_log", "mgrdriver missing")
        vlib.proof_failure(rep, "harness / model driver build failed (correspondence mgr)")
        return rep.finish()

    st_problems = oracle_selftest()
    if st_problems:
        rep.build_log = "\n".join(st_problems)
        vlib.proof_failure(rep, "oracle self-test of tools/mgrcheck.py failed")
        return rep.finish()

    r = vlib.rng(pid)
    corpus = load_corpus()
    cases = list(corpus)
    for k, ops in enumerate(SCRIPTED):
        cases.append(Case("scripted%d" % k, ops))
    ncases = {"quick": 3000, "thorough": 60000}[tier]
    bounds, lits = interval_bounds()
    niv = {"quick": 400, "thorough": 8000}[tier]
    for h in range(niv):
        kind = ("iv", "iv", "alloc", "inrange")[h % 4]
        cases.append(gen_ivcase(r, "%s%d" % (kind, h), bounds, lits, kind))
    for h in range(ncases):
        cases.append(gen_case(r, "gen%d" % h))

    stats = {"cases": len(cases), "corpus": len(corpus), "ops": 0, "op_kinds": {}, "states_injected": {},
             "status_transitions": {}, "init_rc": {}, "add_rc": {}, "remove_rc": {}, "start_rc": {},
             "failover_established_closed_groups": 0, "groups_closed_by_failover": 0,
             "failover_error_started_group": 0, "error_no_candidate": 0, "error_while_other_established": 0,
             "rtr_start_calls": 0, "rtr_start_failed": 0, "rtr_stop_calls": 0, "nested_shutdown_callbacks": 0,
             "status_callbacks": 0, "swallowed_events": 0, "groups_hist": {}, "sockets_hist": {}, "bad_op": 0,
             "established_rereports": 0, "add_failed_after_dup_check": {}, "add_refused_allocation": 0,
             "setiv_out_of_range": 0, "setiv_in_range_or_unset": 0, "last_group_removal_refused": 0,
             "last_group_removal_refused_after_failed_add": 0, "removed_down_to_one_after_failed_add": 0,
             "interval_bounds": bounds}
    distinct = set()
    validated = [0]
    divergences = []
    oracle_fails = []
    crashes = []

    def bump(d, key, n=1):
        d[key] = d.get(key, 0) + n

    def account(c, io):
        pre = None
        failed_add = False
        for op, line in zip(c.ops, io):
            w = op.split()
            stats["ops"] += 1
            bump(stats["op_kinds"], w[0])
            if line == "bad-op":
                stats["bad_op"] += 1
                continue
            if w[0] == "free":
                pre = None
                continue
            m = re.match(r"^rc=(-?\d+)", line)
            rc = m.group(1) if m else "?"
            if w[0] in ("init", "add", "remove", "start"):
                bump(stats[w[0] + "_rc"], rc)
            if w[0] == "addf":
                bump(stats["add_rc"], rc)
            cur = parse_obs(line)
            if cur is None:
                pre = None
                continue
            if w[0] == "init":
                failed_add = False
            if w[0] == "setiv":
                t = [int(x) for x in w[2:5]]
                if all(t[j] == 0 or bounds[j][0] <= t[j] <= bounds[j][1] for j in range(3)):
                    stats["setiv_in_range_or_unset"] += 1
                else:
                    stats["setiv_out_of_range"] += 1
            if pre is not None and w[0] in ("add", "addf") and int(w[1]) not in pre.prefs() and cur.rc != 0:
                bump(stats["add_failed_after_dup_check"], "%s rc=%s" % ("intervals" if w[0] == "add" else "allocation %s" % w[3], rc))
                if w[0] == "addf":
                    stats["add_refused_allocation"] += 1
                failed_add = True
            if pre is not None and w[0] == "remove":
                if len(pre.groups) == 1 and cur.rc != 0:
                    stats["last_group_removal_refused"] += 1
                    if failed_add:
                        stats["last_group_removal_refused_after_failed_add"] += 1
                if len(pre.groups) == 2 and len(cur.groups) == 1 and failed_add:
                    stats["removed_down_to_one_after_failed_add"] += 1
            if w[0] == "init":
                bump(stats["groups_hist"], str(len(cur.groups)))
                for g in cur.groups:
                    bump(stats["sockets_hist"], str(len(g[2])))
            ent = log_entries(cur.log)
            nstart = sum(1 for e in ent if e[0] == "start")
            stats["rtr_start_calls"] += nstart
            stats["rtr_start_failed"] += sum(1 for e in ent if e[0] == "start" and not e[3])
            stats["rtr_stop_calls"] += sum(1 for e in ent if e[0] == "stop")
            stats["status_callbacks"] += sum(1 for e in ent if e[0] == "S")
            if pre is not None:
                for g in cur.groups:
                    old = pre.group(g[0])
                    if old is not None and old[1] != g[1]:
                        bump(stats["status_transitions"], old[1] + "->" + g[1])
                if w[0] == "ev":
                    p, st = int(w[1]), int(w[3])
                    bump(stats["states_injected"], STATE_NAMES[st])
                    if not cur.log:
                        stats["swallowed_events"] += 1
                    stops = [e for e in ent if e[0] == "stop"]
                    if stops:
                        stats["failover_established_closed_groups"] += 1
                        stats["groups_closed_by_failover"] += len({e[1] for e in stops})
                        stats["nested_shutdown_callbacks"] += sum(
                            1 for e in ent if e[0] == "S" and e[3] != "%d.%s" % (p, w[2]) and e[3] != "-")
                    old = pre.group(p)
                    if old is not None and old[1] == "ESTABLISHED" and any(
                            e[0] == "S" and e[1] == p and e[2] == "ESTABLISHED" for e in ent):
                        g = cur.group(p)
                        if g and not all(s[1] == 1 and s[0] in SYNC_OK_STATES for s in g[2]):
                            stats["established_rereports"] += 1
                    if st in ERROR_STATES and cur.log:
                        if nstart:
                            stats["failover_error_started_group"] += 1
                        elif any(g[0] != p and g[1] == "ESTABLISHED" for g in pre.groups):
                            stats["error_while_other_established"] += 1
                        else:
                            stats["error_no_candidate"] += 1
                    distinct.add((w[3], w[4], tuple((g[0] < p, g[0] == p, g[1]) for g in pre.groups),
                                  tuple(g[1] for g in cur.groups), tuple(e[0] + (e[2] if e[0] == "S" else "") for e in ent)))
                else:
                    distinct.add((w[0], tuple(g[1] for g in pre.groups), line.split(" first=")[0]))
            pre = cur

    B = 40
    for b0 in range(0, len(cases), B):
        batch = cases[b0:b0 + B]
        # corpus entries may be crashing inputs: run them on their own
        if any(c.hid.startswith("corpus:") for c in batch):
            groups_ = [[c] for c in batch]
        else:
            groups_ = [batch]
        for grp in groups_:
            ops = [l for c in grp for l in c.ops]
            impl, rc, err = vlib.run_lines(exe, ops)
            model, mrc, merr = vlib.run_lines(drv, ops)
            if mrc != 0 or len(model) != len(ops):
                rep.build_log = "model driver failed: rc=%s %s" % (mrc, merr[-500:])
                vlib.proof_failure(rep, "model driver crashed / short output on batch %d" % b0)
                return rep.finish()
            if rc != 0 or len(impl) != len(ops):
                if len(grp) == 1:
                    crashes.append((grp[0], len(impl), rc, err))
                else:
                    for c in grp:
                        o1, rc1, err1 = vlib.run_lines(exe, c.ops)
                        if rc1 != 0 or len(o1) != len(c.ops):
                            crashes.append((c, len(o1), rc1, err1))
                            break
                continue
            pos = 0
            for c in grp:
                n = len(c.ops)
                io, mo = impl[pos:pos + n], model[pos:pos + n]
                pos += n
                d = vlib.first_divergence(io, mo)
                if d is not None:
                    divergences.append((c, d, io[d] if d < len(io) else "<eof>", mo[d] if d < len(mo) else "<eof>"))
                else:
                    validated[0] += 1
                for f in oracle(c.ops, io):
                    oracle_fails.append((c, f))
                account(c, io)
        if (divergences or oracle_fails or crashes) and tier == "quick":
            break

    rep.cov.update({
        "evaluations": stats["ops"], "distinct_nontrivial": len(distinct),
        "rule": "configurations of 1..4 groups x 1..3 sockets (preference pools with collisions, rejected inits: empty / "
                "socket-less / duplicate), histories of 8..60 operations: socket events over all 11 rtr_socket_state values "
                "on random sockets (plus FSM-like SYNC/ESTABLISHED ramps of whole groups), add_group (fresh and duplicate "
                "preferences; adds that fail after the duplicate check: out-of-range refresh/expire/retry intervals - range bounds read "
                "from rtr_private.h of the tree, values at and beyond the bounds and from the integer literals of the sources, 0 = not set - "
                "stored in sockets[0] of the last / all / an earlier group as End of Data does in ACCEPT_ANY mode, and refused "
                "allocations of add_group; followed by removals down to the last group and beyond, repair and re-growth), "
                "remove_group (present, absent, last), start, stop; after EVERY operation the reply carries "
                "return code, the status-callback stream and rtr_start/rtr_stop call log of that operation, "
                "rtr_mgr_get_first_group and the rtr_mgr_for_each_group enumeration with every socket's state / "
                "last_update!=0 / thread_id!=0; distinct = distinct (event, statuses before relative to the event's group, "
                "statuses after, effect shape) tuples observed on the implementation",
        "traces_validated_against_impl": validated[0],
        "distribution": stats,
    })
    for c in cases[len(corpus):len(corpus) + 1] + cases[-2:]:
        rep.sample({"history": c.hid, "ops": c.ops[:14]})
    rep.assumptions = [
        "socket threads are parked in a mock tr_open; the events a real FSM thread would produce are a subset of the injected ones",
        "status callback and rtr_mgr_* API are used from one thread (no concurrent callbacks); rwlock not exercised",
        "allocation fails only where the history says so (addf: k-th lrtr_malloc of that rtr_mgr_add_group call)",
        "interval changes are injected by writing refresh/expire/retry of sockets[0] (what rtr_check_interval_option does in "
        "RTR_INTERVAL_MODE_ACCEPT_ANY); the PDU path itself is C11/C12's subject",
        "group identity in the model is the preference value (distinct in every reachable configuration: sorted_inv)",
    ]

    # coverage gate: the run must have exercised the clauses it claims to check
    gate = []
    if not crashes and not divergences and not oracle_fails:
        need = [("failover_established_closed_groups", stats["failover_established_closed_groups"]),
                ("failover_error_started_group", stats["failover_error_started_group"]),
                ("init rejected", stats["init_rc"].get("-1", 0)), ("add rejected", stats["add_rc"].get("-2", 0)),
                ("remove rejected", stats["remove_rc"].get("-1", 0)),
                ("add failed after the duplicate check (intervals rejected by rtr_init)",
                 sum(v for k_, v in stats["add_failed_after_dup_check"].items() if k_.startswith("intervals"))),
                ("add failed after the duplicate check (allocation refused)", stats["add_refused_allocation"]),
                ("removal down to one group after a failed add", stats["removed_down_to_one_after_failed_add"]),
                ("removal of the last group refused after a failed add", stats["last_group_removal_refused_after_failed_add"]),
                ("setiv in range", stats["setiv_in_range_or_unset"]),
                ("CONNECTING->ESTABLISHED", stats["status_transitions"].get("CONNECTING->ESTABLISHED", 0)),
                ("ERROR->ESTABLISHED", stats["status_transitions"].get("ERROR->ESTABLISHED", 0)),
                ("ESTABLISHED->CLOSED", stats["status_transitions"].get("ESTABLISHED->CLOSED", 0))]
        gate = [n for n, v in need if v == 0]
        if len(stats["states_injected"]) < len(STATE_NAMES):
            gate.append("not every rtr_socket_state value injected")

    by_sig = {}
    for c, nout, rc1, err1 in crashes:
        by_sig.setdefault(crash_signature(err1), []).append((c, nout, rc1, err1))
    for k, (sig, lst) in enumerate(sorted(by_sig.items())[:3]):
        c, nout, rc1, err1 = lst[0]
        ops = minimise_crash(exe, c.ops)
        clause, what, o1 = crash_clause(exe, ops)
        m1, _, _ = vlib.run_lines(drv, ops)
        others = "".join("# same failure: history %s: %s\n" % (c2.hid, " | ".join(minimise_crash(exe, c2.ops)))
                         for c2, _, _, _ in lst[1:4])
        rep.violation("crash%d" % k,
                      "# property C15: implementation aborted (rc=%s) after %d replies of history %s\n# %s\n"
                      "# clause: %s -- %s\n# replay: feed the lines below to the harness built from harness/mgr_harness.c\n%s"
                      "%s\n--- implementation replies (the process died in the operation after the last one) ---\n%s\n"
                      "--- model replies ---\n%s\n--- stderr ---\n%s\n" % (
                          rc1, nout, c.hid, sig, clause, what, others, "\n".join(ops), "\n".join(o1), "\n".join(m1),
                          err1[-3000:]),
                      signature=sig)
    seen_clauses = set()
    for c, (i, clause, msg) in oracle_fails:
        if clause in seen_clauses or len(seen_clauses) >= 3:
            continue
        seen_clauses.add(clause)
        ops = minimise_oracle(exe, c, clause)
        o1, _, _ = vlib.run_lines(exe, ops)
        m1, _, _ = vlib.run_lines(drv, ops)
        rep.violation("oracle_" + clause,
                      "# property C15 clause %s fails on the implementation: %s\n# history %s line %d\n%s\n"
                      "--- implementation replies ---\n%s\n--- model replies ---\n%s\n" % (
                          clause, msg, c.hid, i, "\n".join(ops), "\n".join(o1), "\n".join(m1)))
    if divergences and not oracle_fails and not crashes:
        c, d, a, b = divergences[0]
        rep.build_log = "history %s line %d (%s)\n impl : %s\n model: %s\nops:\n%s" % (
            c.hid, d, c.ops[d] if d < len(c.ops) else "", a, b, "\n".join(c.ops[:d + 1]))
        vlib.proof_failure(rep, "correspondence mgr (model RtrModel.Mgr vs rtr_mgr.c) diverges")
    if not proved and not oracle_fails and not crashes and not divergences:
        vlib.proof_failure(rep, "\n".join(t for t, ok in rep.obligations.items() if not ok))
    elif gate and proved:
        rep.build_log = "classes not reached: %s\n%s" % (gate, stats)
        vlib.proof_failure(rep, "coverage gate of tools/mgrcheck.py")
    return rep.finish()


def crash_clause(exe, ops):
    """which clause of C15 the operation the process died in belongs to (from the implementation's own replies so far)"""
    o, rc, err = vlib.run_lines(exe, ops)
    k = len(o)
    op = ops[k] if k < len(ops) else ""
    w = op.split()
    pre = None
    for line in reversed(o):
        pre = parse_obs(line)
        if pre is not None:
            break
    if w and w[0] == "init":
        return "init_rejects", "rtr_mgr_init must return an error code for this configuration (or succeed), not crash", o
    if w and w[0] == "remove" and pre is not None and len(pre.groups) == 1:
        return ("last_group_kept", "'%s' on a configuration with the single group %s must be refused with RTR_ERROR; the call was "
                "not refused (the process died inside it: no group left for rtr_mgr_get_first_group)" % (op, pre.prefs()), o)
    if w and w[0] in ("add", "addf"):
        return "failed_add_changes_nothing", "the process died inside '%s'" % op, o
    return "memory safety", "the process died inside '%s'" % op, o


def minimise_crash(exe, ops):
    def fails(x):
        o, rc, err = vlib.run_lines(exe, x)
        return rc != 0 and rc != -999
    return vlib.ddmin(ops, fails, max_tests=120)


def minimise_oracle(exe, case, clause):
    def fails(x):
        if not x or not x[0].startswith("init"):
            return False
        o, rc, err = vlib.run_lines(exe, x)
        if rc != 0 or len(o) != len(x):
            return False
        return any(f[1] == clause for f in oracle(x, o))
    return vlib.ddmin(case.ops, fails, max_tests=150)



def replay(path):
    return vlib.generic_replay(path, build, "mgrdriver")

if __name__ == "__main__":
    pid = sys.argv[1] if len(sys.argv) > 1 else "C15"
    tier = sys.argv[2] if len(sys.argv) > 2 else "quick"
    sys.exit(run(pid, tier))
