"""Property oracles for the RTR protocol domain, evaluated on the implementation's own trace
(never on the model's): C03 C04 C05 C07 C13 C14."""
import re
import struct

import rtrpdu as P


def parse_show(line):
    d = {}
    for tok in line.split()[1:]:
        k, v = tok.split("=", 1)
        d[k] = int(v) if re.fullmatch(r"-?\d+", v) else v
    return d


def parse_dump(l1, l2):
    pf = l1.split()[2:]
    ks = l2.split()[2:]
    return pf, ks


def own(recs):
    return sorted(x for x in recs if x.endswith(":0"))


def others(recs):
    return sorted(x for x in recs if not x.endswith(":0"))


class Trace:
    """events of one run.  Besides the raw transport events, `pdu` events are reconstructed from the
    structure of the recv calls: a recv_all operation for 8 bytes is a header read; if the next
    operation asks for exactly (length field - 8) bytes it is that PDU's payload."""

    def __init__(self, lines):
        self.lines = lines
        self.ret = None
        self.consumed = bytearray()   # bytes delivered to the client, in order (bytes once the trace is read)
        self.op_starts = []          # offsets in `consumed` where a recv_all operation started
        self.sent_segments = [[]]    # accepted bytes, split at failed sends
        self.events = []
        pending = 0
        op_total = 0
        op_buf = b""
        hdr = None                   # header waiting for its payload
        for l in lines:
            w = l.split()
            if not w:
                continue
            if w[0] == "R":
                req, timeout = int(w[1]), int(w[2])
                if pending == 0:
                    self.op_starts.append(len(self.consumed))
                    pending = req
                    op_total = req
                    op_buf = b""
                    if hdr is not None and op_total != struct.unpack(">I", hdr[4:8])[0] - 8:
                        self.events.append(("pdu", hdr, False))      # header whose payload was never read
                        hdr = None
                if w[4] in ("-1", "-2", "-3", "-4", "eof"):
                    pending = 0
                    if hdr is not None:
                        self.events.append(("pdu", hdr + op_buf, False))
                        hdr = None
                    elif op_buf:
                        self.events.append(("pdu", op_buf, False))
                    self.events.append(("rerr", w[4], timeout, req))
                else:
                    n = int(w[4])
                    data = bytes.fromhex(w[5]) if len(w) > 5 else b""
                    self.consumed += data
                    op_buf += data
                    pending -= n
                    self.events.append(("rx", data, timeout, req))
                    if pending == 0:
                        if hdr is not None:
                            self.events.append(("pdu", hdr + op_buf, True))
                            hdr = None
                        elif op_total == 8:
                            ln = struct.unpack(">I", op_buf[4:8])[0]
                            if ln == 8:
                                self.events.append(("pdu", op_buf, True))
                            else:
                                hdr = op_buf
                        else:
                            self.events.append(("pdu", op_buf, False))
            else:
                if w[0] in ("S", "O", "W") and hdr is not None:
                    # the client reacted to the bare header (bad length / version): no payload read follows
                    self.events.append(("pdu", hdr, False))
                    hdr = None
                if w[0] == "W":
                    if w[3] in ("-1", "-2"):
                        self.sent_segments.append([])
                        self.events.append(("werr", w[3]))
                    else:
                        data = bytes.fromhex(w[4]) if len(w) > 4 else b""
                        self.sent_segments[-1].append((int(w[1]), data))
                        self.events.append(("tx", data, int(w[1])))
                elif w[0] == "S":
                    self.events.append(("state", w[1], int(w[2]) if len(w) > 2 else None, int(w[3]) if len(w) > 3 else None))
                elif w[0] == "O":
                    self.events.append(("open", int(w[1]), int(w[2]), int(w[3]) if len(w) > 3 else None))
                elif w[0] == "C":
                    self.events.append(("close",))
                elif w[0] == "Z":
                    self.events.append(("sleep", int(w[1])))
                elif w[0] == "T":
                    self.events.append(("tables", l))
                elif w[0] == "ret":
                    self.ret = int(w[1])
        if hdr is not None:
            self.events.append(("pdu", hdr, False))
        self.consumed = bytes(self.consumed)

    def sent_bytes(self):
        return [b"".join(d for _, d in seg) for seg in self.sent_segments]


def client_parse(consumed, version, hasrecv):
    """walk the consumed byte stream the way a strict RTR client must: returns list of
    (offset, pdu dict | None, violation class | None)"""
    out = []
    off = 0
    first = not hasrecv
    ver = version
    while off + 8 <= len(consumed):
        v, t, f16, ln = struct.unpack(">BBHI", consumed[off:off + 8])
        viol = None
        if ln < 8:
            viol = "len_small"
        elif ln > P.MAX_PDU_LEN:
            viol = "len_big"
        if viol:
            out.append((off, {"ver": v, "type": t, "len": ln, "raw": consumed[off:off + 8]}, viol))
            break
        if first:
            if ver == 1 and v == 0 and t != P.ERROR:
                ver = 0
            first = False
        if v != ver and t != P.ERROR:
            out.append((off, {"ver": v, "type": t, "len": ln, "raw": consumed[off:off + 8]}, "version"))
            off += 8       # the client has only read the header
            continue
        if off + ln > len(consumed):
            out.append((off, None, "incomplete"))
            break
        raw = consumed[off:off + ln]
        sizes = {0: 12, 1: 12, 2: 8, 3: 8, 4: 20, 6: 32, 8: 8, 9: 123}
        if t in sizes:
            if ln != sizes[t]:
                viol = "len_type"
        elif t == P.EOD:
            if not ((v == 0 and ln == 12) or (v == 1 and ln == 24)):
                viol = "len_type"
        elif t == P.ERROR:
            ok = False
            if ln >= 16:
                el = struct.unpack(">I", raw[8:12])[0]
                if 16 + el <= ln:
                    tl = struct.unpack(">I", raw[12 + el:16 + el])[0]
                    ok = (16 + el + tl == ln)
            if not ok:
                viol = "len_type"
        else:
            viol = "unknown_type"
        out.append((off, {"ver": v, "type": t, "f16": f16, "len": ln, "raw": raw}, viol))
        if viol:
            break
        off += ln
    return out, ver


def rec_of_pdu(p):
    raw = p["raw"]
    if p["type"] == P.IPV4_PREFIX:
        fl, pl, ml, _z, addr, asn = struct.unpack(">BBBBII", raw[8:20])
        return ("p", fl, "4:%08x/%d-%d:%d:0" % (addr, pl, ml, asn), 4, pl, ml)
    if p["type"] == P.IPV6_PREFIX:
        fl, pl, ml, _z = struct.unpack(">BBBB", raw[8:12])
        asn = struct.unpack(">I", raw[28:32])[0]
        return ("p", fl, "6:%s/%d-%d:%d:0" % (raw[12:28].hex(), pl, ml, asn), 6, pl, ml)
    if p["type"] == P.ROUTER_KEY:
        fl = raw[2]
        asn = struct.unpack(">I", raw[28:32])[0]
        return ("k", fl, "%d:%s:%s:0" % (asn, raw[8:28].hex(), raw[32:123].hex()), 0, 0, 0)
    return None


def check_sync_case(before_show, before_dump, tr, after_show, after_dump):
    """returns list of (property, message)"""
    fails = []
    b, a = parse_show(before_show), parse_show(after_show)
    bp, bk = parse_dump(*before_dump)
    ap, ak = parse_dump(*after_dump)

    def nextq(s):
        return ("reset",) if s["req"] else ("serial", s["sess"], s["serial"])

    # records of other sources are never altered (C03, C07)
    if others(bp) != others(ap) or others(bk) != others(ak):
        fails.append(("C03", "records learned from other caches were altered"))
    pdus, ver_after = client_parse(tr.consumed, b["ver"], b["hasrecv"])
    # the exchange as the client must see it
    viol = next(((o, p, v) for (o, p, v) in pdus if v), None)
    seq = [p for (_, p, v) in pdus if p is not None and v is None]
    # --- C03
    if tr.ret == 0:
        # find CR ... EOD
        try:
            i = 0
            while seq[i]["type"] == P.SERIAL_NOTIFY:
                i += 1
            assert seq[i]["type"] == P.CACHE_RESPONSE
            j = i + 1
            body = []
            while seq[j]["type"] != P.EOD:
                body.append(seq[j])
                j += 1
            eod = seq[j]
        except (IndexError, AssertionError):
            fails.append(("C03", "rtr_sync succeeded without a complete Cache Response .. End of Data exchange"))
            eod = None
        if eod is not None:
            resetting = bool(b["req"]) and b["lu"] != 0 or bool(b["reset"])
            curp = set() if resetting else set(own(bp))
            curk = set() if resetting else set(own(bk))
            okseq = True
            for p in body:
                rr = rec_of_pdu(p)
                if rr is None:
                    continue
                kind, fl, s, fam, pl, ml = rr
                cur = curp if kind == "p" else curk
                if fl == 1:
                    if s in cur:
                        okseq = False
                    cur.add(s)
                elif fl == 0:
                    if s not in cur:
                        okseq = False
                    cur.discard(s)
                else:
                    okseq = False
            if not okseq:
                fails.append(("C03", "exchange with a duplicate announcement / unknown withdrawal / invalid flags ended successfully"))
            if sorted(curp) != own(ap) or sorted(curk) != own(ak):
                fails.append(("C03", "after a successful response the cache's records are not previous + announced - withdrawn"))
            sn = struct.unpack(">I", eod["raw"][8:12])[0]
            if a["serial"] != sn:
                fails.append(("C03", "stored serial %d is not the End of Data serial %d" % (a["serial"], sn)))
            if eod["f16"] != a["sess"]:
                fails.append(("C05", "End of Data session %d accepted while socket session is %d" % (eod["f16"], a["sess"])))
            cr = seq[i]
            if not b["req"] and cr["f16"] != b["sess"]:
                fails.append(("C05", "Cache Response with foreign session %d (established %d) was applied" % (cr["f16"], b["sess"])))
            if viol and viol[0] < pdus[[id(x[1]) for x in pdus].index(id(eod))][0]:
                fails.append(("C04", "exchange succeeded although it contained a PDU violating '%s'" % viol[2]))
    elif tr.ret == -1:
        unchanged = own(bp) == own(ap) and own(bk) == own(ak) and nextq(b) == nextq(a)
        gone = own(ap) == [] and own(ak) == [] and a["req"] == 1
        if not (unchanged or gone):
            fails.append(("C03", "failed response left the cache's records neither as before (with the same next query) nor fully removed with a Reset Query pending: "
                          "before %d/%d records next=%s, after %d/%d next=%s" % (len(own(bp)), len(own(bk)), nextq(b), len(own(ap)), len(own(ak)), nextq(a))))
    # --- C14 on everything sent
    fails += check_sent(tr, ver_after if tr.consumed else b["ver"], a["ver"])
    # --- error report expected for a detected protocol violation
    complete = [x for seg in tr.sent_bytes()[:1] for x in P.decode_stream(seg)[0]]
    sendfault = any(e[0] == "werr" for e in tr.events) or any(len(seg) > 1 for seg in tr.sent_segments if False)
    if viol and not sendfault and viol[2] != "incomplete":
        off, p, v = viol
        if p["type"] != P.ERROR:
            errs = [x for seg in tr.sent_bytes() for x in P.decode_stream(seg)[0] if x["type"] == P.ERROR]
            allowed = {"len_small": {0}, "len_big": {0}, "len_type": {0}, "unknown_type": {0, 5}, "version": {8, 4}}[v]
            if len(errs) != 1:
                fails.append(("C14", "violation '%s' at offset %d answered with %d Error Reports" % (v, off, len(errs))))
            elif errs[0]["f16"] not in allowed:
                fails.append(("C14", "violation '%s' answered with error code %d" % (v, errs[0]["f16"])))
            if v == "version" and tr.ret == 0:
                pass
    return fails


def check_sent(tr, ver_mid, ver_final):
    fails = []
    for seg_i, seg in enumerate(tr.sent_bytes()):
        pdus, rest = P.decode_stream(seg)
        last_seg = seg_i == len(tr.sent_bytes()) - 1
        if rest and last_seg:
            fails.append(("C14", "bytes handed to the transport do not form complete PDUs (%d stray bytes)" % len(rest)))
        for p in pdus:
            if p["len"] > P.MAX_PDU_LEN:
                fails.append(("C14", "sent a PDU of %d bytes, larger than the client's own maximum %d" % (p["len"], P.MAX_PDU_LEN)))
            if p["type"] not in (P.SERIAL_QUERY, P.RESET_QUERY, P.ERROR):
                fails.append(("C14", "sent a PDU of type %d" % p["type"]))
            if p["ver"] not in (ver_mid, ver_final):
                fails.append(("C13", "sent a PDU with version %d while the negotiated version is %d" % (p["ver"], ver_final)))
            if p["type"] == P.ERROR:
                if not p.get("consistent"):
                    fails.append(("C14", "Error Report with inconsistent encapsulated/text lengths"))
                else:
                    enc = p["enc"]
                    if enc:
                        ok = any(tr.consumed[o:o + len(enc)] == enc for o in tr.op_starts)
                        if not ok:
                            fails.append(("C14", "encapsulated PDU %s... is not a byte-exact prefix of any PDU as received" % enc[:12].hex()))
                        if len(enc) >= 2 and enc[1] == P.ERROR:
                            fails.append(("C14", "Error Report sent in reply to an Error Report"))
    return fails


# ------------------------------------------------------------------------------------------
# FSM traces
# ------------------------------------------------------------------------------------------

def check_fsm_trace(tr, init_show, final_dump_after_stop=None):
    """C05 C07 C13 (C14 via check_sent_fsm) over a whole state-machine run.  The ghost state (last
    acknowledged session/serial, time of the last success, reset causes, legitimate reasons to lower
    the version) is rebuilt from the implementation's own trace."""
    fails = []
    s0 = parse_show(init_show)
    expire = s0["expire"]
    ver = s0["ver"]                # version of the PDUs the client sends (checked, not trusted: see below)
    acked = None                   # (session, serial) of the last completed synchronisation
    reset_cause = "initial"        # why the next query has to be a Reset Query (None = Serial Query expected)
    last_success = None
    conn_first = True              # the next PDU is the first of the connection
    conn_bytes = 0                 # bytes received on this connection
    last_eod = None
    tables = [None, None]
    own_before_open = None
    apply_failed = False           # the client reported a payload PDU it could not apply (codes 6/7): the rollback may have ended in a purge
    reset_allowed = False          # ... after which a Reset Query is legitimate even if the purge removed nothing visible
    others_ref = None
    sent = b""
    may_lower = None               # a legitimate cause to lower the version has occurred: the new version
    must_lower = None              # ... in its clean form: the version has to be lowered to this
    for ev in tr.events:
        k = ev[0]
        if k == "tables":
            if ev[1].startswith("T pfx"):
                tables = [ev[1], None]
            else:
                tables[1] = ev[1]
        elif k == "open":
            now = ev[2]
            if ev[3] is not None:
                expire = ev[3]
            conn_first = True
            conn_bytes = 0
            last_eod = None
            if tables[0] and tables[1]:
                pf, ks = parse_dump(tables[0], tables[1])
                oth = (others(pf), others(ks))
                if others_ref is None:
                    others_ref = oth
                elif oth != others_ref:
                    fails.append(("C07", "records learned from other sockets changed"))
                if last_success is not None and now - last_success > expire:
                    if own(pf) or own(ks):
                        fails.append(("C07", "at open() %d s after the last successful synchronisation (expire interval %d s) the cache's records are still present" % (now - last_success, expire)))
                    reset_cause = "expired"
                    acked = None
                if acked is not None and not own(pf) and not own(ks) and own_before_open:
                    reset_cause = "purged"         # C03: rollback failed, everything removed
                elif acked is not None and not own(pf) and not own(ks) and apply_failed:
                    reset_allowed = True           # the same purge on a socket that held nothing: invisible in the tables
                apply_failed = False
        elif k == "tx":
            sent += ev[1]
            pdus, rest = P.decode_stream(sent)
            sent = rest
            for p in pdus:
                if p["ver"] > ver:
                    fails.append(("C13", "version raised from %d to %d" % (ver, p["ver"])))
                elif p["ver"] < ver:
                    if may_lower is None or p["ver"] != may_lower:
                        fails.append(("C13", "version lowered from %d to %d without one of the three legitimate causes" % (ver, p["ver"])))
                    ver = p["ver"]
                elif must_lower is not None and must_lower < ver:
                    fails.append(("C13", "version not lowered to %d although the cache demanded it" % must_lower))
                may_lower = must_lower = None
                if p["type"] == P.SERIAL_QUERY:
                    if reset_cause is not None or acked is None:
                        fails.append(("C05", "Serial Query sent where a Reset Query is required (%s)" % reset_cause))
                    elif (p["f16"], p["sn"]) != acked:
                        fails.append(("C05", "Serial Query carries (%d,%d), the last End of Data was %s" % (p["f16"], p["sn"], acked)))
                elif p["type"] == P.ERROR and p["f16"] in (6, 7):
                    apply_failed = True
                elif p["type"] == P.RESET_QUERY:
                    if reset_cause is None and acked is not None and not reset_allowed:
                        fails.append(("C05", "Reset Query sent although (%d,%d) was acknowledged and nothing reset the session" % acked))
        elif k == "werr":
            sent = b""
        elif k == "rx":
            conn_bytes += len(ev[1])
        elif k == "pdu":
            raw, complete = ev[1], ev[2]
            if len(raw) >= 8:
                v, t = raw[0], raw[1]
                ln = struct.unpack(">I", raw[4:8])[0]
                if 8 <= ln <= P.MAX_PDU_LEN:
                    if conn_first:
                        if ver == 1 and v == 0 and t != P.ERROR:
                            may_lower = must_lower = 0        # live downgrade on the first PDU of a connection
                        conn_first = False
                    if complete and t == P.EOD:
                        last_eod = raw
                    if complete and t == P.ERROR and struct.unpack(">H", raw[2:4])[0] == 4 and v < ver and v in (0, 1):
                        may_lower = v                          # downgrade demanded by the cache
                        if rtroracle_is_wellformed_error(raw):
                            must_lower = v
                else:
                    conn_first = False
        elif k == "state":
            st = ev[1]
            if ev[3] is not None and st == "ESTABLISHED":
                own_before_open = ev[3] > 0         # this cache had records after its last successful synchronisation
            if st == "ESTABLISHED":
                if last_eod is not None:
                    acked = (struct.unpack(">H", last_eod[2:4])[0], struct.unpack(">I", last_eod[8:12])[0])
                    reset_cause = None
                    reset_allowed = False
                    last_success = ev[2]
                last_eod = None
            elif st == "ERROR_NO_DATA_AVAIL":
                reset_cause = "no data"
                acked = None
            elif st == "ERROR_NO_INCR_UPDATE_AVAIL":
                reset_cause = "cache reset"
                acked = None
        elif k == "rerr":
            if ev[1] == "-4" and reset_cause is not None and ver > 0:
                may_lower = ver - 1                            # hang-up while no session exists
                if conn_bytes == 0:
                    must_lower = ver - 1                       # ... without answering at all
    fails += check_sent_fsm(tr)
    return fails


def rtroracle_is_wellformed_error(raw):
    ln = len(raw)
    if ln < 16:
        return False
    el = struct.unpack(">I", raw[8:12])[0]
    if 16 + el > ln:
        return False
    tl = struct.unpack(">I", raw[12 + el:16 + el])[0]
    return 16 + el + tl == ln


def check_sent_fsm(tr):
    """C14 over everything a state-machine run handed to the transport"""
    fails = []
    for seg_i, seg in enumerate(tr.sent_bytes()):
        pdus, rest = P.decode_stream(seg)
        if rest and seg_i == len(tr.sent_bytes()) - 1:
            fails.append(("C14", "bytes handed to the transport do not form complete PDUs (%d stray bytes)" % len(rest)))
        for p in pdus:
            if p["len"] > P.MAX_PDU_LEN:
                fails.append(("C14", "sent a PDU of %d bytes, larger than the client's own maximum" % p["len"]))
            if p["type"] not in (P.SERIAL_QUERY, P.RESET_QUERY, P.ERROR):
                fails.append(("C14", "sent a PDU of type %d" % p["type"]))
            if p["type"] == P.ERROR:
                if not p.get("consistent"):
                    fails.append(("C14", "Error Report with inconsistent encapsulated/text lengths"))
                elif p["enc"]:
                    enc = p["enc"]
                    if not any(tr.consumed[o:o + len(enc)] == enc for o in tr.op_starts):
                        fails.append(("C14", "encapsulated PDU %s... is not a byte-exact prefix of any PDU as received" % enc[:12].hex()))
                    if len(enc) >= 2 and enc[1] == P.ERROR:
                        fails.append(("C14", "Error Report sent in reply to an Error Report"))
    return fails


# ------------------------------------------------------------------------------------------
# additions (round 3)
# ------------------------------------------------------------------------------------------

def check_write_ops(lines):
    """C14, per write operation: a PDU goes to the transport through a sequence of write calls, each offering what is
    still owed.  When a call accepted only part of what it was offered, the next thing that happens has to be the call
    offering exactly the rest (or a failing call): anything else means that a truncated PDU was taken for sent."""
    fails = []
    owed = 0
    offered = 0
    stop_seen = False
    for l in lines:
        w = l.split()
        if not w:
            continue
        if w[0] == "X":
            stop_seen = stop_seen or (len(w) > 1 and w[1] == "stop-request")
            continue
        if w[0] == "S" and stop_seen and len(w) > 1 and w[1] == "SHUTDOWN":
            continue          # the callback of rtr_stop, run by another thread while this write was in progress
        if w[0] in ("W", "V"):
            req = int(w[1])
            res = w[3] if w[0] == "W" else w[4]
            if owed and req != owed:
                fails.append(("C14", "a write accepted %d of %d bytes and the remaining %d were never offered: a truncated PDU was "
                              "taken for sent and the next PDU follows the fragment" % (offered - owed, offered, owed)))
            if res.startswith("-"):
                owed = 0
            else:
                if not owed:
                    offered = req
                owed = req - int(res)
        elif w[0] in ("R", "S", "O", "C", "Z", "ret"):
            if owed:
                fails.append(("C14", "a write accepted %d of %d bytes and the remaining %d were never offered: a truncated PDU was "
                              "taken for sent" % (offered - owed, offered, owed)))
                owed = 0
    if owed:
        fails.append(("C14", "a write accepted %d of %d bytes and the remaining %d were never offered: a truncated PDU was "
                      "taken for sent" % (offered - owed, offered, owed)))
    return fails


def check_sendall(pdu, out):
    """one direct call of tr_send_all (`sendall` line): a return value >= 0 is what rtr_send_pdu takes for success, so it has
    to mean that every byte was accepted by the transport, in order"""
    fails = []
    handed = b""
    ret = None
    failed = False
    for l in out:
        w = l.split()
        if w and w[0] == "V":
            if w[4].startswith("-"):
                failed = True
            elif len(w) > 5:
                handed += bytes.fromhex(w[5])
        elif w and w[0] == "ret":
            ret = int(w[1])
    if ret is None:
        return [("ORACLE", "no return value in the reply to sendall")]
    if ret >= 0 and (handed != pdu or ret != len(pdu)):
        fails.append(("C14", "tr_send_all returned %d (success for rtr_send_pdu) although only %d of the %d bytes of the PDU were handed "
                      "to the transport" % (ret, len(handed), len(pdu))))
    if ret < 0 and not failed:
        fails.append(("C14", "tr_send_all returned %d although no write call failed" % ret))
    if not pdu.startswith(handed):
        fails.append(("C14", "the bytes handed to the transport are not a prefix of the PDU"))
    return fails


def check_report_codes(before_dump, tr, resetting):
    """C14 ("it carries the code for that violation"): an Error Report with code 6 (withdrawal of unknown record) or 7
    (duplicate announcement) has to encapsulate a Prefix / Router Key PDU that, applied in order to the records the
    cache had, really is one.  Records of the three kinds are independent, so the order of arrival within a kind decides."""
    fails = []
    bp, bk = parse_dump(*before_dump)
    cur = {"p": set() if resetting else set(own(bp)), "k": set() if resetting else set(own(bk))}
    reports = [x for seg in tr.sent_bytes() for x in P.decode_stream(seg)[0] if x["type"] == P.ERROR and x["f16"] in (6, 7)]
    if not reports:
        return fails
    pdus, _ver = client_parse(tr.consumed, tr.consumed[0] if tr.consumed else 1, 1)
    verdict = {}
    for (_o, p, v) in pdus:
        if p is None or v is not None or p["type"] not in (P.IPV4_PREFIX, P.IPV6_PREFIX, P.ROUTER_KEY):
            continue
        rr = rec_of_pdu(p)
        kind, fl, s = rr[0], rr[1], rr[2]
        if fl == 1:
            verdict.setdefault(bytes(p["raw"]), []).append(7 if s in cur[kind] else 0)
            cur[kind].add(s)
        elif fl == 0:
            verdict.setdefault(bytes(p["raw"]), []).append(6 if s not in cur[kind] else 0)
            cur[kind].discard(s)
    for e in reports:
        enc = bytes(e.get("enc") or b"")
        if enc in verdict and e["f16"] not in verdict[enc]:
            fails.append(("C14", "Error Report with code %d (%s) for a PDU that is not one, given the records the cache had and the "
                          "PDUs before it" % (e["f16"], "withdrawal of unknown record" if e["f16"] == 6 else "duplicate announcement")))
    return fails
