"""Property oracles for the RTR protocol domain, evaluated on the implementation's own trace
(never on the model's): C03 C04 C05 C07 C13 C14."""
import re
import struct

import rtrpdu as P


def parse_show(line):
    d = {}
    for tok in line.split()[1:]:
        k, v = tok.split("=", 1)
        d[k] = int(v) if re.fullmatch(r"-?\d+", v) else v
    return d


def parse_dump(l1, l2):
    pf = l1.split()[2:]
    ks = l2.split()[2:]
    return pf, ks


def own(recs):
    return sorted(x for x in recs if x.endswith(":0"))


def others(recs):
    return sorted(x for x in recs if not x.endswith(":0"))


class Trace:
    """events of one run"""

    def __init__(self, lines):
        self.lines = lines
        self.ret = None
        self.consumed = b""          # bytes delivered to the client, in order
        self.op_starts = []          # offsets in `consumed` where a recv_all operation started
        self.sent_segments = [[]]    # accepted bytes, split at failed sends
        self.events = []
        pending = 0
        for l in lines:
            w = l.split()
            if not w:
                continue
            if w[0] == "R":
                req, timeout = int(w[1]), int(w[2])
                if pending == 0:
                    self.op_starts.append(len(self.consumed))
                    pending = req
                if w[4] in ("-1", "-2", "-3", "-4", "eof"):
                    pending = 0
                    self.events.append(("rerr", w[4], timeout, req))
                else:
                    n = int(w[4])
                    data = bytes.fromhex(w[5]) if len(w) > 5 else b""
                    self.consumed += data
                    pending -= n
                    self.events.append(("rx", data, timeout, req))
            elif w[0] == "W":
                if w[3] in ("-1", "-2"):
                    self.sent_segments.append([])
                    self.events.append(("werr", w[3]))
                else:
                    data = bytes.fromhex(w[4]) if len(w) > 4 else b""
                    self.sent_segments[-1].append((int(w[1]), data))
                    self.events.append(("tx", data, int(w[1])))
            elif w[0] == "S":
                self.events.append(("state", w[1]))
            elif w[0] == "O":
                self.events.append(("open", int(w[1]), int(w[2])))
            elif w[0] == "C":
                self.events.append(("close",))
            elif w[0] == "Z":
                self.events.append(("sleep", int(w[1])))
            elif w[0] == "T":
                self.events.append(("tables", l))
            elif w[0] == "ret":
                self.ret = int(w[1])

    def sent_bytes(self):
        return [b"".join(d for _, d in seg) for seg in self.sent_segments]


def client_parse(consumed, version, hasrecv):
    """walk the consumed byte stream the way a strict RTR client must: returns list of
    (offset, pdu dict | None, violation class | None)"""
    out = []
    off = 0
    first = not hasrecv
    ver = version
    while off + 8 <= len(consumed):
        v, t, f16, ln = struct.unpack(">BBHI", consumed[off:off + 8])
        viol = None
        if ln < 8:
            viol = "len_small"
        elif ln > P.MAX_PDU_LEN:
            viol = "len_big"
        if viol:
            out.append((off, {"ver": v, "type": t, "len": ln, "raw": consumed[off:off + 8]}, viol))
            break
        if first:
            if ver == 1 and v == 0 and t != P.ERROR:
                ver = 0
            first = False
        if v != ver and t != P.ERROR:
            out.append((off, {"ver": v, "type": t, "len": ln, "raw": consumed[off:off + 8]}, "version"))
            off += 8       # the client has only read the header
            continue
        if off + ln > len(consumed):
            out.append((off, None, "incomplete"))
            break
        raw = consumed[off:off + ln]
        sizes = {0: 12, 1: 12, 2: 8, 3: 8, 4: 20, 6: 32, 8: 8, 9: 123}
        if t in sizes:
            if ln != sizes[t]:
                viol = "len_type"
        elif t == P.EOD:
            if not ((v == 0 and ln == 12) or (v == 1 and ln == 24)):
                viol = "len_type"
        elif t == P.ERROR:
            ok = False
            if ln >= 16:
                el = struct.unpack(">I", raw[8:12])[0]
                if 16 + el <= ln:
                    tl = struct.unpack(">I", raw[12 + el:16 + el])[0]
                    ok = (16 + el + tl == ln)
            if not ok:
                viol = "len_type"
        else:
            viol = "unknown_type"
        out.append((off, {"ver": v, "type": t, "f16": f16, "len": ln, "raw": raw}, viol))
        if viol:
            break
        off += ln
    return out, ver


def rec_of_pdu(p):
    raw = p["raw"]
    if p["type"] == P.IPV4_PREFIX:
        fl, pl, ml, _z, addr, asn = struct.unpack(">BBBBII", raw[8:20])
        return ("p", fl, "4:%08x/%d-%d:%d:0" % (addr, pl, ml, asn), 4, pl, ml)
    if p["type"] == P.IPV6_PREFIX:
        fl, pl, ml, _z = struct.unpack(">BBBB", raw[8:12])
        asn = struct.unpack(">I", raw[28:32])[0]
        return ("p", fl, "6:%s/%d-%d:%d:0" % (raw[12:28].hex(), pl, ml, asn), 6, pl, ml)
    if p["type"] == P.ROUTER_KEY:
        fl = raw[2]
        asn = struct.unpack(">I", raw[28:32])[0]
        return ("k", fl, "%d:%s:%s:0" % (asn, raw[8:28].hex(), raw[32:123].hex()), 0, 0, 0)
    return None


def check_sync_case(before_show, before_dump, tr, after_show, after_dump):
    """returns list of (property, message)"""
    fails = []
    b, a = parse_show(before_show), parse_show(after_show)
    bp, bk = parse_dump(*before_dump)
    ap, ak = parse_dump(*after_dump)

    def nextq(s):
        return ("reset",) if s["req"] else ("serial", s["sess"], s["serial"])

    # records of other sources are never altered (C03, C07)
    if others(bp) != others(ap) or others(bk) != others(ak):
        fails.append(("C03", "records learned from other caches were altered"))
    pdus, ver_after = client_parse(tr.consumed, b["ver"], b["hasrecv"])
    # the exchange as the client must see it
    viol = next(((o, p, v) for (o, p, v) in pdus if v), None)
    seq = [p for (_, p, v) in pdus if p is not None and v is None]
    # --- C03
    if tr.ret == 0:
        # find CR ... EOD
        try:
            i = 0
            while seq[i]["type"] == P.SERIAL_NOTIFY:
                i += 1
            assert seq[i]["type"] == P.CACHE_RESPONSE
            j = i + 1
            body = []
            while seq[j]["type"] != P.EOD:
                body.append(seq[j])
                j += 1
            eod = seq[j]
        except (IndexError, AssertionError):
            fails.append(("C03", "rtr_sync succeeded without a complete Cache Response .. End of Data exchange"))
            eod = None
        if eod is not None:
            resetting = bool(b["req"]) and b["lu"] != 0 or bool(b["reset"])
            curp = set() if resetting else set(own(bp))
            curk = set() if resetting else set(own(bk))
            okseq = True
            for p in body:
                rr = rec_of_pdu(p)
                if rr is None:
                    continue
                kind, fl, s, fam, pl, ml = rr
                cur = curp if kind == "p" else curk
                if fl == 1:
                    if s in cur:
                        okseq = False
                    cur.add(s)
                elif fl == 0:
                    if s not in cur:
                        okseq = False
                    cur.discard(s)
                else:
                    okseq = False
            if not okseq:
                fails.append(("C03", "exchange with a duplicate announcement / unknown withdrawal / invalid flags ended successfully"))
            if sorted(curp) != own(ap) or sorted(curk) != own(ak):
                fails.append(("C03", "after a successful response the cache's records are not previous + announced - withdrawn"))
            sn = struct.unpack(">I", eod["raw"][8:12])[0]
            if a["serial"] != sn:
                fails.append(("C03", "stored serial %d is not the End of Data serial %d" % (a["serial"], sn)))
            if eod["f16"] != a["sess"]:
                fails.append(("C05", "End of Data session %d accepted while socket session is %d" % (eod["f16"], a["sess"])))
            cr = seq[i]
            if not b["req"] and cr["f16"] != b["sess"]:
                fails.append(("C05", "Cache Response with foreign session %d (established %d) was applied" % (cr["f16"], b["sess"])))
            if viol and viol[0] < pdus[[id(x[1]) for x in pdus].index(id(eod))][0]:
                fails.append(("C04", "exchange succeeded although it contained a PDU violating '%s'" % viol[2]))
    elif tr.ret == -1:
        unchanged = own(bp) == own(ap) and own(bk) == own(ak) and nextq(b) == nextq(a)
        gone = own(ap) == [] and own(ak) == [] and a["req"] == 1
        if not (unchanged or gone):
            fails.append(("C03", "failed response left the cache's records neither as before (with the same next query) nor fully removed with a Reset Query pending: "
                          "before %d/%d records next=%s, after %d/%d next=%s" % (len(own(bp)), len(own(bk)), nextq(b), len(own(ap)), len(own(ak)), nextq(a))))
    # --- C14 on everything sent
    fails += check_sent(tr, ver_after if tr.consumed else b["ver"], a["ver"])
    # --- error report expected for a detected protocol violation
    complete = [x for seg in tr.sent_bytes()[:1] for x in P.decode_stream(seg)[0]]
    sendfault = any(e[0] == "werr" for e in tr.events) or any(len(seg) > 1 for seg in tr.sent_segments if False)
    if viol and not sendfault and viol[2] != "incomplete":
        off, p, v = viol
        if p["type"] != P.ERROR:
            errs = [x for seg in tr.sent_bytes() for x in P.decode_stream(seg)[0] if x["type"] == P.ERROR]
            allowed = {"len_small": {0}, "len_big": {0}, "len_type": {0}, "unknown_type": {0, 5}, "version": {8, 4}}[v]
            if len(errs) != 1:
                fails.append(("C14", "violation '%s' at offset %d answered with %d Error Reports" % (v, off, len(errs))))
            elif errs[0]["f16"] not in allowed:
                fails.append(("C14", "violation '%s' answered with error code %d" % (v, errs[0]["f16"])))
            if v == "version" and tr.ret == 0:
                pass
    return fails


def check_sent(tr, ver_mid, ver_final):
    fails = []
    for seg_i, seg in enumerate(tr.sent_bytes()):
        pdus, rest = P.decode_stream(seg)
        last_seg = seg_i == len(tr.sent_bytes()) - 1
        if rest and last_seg:
            fails.append(("C14", "bytes handed to the transport do not form complete PDUs (%d stray bytes)" % len(rest)))
        for p in pdus:
            if p["len"] > P.MAX_PDU_LEN:
                fails.append(("C14", "sent a PDU of %d bytes, larger than the client's own maximum %d" % (p["len"], P.MAX_PDU_LEN)))
            if p["type"] not in (P.SERIAL_QUERY, P.RESET_QUERY, P.ERROR):
                fails.append(("C14", "sent a PDU of type %d" % p["type"]))
            if p["ver"] not in (ver_mid, ver_final):
                fails.append(("C13", "sent a PDU with version %d while the negotiated version is %d" % (p["ver"], ver_final)))
            if p["type"] == P.ERROR:
                if not p.get("consistent"):
                    fails.append(("C14", "Error Report with inconsistent encapsulated/text lengths"))
                else:
                    enc = p["enc"]
                    if enc:
                        ok = any(tr.consumed[o:o + len(enc)] == enc for o in tr.op_starts)
                        if not ok:
                            fails.append(("C14", "encapsulated PDU %s... is not a byte-exact prefix of any PDU as received" % enc[:12].hex()))
                        if len(enc) >= 2 and enc[1] == P.ERROR:
                            fails.append(("C14", "Error Report sent in reply to an Error Report"))
    return fails


# ------------------------------------------------------------------------------------------
# FSM traces
# ------------------------------------------------------------------------------------------

def check_fsm_trace(tr, init_show, refresh_cfg=None):
    """C05 C07 C13 over a whole state-machine run.  Ghost state is rebuilt from the trace itself."""
    fails = []
    s0 = parse_show(init_show)
    expire = s0["expire"]
    ver = 1                        # rtr_init: highest supported version
    acked = None                   # (session, serial) of the last completed synchronisation
    need_reset = True              # no data yet
    last_success = None
    now = s0["now"]
    inbuf = b""
    conn_first = True              # next PDU is the first of the connection
    pending_tables = None
    cur_tables = None
    session_exists = False
    sent = b""
    state = None
    got_eod = None
    got_cr = None
    for ev in tr.events:
        k = ev[0]
        if k == "tables":
            pending_tables = ev[1] if ev[1].startswith("T pfx") else pending_tables
            if ev[1].startswith("T pfx"):
                cur_tables = [ev[1], None]
            else:
                cur_tables[1] = ev[1]
        elif k == "open":
            now = ev[2]
            conn_first = True
            inbuf = b""
            if cur_tables and cur_tables[1]:
                pf, ks = parse_dump(cur_tables[0], cur_tables[1])
                if last_success is not None and now - last_success > expire:
                    if own(pf) or own(ks):
                        fails.append(("C07", "at open() %d s after the last successful synchronisation (expire %d) the cache's records are still present" % (now - last_success, expire)))
                    need_reset = True
                    acked = None
        elif k == "sleep":
            now += ev[1]
        elif k == "tx":
            sent += ev[1]
            pdus, rest = P.decode_stream(sent)
            sent = rest
            for p in pdus:
                if p["ver"] != ver and not (p["ver"] < ver):
                    fails.append(("C13", "sent version %d above the negotiated %d" % (p["ver"], ver)))
                if p["type"] == P.SERIAL_QUERY:
                    if need_reset or acked is None:
                        fails.append(("C05", "Serial Query sent where a Reset Query is required (no completed synchronisation since the last reset cause)"))
                    elif (p["f16"], p["sn"]) != acked:
                        fails.append(("C05", "Serial Query carries (%d,%d), last End of Data was %s" % (p["f16"], p["sn"], acked)))
                elif p["type"] == P.RESET_QUERY:
                    pass
        elif k == "werr":
            sent = b""
        elif k == "rx":
            inbuf += ev[1]
        elif k == "state":
            state = ev[1]
            if state == "ESTABLISHED":
                # the exchange just completed: its End of Data is the last complete EOD in the input
                pd, _v = client_parse(inbuf, ver, not conn_first)
                eods = [p for (_, p, v) in pd if p and v is None and p["type"] == P.EOD]
                if eods:
                    e = eods[-1]
                    acked = (e["f16"], struct.unpack(">I", e["raw"][8:12])[0])
                    need_reset = False
                    last_success = now
                conn_first = False
                inbuf = b""
            elif state in ("ERROR_NO_DATA_AVAIL", "ERROR_NO_INCR_UPDATE_AVAIL"):
                need_reset = True
                acked = None
            elif state == "FAST_RECONNECT":
                pass
        elif k == "rerr":
            if ev[1] == "-2" and ev[2] > 0:
                now += ev[2]
    return fails
