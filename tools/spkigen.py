"""Generators and Python-side oracle for the router-key table domain (C10).

Records are tuples (asn, ski, spki, src) of ints.  The oracle works from the op text alone (so corpus
files and generated histories are judged the same way) and evaluates the statement of C10 in plain
set semantics on what the implementation printed."""

M32 = 0xffffffff
SRCS = [1, 2, 3]


def inthash(k):
    """tommy_inthash_u32"""
    k &= M32
    k = (k - (k << 6)) & M32
    k ^= k >> 17
    k = (k - (k << 9)) & M32
    k ^= (k << 4) & M32
    k = (k - (k << 3)) & M32
    k ^= (k << 10) & M32
    k ^= k >> 15
    return k


_CLASSES = {}


def classes(bits):
    """AS numbers 0..2^17 grouped by inthash & (2^bits - 1)"""
    if bits not in _CLASSES:
        d = {}
        m = (1 << bits) - 1
        for a in range(1 << 17):
            d.setdefault(inthash(a) & m, []).append(a)
        _CLASSES[bits] = d
    return _CLASSES[bits]


def rec_args(rec):
    return "%d %x %x %d" % rec


def rec_str(rec):
    return "%d:%x:%x:%d" % rec


def parse_rec_str(s):
    a, ski, spki, src = s.split(":")
    return (int(a), int(ski, 16), int(spki, 16), int(src))


class Universe:
    """AS numbers that share hash buckets at the current mask (and split apart, or not, when the table
    grows), a few SKIs / SPKIs (short and full length, differing in one end byte), three sources"""

    def __init__(self, r, small=False):
        c10 = classes(10)
        c6 = classes(6)
        deep = c10[r.randrange(1024)]                     # collide under every mask up to 1023
        b = r.randrange(64)
        shallow = c6[b]                                   # collide under mask 63 only (mostly)
        if small:
            self.asns = r.sample(deep, 2) + r.sample(shallow, 1) + [r.choice([0, M32, 65001])]
            self.skis = [r.choice([0, 0xaa]), r.getrandbits(160) | (1 << 159)]
            self.spkis = [r.choice([0, 0xbb]), r.getrandbits(728) | (1 << 727)]
            self.srcs = r.sample(SRCS, 2)
        else:
            self.asns = (r.sample(deep, min(len(deep), 12)) + r.sample(shallow, 16) +
                         [0, M32, 1, 65001, r.getrandbits(32), r.getrandbits(32)] +
                         [r.randrange(1 << 17) for _ in range(10)])
            full = r.getrandbits(160) | (1 << 159)
            self.skis = [0, 1, 0xaa, full, full ^ 1, full ^ (1 << 158)]
            fk = r.getrandbits(728) | (1 << 727)
            self.spkis = [0, 0xbb, fk, fk ^ 1]
            self.srcs = list(SRCS)
        self.asns = sorted(set(self.asns))

    def rec(self, r):
        return (r.choice(self.asns), r.choice(self.skis), r.choice(self.spkis), r.choice(self.srcs))


class Hist:
    def __init__(self, hid, kind):
        self.hid = hid
        self.kind = kind
        self.ops = []

    def emit(self, line):
        self.ops.append(line)


def observe(h, t, full=True):
    h.emit("hl %d" % t)
    if full:
        h.emit("list %d" % t)
        h.emit("buckets %d" % t)
        h.emit("log %d" % t)


def queries(h, r, u, stored, t, n):
    if u is None:
        for x in r.sample(stored, min(len(stored), 25)):
            h.emit("get %d %d %x" % (t, x[0], x[1]))
        return
    for _ in range(n):
        if stored and r.random() < 0.8:
            a, ski = r.choice(stored)[:2]
            if r.random() < 0.2:
                a = r.choice(u.asns)
        else:
            a, ski = r.choice(u.asns), r.choice(u.skis)
        if r.random() < 0.6:
            h.emit("get %d %d %x" % (t, a, ski))
        else:
            h.emit("byski %d %x" % (t, ski))


def gen_small(r, hid, nops, reload=False, copyerr=False):
    """many duplicates / unknown removals on a tiny universe; observed after every op"""
    h = Hist(hid, "small")
    u = Universe(r, small=True)
    h.emit("new 0")
    stored = []
    for _ in range(nops):
        x = r.random()
        if x < 0.5 or not stored:
            rec = u.rec(r)
            h.emit("add 0 " + rec_args(rec))
            stored.append(rec)
        elif x < 0.8:
            h.emit("rm 0 " + rec_args(r.choice(stored)))
        elif x < 0.88:
            h.emit("rm 0 " + rec_args(u.rec(r)))
        elif x < 0.94:
            h.emit("srcrm 0 %d" % r.choice(SRCS))
        else:
            queries(h, r, u, stored, 0, 1)
            continue
        observe(h, 0)
        queries(h, r, u, stored, 0, 1)
    if copyerr:
        # copy into a table that already holds some of the records: must stop with SPKI_ERROR
        s = r.choice(SRCS)
        h.emit("newnocb 1")
        for _ in range(r.randrange(1, 4)):
            h.emit("add 1 " + rec_args(r.choice(stored) if stored else u.rec(r)))
        h.emit("copyx 0 1 %d" % s)
        h.emit("list 1")
        observe(h, 1, full=False)
        h.emit("buckets 1")
        h.emit("freenn 1")
    if reload:
        stored = emit_reload(h, r, u, stored)
    queries(h, r, u, stored, 0, 6)
    h.emit("free 0")
    h.emit("hl 0")
    h.emit("list 0")
    h.emit("new 0")
    return h


def emit_reload(h, r, u, stored, nnew=None):
    """what rtr_sync does for a full reload of source s: shadow copy, fill, swap, notify_diff, discard.
    Returns the records stored afterwards."""
    s = r.choice(u.srcs)
    h.emit("newnocb 1")
    h.emit("copyx 0 1 %d" % s)
    h.emit("hl 1")
    now = [x for x in stored if x[3] != s]
    nowset = set(now)
    n = r.randrange(0, 12) if nnew is None else nnew
    for _ in range(n):
        rec = u.rec(r)
        if stored and r.random() < 0.5:
            rec = r.choice(stored)
        rec = rec[:3] + (s,)
        h.emit("add 1 " + rec_args(rec))
        h.emit("hl 1")
        if rec not in nowset:
            nowset.add(rec)
            now.append(rec)
        if r.random() < 0.15:
            h.emit("rm 1 " + rec_args(rec))
            h.emit("hl 1")
            nowset.discard(rec)
            now.remove(rec)
    h.emit("swap 0 1")
    h.emit("hl 0")
    h.emit("hl 1")
    h.emit("diff 0 1 %d" % s)
    h.emit("hl 1")
    h.emit("list 1")
    h.emit("buckets 1")
    h.emit("freenn 1")
    observe(h, 0)
    return now


# counts at which tommy_hashlin changes regime, for a table that started at 64 buckets:
# grow set-up at count > max/2 (33, 65, 129, 257, 513), completion at 2*count >= 2*low_max;
# shrink set-up at count < max/8 (15, 31, 63, 127), completion at 8*count <= low_max
EDGES = [8, 9, 12, 14, 15, 16, 17, 24, 30, 31, 32, 33, 34, 40, 48, 56, 62, 63, 64, 65, 66, 72, 80, 96, 120, 127, 128,
         129, 130, 160, 192, 255, 256, 257, 258, 300]


def gen_sweep(r, hid, top, nphases, reload=False):
    """table size driven up and down across the resize thresholds; also reverses direction in the
    middle of a resize so that grow<->shrink flips happen"""
    h = Hist(hid, "sweep")
    u = Universe(r)
    h.emit("new 0")
    stored = []
    sset = set()
    targets = []
    edges = [e for e in EDGES if e <= top]
    # a fixed skeleton guaranteeing every regime, then random edges
    skeleton = [40, 12, 70, 5] if top < 128 else [40, 12, 70, 140, 20, 10, 70, 3] if top < 300 else \
        [40, 12, 70, 140, 270, 40, 20, 140, 10, 3]
    if top >= 520:
        skeleton = [40, 12, 70, 140, 270, 530, 100, 50, 270, 20, 3]
    targets = skeleton + [r.choice(edges) for _ in range(nphases)] + [0]
    k = 0
    for tgt in targets:
        guard = 0
        while len(stored) != tgt and guard < 5000:
            guard += 1
            k += 1
            if len(stored) < tgt:
                x = r.random()
                if x < 0.9:
                    rec = u.rec(r)
                    h.emit("add 0 " + rec_args(rec))
                    if rec not in sset:
                        sset.add(rec)
                        stored.append(rec)
                elif stored:
                    h.emit("add 0 " + rec_args(r.choice(stored)))      # duplicate
                else:
                    continue
            else:
                x = r.random()
                if x < 0.9 or len(stored) - tgt < 20:
                    i = r.randrange(len(stored))
                    rec = stored[i]
                    stored[i] = stored[-1]
                    stored.pop()
                    sset.discard(rec)
                    h.emit("rm 0 " + rec_args(rec))
                elif x < 0.95:
                    h.emit("rm 0 " + rec_args(u.rec(r)[:3] + (9,)))     # unknown source: not found
                else:
                    s = r.choice(SRCS)
                    stored = [x for x in stored if x[3] != s]
                    sset = set(stored)
                    h.emit("srcrm 0 %d" % s)
            h.emit("hl 0")
            if k % 97 == 0:
                h.emit("list 0")
                h.emit("buckets 0")
                h.emit("log 0")
            if k % 13 == 0:
                queries(h, r, u, stored, 0, 1)
        observe(h, 0)
        queries(h, r, u, stored, 0, 4)
        if reload and tgt and r.random() < 0.3:
            stored = emit_reload(h, r, u, stored, nnew=r.randrange(0, 40))
            sset = set(stored)
    h.emit("free 0")
    h.emit("new 0")
    return h


def gen_malformed(r, hid):
    h = Hist(hid, "malformed")
    lines = ["", "frob", "add 0 1 aa bb", "add 9 1 aa bb 1", "add 0 4294967296 aa bb 1", "add 0 1 xz bb 1",
             "add 0 1 " + "a" * 41 + " bb 1", "add 0 1 aa " + "b" * 183 + " 1", "add 0 1 aa bb 16", "rm 0 1 aa bb",
             "srcrm 0", "srcrm 0 99", "get 0 1", "get 0 x aa", "byski 0", "byski 0 zz", "copyx 0 0 1", "swap 1 1",
             "diff 2 2 1", "hl 7", "buckets", "list x", "log -1", "hash", "hash 4294967296", "new 4", "free 4",
             "add 0 1 " + "a" * 40 + " " + "b" * 182 + " 15", "hash 0", "hash 4294967295", "hash 65001"]
    h.emit("new 0")
    for l in lines:
        h.emit(l)
    for _ in range(40):
        h.emit("hash %d" % r.getrandbits(32))
    h.emit("list 0")
    h.emit("free 0")
    h.emit("new 0")
    return h


def gen_regrow(r, hid, base_bit, level, by_source):
    """grow -> partial shrink -> regrow on ONE table, scaled to the table's own initial size 2^base_bit (read from the
    implementation under test): fill until the table is stable at M = 2^(base_bit+level) buckets (count = M/2), drop into
    the band M/16 < count < M/8 where a shrink has started but cannot finish (most keys belong to one source that goes
    away, or are removed one by one), then grow past M/2 again so that the grow step takes over the unfinished shrink
    in backward direction.  Every stored key is looked up afterwards."""
    h = Hist(hid, "regrow")
    M = 1 << (base_bit + level)
    h.emit("new 0")
    h.emit("hl 0")
    asns = r.sample(range(1, 1 << 17), 300) + [0, M32, 65001]
    # short SKIs / keys keep the replay readable; byte-level differences are the subject of the cmp / forced classes
    skis = [1, 0xaa, 0xab, 1 << 159]
    spkis = [0xbb, 0xbc | (1 << 727)] if r.random() < 0.3 else [0xbb, 0xbc]
    keep = r.randrange(M // 16 + 1, M // 8)                      # survivors of phase 2
    top1 = M // 2 + r.choice([0, 0, 1, 3])
    stored, sset = [], set()

    def fresh(src):
        while True:
            rec = (r.choice(asns), r.choice(skis), r.choice(spkis), src)
            if rec not in sset:
                return rec

    def add(rec):
        h.emit("add 0 " + rec_args(rec))
        h.emit("hl 0")
        sset.add(rec)
        stored.append(rec)

    # phase 1: `keep` keys of sources 2/3 interleaved with keys of source 1
    order = [r.choice([2, 3]) for _ in range(keep)] + [1] * (top1 - keep)
    r.shuffle(order)
    for src in order:
        add(fresh(src))
    observe(h, 0)
    # phase 2
    if by_source:
        h.emit("srcrm 0 1")
        h.emit("hl 0")
        stored = [x for x in stored if x[3] != 1]
    else:
        victims = [x for x in stored if x[3] == 1]
        r.shuffle(victims)
        for rec in victims:
            h.emit("rm 0 " + rec_args(rec))
            h.emit("hl 0")
        stored = [x for x in stored if x[3] != 1]
    sset = set(stored)
    observe(h, 0)
    queries(h, r, None, stored, 0, 0)
    # phase 3: the source comes back
    top3 = M // 2 + r.choice([1, 2, 5, 17])
    while len(stored) < top3:
        add(fresh(1))
    observe(h, 0)
    pairs = sorted(set((x[0], x[1]) for x in stored))
    for a, ski in pairs:
        h.emit("get 0 %d %x" % (a, ski))
    for ski in skis:
        h.emit("byski 0 %x" % ski)
    # every key can still be removed, and added again
    some = r.sample(stored, min(len(stored), 40))
    for rec in some:
        h.emit("rm 0 " + rec_args(rec))
    for rec in some:
        h.emit("add 0 " + rec_args(rec))
    observe(h, 0)
    h.emit("free 0")
    h.emit("new 0")
    return h


SKI_BYTES, SPKI_BYTES = 20, 91


def flip_byte(v, nbytes, pos, x):
    """big-endian number v of nbytes bytes with byte number pos (0 = first) xor-ed with x"""
    return v ^ (x << (8 * (nbytes - 1 - pos)))


def one_field_variants(r, base):
    """records that differ from `base` in exactly one field -> list of (class, record)"""
    a, ski, spki, src = base
    out = []
    for bit in (0, 31, r.randrange(1, 31)):
        out.append(("asn", (a ^ (1 << bit), ski, spki, src)))
    out.append(("asn", ((a + r.randrange(1, M32)) & M32, ski, spki, src)))
    for pos, name in ((0, "ski[0]"), (SKI_BYTES - 1, "ski[19]"), (r.randrange(1, SKI_BYTES - 1), "ski[mid]")):
        out.append((name, (a, flip_byte(ski, SKI_BYTES, pos, r.choice([1, 0x80, 0xff])), spki, src)))
    for pos, name in ((0, "spki[0]"), (19, "spki[19]"), (20, "spki[20]"), (SPKI_BYTES - 1, "spki[90]"),
                      (r.randrange(21, SPKI_BYTES - 1), "spki[mid]")):
        out.append((name, (a, ski, flip_byte(spki, SPKI_BYTES, pos, r.choice([1, 0x80, 0xff])), src)))
    out.append(("src", (a, ski, spki, (src + r.randrange(1, 16)) % 16)))
    return [(c, rec) for c, rec in out if rec != base]


def base_record(r):
    kind = r.randrange(4)
    if kind == 0:
        return (r.getrandbits(32), r.getrandbits(160), r.getrandbits(728), r.randrange(16))
    if kind == 1:
        return (r.choice([0, 1, 65001, M32]), 0, 0, r.randrange(16))
    if kind == 2:
        return (r.getrandbits(17), (1 << 160) - 1, (1 << 728) - 1, r.randrange(16))
    return (r.getrandbits(32), r.choice([0xaa, 1 << 159]), r.choice([0xbb, 1 << 727]), r.randrange(16))


def gen_cmp(r, hid, n=12):
    """key_entry_cmp itself: 0 iff the two entries agree in AS, SKI, key and source"""
    h = Hist(hid, "cmp")
    for _ in range(n):
        base = base_record(r)
        h.emit("cmp %s %s" % (rec_args(base), rec_args(base)))
        for _, v in one_field_variants(r, base):
            if r.random() < 0.5:
                h.emit("cmp %s %s" % (rec_args(base), rec_args(v)))
            else:
                h.emit("cmp %s %s" % (rec_args(v), rec_args(base)))
        # several fields at once
        vs = one_field_variants(r, base)
        x, y = r.choice(vs)[1], r.choice(vs)[1]
        mixed = tuple(x[i] if x[i] != base[i] else y[i] for i in range(4))
        h.emit("cmp %s %s" % (rec_args(base), rec_args(mixed)))
    return h


def gen_forced(r, hid):
    """different records filed under the SAME 32-bit hash (what a full collision of the table's hash would produce):
    they must stay distinct for search, duplicate detection and removal."""
    h = Hist(hid, "forced")
    h.emit("fnew")
    H = r.getrandbits(32)
    others = [H ^ (1 << r.randrange(6, 32)), r.getrandbits(32)]            # same bucket for small tables / unrelated
    base = base_record(r)
    variants = [v for _, v in one_field_variants(r, base)]
    r.shuffle(variants)
    absent = variants[:3]
    # make sure one absent variant differs in the AS number only
    asn_only = (base[0] ^ (1 << r.randrange(32)),) + base[1:]
    if asn_only not in absent:
        absent[0] = asn_only
    present = [base] + [v for v in variants[3:] if v not in absent]
    for rec in present:
        h.emit("fadd %08x %s" % (H, rec_args(rec)))
        h.emit("fhl")
    h.emit("fbuckets")
    for rec in r.sample(present, min(3, len(present))):
        h.emit("fadd %08x %s" % (H, rec_args(rec)))                          # true duplicates
    for rec in absent:
        h.emit("fget %08x %s" % (H, rec_args(rec)))
        h.emit("frm %08x %s" % (H, rec_args(rec)))                           # must not remove a neighbour
    for rec in present:
        h.emit("fget %08x %s" % (H, rec_args(rec)))
        h.emit("fget %08x %s" % (others[0], rec_args(rec)))                  # other key, same record: absent
    # the same records under another hash are different entries; fill so that the chain is split by a grow step
    for rec in present[:4]:
        h.emit("fadd %08x %s" % (others[0], rec_args(rec)))
    for k in range(r.choice([0, 30, 70])):
        h.emit("fadd %08x %s" % (r.choice([H, others[0], others[1], r.getrandbits(32)]), rec_args(base_record(r))))
        if k % 7 == 0:
            h.emit("fhl")
    h.emit("fbuckets")
    for rec in absent:
        h.emit("fadd %08x %s" % (H, rec_args(rec)))                          # now they can be added
    order = present + absent
    r.shuffle(order)
    for rec in order:
        h.emit("frm %08x %s" % (H, rec_args(rec)))
        h.emit("fget %08x %s" % (H, rec_args(rec)))
    h.emit("fhl")
    h.emit("fbuckets")
    h.emit("fnew")
    return h


BUCKET_RE = None


def parse_buckets(line):
    """'buckets 3:[rec,rec] 7:[BADKEY rec]' -> (list of (index, [record strings]), number of BADKEY marks)"""
    import re
    global BUCKET_RE
    if BUCKET_RE is None:
        BUCKET_RE = re.compile(r"(\d+):\[([^\]]*)\]")
    out = []
    bad = line.count("BADKEY")
    for m in BUCKET_RE.finditer(line):
        body = m.group(2).replace("BADKEY ", "").replace("BADKEY", "")
        out.append((int(m.group(1)), [x for x in body.replace(" ", "").split(",") if x]))
    return out, bad


# ------------------------------------------------------------------------------------------
# oracle: the statement of C10 over plain Python sets
# ------------------------------------------------------------------------------------------

NT = 4


def _parse_rec_words(w):
    if len(w) != 4:
        return None
    try:
        a, ski, spki, src = int(w[0]), int(w[1], 16), int(w[2], 16), int(w[3])
    except ValueError:
        return None
    if not (0 <= a <= M32 and len(w[1]) <= 40 and len(w[2]) <= 182 and 0 <= src < 16):
        return None
    if not (w[0].isdigit() and w[3].isdigit()):
        return None
    return (a, ski, spki, src)


def _tab(s):
    return int(s) if s.isdigit() and len(s) < 3 and int(s) < NT else None


def _parse_result(line):
    """'rc n rec...' -> (rc, n, [recs]) or None"""
    w = line.split()
    try:
        return int(w[0]), int(w[1]), [parse_rec_str(x) for x in w[2:]]
    except (ValueError, IndexError):
        return None


def oracle(ops, out):
    """Evaluate C10 on the implementation's replies.  Returns list of (clause, line index, message).
    clauses: 'set' (contents / return codes / lookups), 'log' (callback stream), 'rep' (hash table
    and list hold the same entries)"""
    fails = []
    S = [set() for _ in range(NT)]         # specification contents
    unknown = [None] * NT                   # (lo, hi) after a failed copy until the next list dump
    cb = [True] * NT
    R = [set() for _ in range(NT)]          # replay of the callback stream of table t
    consistent = [True] * NT                # whether replay == contents is demanded at this point
    lastlist = [None] * NT
    F = set()                               # forced-hash table: (hash text, record)

    def fail(cl, i, msg):
        fails.append((cl, i, msg))

    for i, (op, line) in enumerate(zip(ops, out)):
        w = op.split()
        if not w:
            continue
        cmd = w[0]
        t = _tab(w[1]) if len(w) > 1 else None
        if line == "bad-op":
            continue
        if cmd in ("new", "newnocb") and t is not None and len(w) == 2:
            S[t] = set()
            unknown[t] = None
            cb[t] = cmd == "new"
            R[t] = set()
            consistent[t] = True
        elif cmd in ("add", "rm") and t is not None:
            rec = _parse_rec_words(w[2:])
            if rec is None or unknown[t] is not None:
                continue
            if cmd == "add":
                exp = -2 if rec in S[t] else 0
                S[t].add(rec)
            else:
                exp = 0 if rec in S[t] else -3
                S[t].discard(rec)
            if line != str(exp):
                fail("set", i, "%s of %s returned %s, set semantics says %d" % (cmd, rec_str(rec), line, exp))
        elif cmd == "srcrm" and t is not None and len(w) == 3 and unknown[t] is None:
            s = int(w[2])
            S[t] = set(x for x in S[t] if x[3] != s)
            if line != "0":
                fail("set", i, "remove-by-source returned %s" % line)
        elif cmd in ("get", "byski") and t is not None and unknown[t] is None:
            res = _parse_result(line)
            if res is None:
                fail("set", i, "lookup did not answer: " + line)
                continue
            rc, n, recs = res
            if cmd == "get":
                a, ski = int(w[2]), int(w[3], 16)
                exp = set(x for x in S[t] if x[0] == a and x[1] == ski)
                what = "AS %d SKI %x" % (a, ski)
            else:
                ski = int(w[2], 16)
                exp = set(x for x in S[t] if x[1] == ski)
                what = "SKI %x" % ski
            if rc != 0 or n != len(recs):
                fail("set", i, "lookup %s: rc=%d count=%d but %d records" % (what, rc, n, len(recs)))
            if len(set(recs)) != len(recs):
                fail("set", i, "lookup %s returns a key twice" % what)
            if set(recs) != exp:
                fail("set", i, "lookup %s: missing %s extra %s" % (
                    what, [rec_str(x) for x in sorted(exp - set(recs))][:3],
                    [rec_str(x) for x in sorted(set(recs) - exp)][:3]))
        elif cmd == "copyx" and t is not None and len(w) == 4:
            b = _tab(w[2])
            s = int(w[3])
            if b is None or unknown[t] is not None or unknown[b] is not None:
                continue
            filt = set(x for x in S[t] if x[3] != s)
            if filt & S[b]:
                if line != "-1":
                    fail("set", i, "copy onto a table holding one of the records returned %s" % line)
                unknown[b] = (set(S[b]), S[b] | filt)
            else:
                if line != "0":
                    fail("set", i, "copy returned %s" % line)
                S[b] = S[b] | filt
        elif cmd == "swap" and t is not None and len(w) == 3:
            b = _tab(w[2])
            if b is None:
                continue
            S[t], S[b] = S[b], S[t]
            unknown[t], unknown[b] = unknown[b], unknown[t]
            consistent[t] = consistent[b] = False
        elif cmd == "diff" and t is not None and len(w) == 4:
            b = _tab(w[2])
            s = int(w[3])
            if b is None or unknown[t] is not None or unknown[b] is not None:
                continue
            S[b] = S[b] - set(x for x in S[t] if x[3] == s)
            consistent[t] = True
        elif cmd in ("free", "freenn") and t is not None:
            S[t] = set()
            unknown[t] = None
            consistent[t] = False       # the table is dead; its callback stream ends here
        elif cmd in ("list", "buckets") and t is not None:
            toks = line.split()[1:]
            if cmd == "buckets":
                bl, nbad = parse_buckets(line)
                if nbad:
                    fail("rep", i, "a node's key is not the hash of its AS number")
                recs = [parse_rec_str(x) for _, b in bl for x in b]
            else:
                recs = [parse_rec_str(x) for x in toks]
            if len(set(recs)) != len(recs):
                fail("set", i, "%s holds a record twice" % cmd)
            got = set(recs)
            if unknown[t] is not None:
                lo, hi = unknown[t]
                if cmd == "list":
                    if not (lo <= got <= hi):
                        fail("set", i, "after a failed copy the target is not between its old contents and the full copy")
                    S[t] = got
                    unknown[t] = None
                else:
                    continue
            if cmd == "list":
                lastlist[t] = got
            elif lastlist[t] is not None and got != lastlist[t]:
                fail("rep", i, "hash table and list hold different entries")
            if got != S[t]:
                fail("set", i, "%s differs from the mathematical set: missing %s extra %s" % (
                    cmd, [rec_str(x) for x in sorted(S[t] - got)][:3], [rec_str(x) for x in sorted(got - S[t])][:3]))
        elif cmd == "cmp" and len(w) == 9:
            a, b = _parse_rec_words(w[1:5]), _parse_rec_words(w[5:9])
            if a is None or b is None:
                continue
            if line not in ("0", "1") or (line == "0") != (a == b):
                diff = [n for n, x, y in zip(("AS", "SKI", "key", "source"), a, b) if x != y]
                fail("set", i, "key_entry_cmp says %s for two entries that %s" % (
                    "equal" if line == "0" else "different" if line == "1" else line,
                    "differ in " + "/".join(diff) if diff else "are identical"))
        elif cmd == "fnew":
            F.clear()
        elif cmd in ("fadd", "fget", "frm") and len(w) == 6:
            rec = _parse_rec_words(w[2:])
            if rec is None or len(w[1]) != 8:
                continue
            key = (w[1].lower(), rec)
            if cmd == "fadd":
                exp = "-2" if key in F else "0"
                if line != exp:
                    fail("set", i, "entry %s filed under hash %s: insertion answered %s, expected %s (%d other entries under that hash)" % (
                        rec_str(rec), w[1], line, exp, sum(1 for k in F if k[0] == key[0] and k != key)))
                if line == "0":
                    F.add(key)
            else:
                exp = "1 " + rec_str(rec) if key in F else "0"
                if line != exp:
                    fail("set", i, "%s of %s under hash %s answered '%s', expected '%s' (entries under that hash: %s)" % (
                        "search" if cmd == "fget" else "removal", rec_str(rec), w[1], line, exp,
                        [rec_str(k[1]) for k in sorted(F) if k[0] == key[0]][:4]))
                if cmd == "frm" and line.startswith("1 "):
                    try:
                        F.discard((key[0], parse_rec_str(line.split()[1])))
                    except (ValueError, IndexError):
                        pass
        elif cmd == "fbuckets":
            bl, _ = parse_buckets(line)
            got = sorted(parse_rec_str(x) for _, b in bl for x in b)
            if got != sorted(k[1] for k in F):
                fail("rep", i, "forced-hash table holds %d entries, %d were inserted and not removed" % (len(got), len(F)))
        elif cmd == "log" and t is not None:
            for tok in line.split()[1:]:
                rec = parse_rec_str(tok[1:])
                if tok[0] == "+":
                    if rec in R[t]:
                        fail("log", i, "callback reports the addition of a key already reported present: " + tok)
                    R[t].add(rec)
                else:
                    if rec not in R[t]:
                        fail("log", i, "callback reports the removal of a key not reported present: " + tok)
                    R[t].discard(rec)
            if not cb[t] and line.split()[1:]:
                fail("log", i, "table without callback produced callbacks")
            if cb[t] and consistent[t] and unknown[t] is None and R[t] != S[t]:
                fail("log", i, "callback stream does not mirror the table: removal never reported for %s, addition never reported for %s" % (
                    [rec_str(x) for x in sorted(R[t] - S[t])][:3], [rec_str(x) for x in sorted(S[t] - R[t])][:3]))
                R[t] = set(S[t])
        if cmd in ("add", "rm", "srcrm", "copyx", "swap", "diff", "free", "freenn", "new", "newnocb"):
            if t is not None:
                lastlist[t] = None
            if cmd in ("copyx", "swap", "diff") and len(w) > 2 and _tab(w[2]) is not None:
                lastlist[_tab(w[2])] = None
    return fails
