#!/usr/bin/env python3
"""False-alarm probe for the translation tie and the lock-discipline gate: every stored behaviour-preserving change
(seeded/harmless/<name>/patch.diff) is applied to a scratch worktree, the tie (tools/cfuncheck.py) of every enabled property
and the gate (lockcheck.gate) are run against it, and the translation of /repo is restored.
    tools/harmlesslink.py <scratch-worktree> [<name>...]  ->  build/harmless_link_results.json"""
import fcntl
import json
import os
import subprocess
import sys

VERIF = os.path.dirname(os.path.dirname(os.path.abspath(__file__)))
sys.path.insert(0, os.path.join(VERIF, "tools"))


def sh(cmd, env=None, cwd=None):
    r = subprocess.run(cmd, shell=True, cwd=cwd, env=env, stdout=subprocess.PIPE, stderr=subprocess.STDOUT, text=True)
    return r.returncode, r.stdout


GATE = ("import sys; sys.path.insert(0, 'tools'); import vlib, lockcheck; rep = vlib.Report('C16gate', 'quick'); "
        "print('GATE', lockcheck.gate(rep, 'C16gate')); print(getattr(rep, 'build_log', '')[:600])")


def main():
    wt = sys.argv[1]
    hdir = os.path.join(VERIF, "seeded", "harmless")
    names = sys.argv[2:] or sorted(os.listdir(hdir))
    import cfuncheck
    res = {}
    lock = open(os.path.join(VERIF, "build", "generated.lock"), "w")
    env = dict(os.environ, VERIF_REPO=wt)
    env2 = dict(os.environ)
    env2.pop("VERIF_REPO", None)
    for n in names:
        patch = os.path.join(hdir, n, "patch.diff")
        if not os.path.exists(patch):
            continue
        fcntl.flock(lock, fcntl.LOCK_EX)      # one patch at a time, other runs may interleave between patches
        try:
            sh("git checkout -- .", cwd=wt)
            rc, out = sh("git apply %s" % patch, cwd=wt)
            if rc != 0:
                res[n] = {"applies": False}
                continue
            r = {}
            for pid in cfuncheck.ENABLED:
                rc, out = sh("python3 tools/cfuncheck.py %s" % pid, env=env, cwd=VERIF)
                first = [l for l in out.splitlines() if l.strip() in ("True", "False")]
                r[pid] = first[0] if first else "ERROR: " + out[-300:]
            rc, out = sh("python3 -c \"%s\"" % GATE, env=env, cwd=VERIF)
            g = [l for l in out.splitlines() if l.startswith("GATE")]
            r["gate"] = g[0].split()[1] if g else "ERROR: " + out[-300:]
            if r["gate"] != "True":
                r["gate_log"] = out[-800:]
            res[n] = r
            print(n, r, flush=True)
            json.dump(res, open(os.path.join(VERIF, "build", "harmless_link_results.json"), "w"), indent=1)
        finally:
            sh("git checkout -- .", cwd=wt)
            for t in ("gen_locks.py", "gen_cfuns.py"):
                sh("python3 tools/%s" % t, env=env2, cwd=VERIF)
            fcntl.flock(lock, fcntl.LOCK_UN)
    return 0


if __name__ == "__main__":
    sys.exit(main())
