"""Generators for the RTR protocol domain: sync-level cases (one response against a prepared socket)
and FSM-level conversations (scripted cache + fault schedules).  All randomness from the rng passed in."""
import struct

import rtrpdu as P

MODES = [0, 1, 2, 3]
ASNS = [0, 65001, 65002, 4200000000]


def rec_str(r):
    v, a, ln, ml, asn, src = r
    return "%d:%0*x/%d-%d:%d:%d" % (v, 8 if v == 4 else 32, a, ln, ml, asn, src)


def key_str(k):
    asn, ski, spki, src = k
    return "%d:%s:%s:%d" % (asn, ski.hex(), spki.hex(), src)


def trunc(v, a, ln):
    w = 32 if v == 4 else 128
    return a if ln >= w else (a >> (w - ln)) << (w - ln)


def rand_prefix(r, pool=None):
    if pool and r.random() < 0.7:
        return r.choice(pool)
    v = r.choice([4, 4, 6])
    w = 32 if v == 4 else 128
    ln = r.choice([0, 8, 16, 24, w, r.randrange(0, w + 1)])
    a = trunc(v, r.getrandbits(w), ln)
    ml = r.choice([ln, w, r.randrange(ln, w + 1)])
    return (v, a, ln, ml, r.choice(ASNS))


def rand_key(r, pool=None):
    if pool and r.random() < 0.7:
        return r.choice(pool)
    ski = bytes([r.choice([0x11, 0xab, r.getrandbits(8)])] * 20) if r.random() < 0.5 else bytes(r.getrandbits(8) for _ in range(20))
    spki = bytes([r.getrandbits(8)] * 91) if r.random() < 0.5 else bytes(r.getrandbits(8) for _ in range(91))
    return (r.choice(ASNS), ski, spki)


def pfx_pdu(ver, flags, p):
    v, a, ln, ml, asn = p
    return P.ipv4(ver, flags, ln, ml, a, asn) if v == 4 else P.ipv6(ver, flags, ln, ml, a, asn)


def chunk(r, data, mode=None):
    """split bytes into rx chunks"""
    if not data:
        return []
    mode = mode if mode is not None else r.choice(["whole", "whole", "pdu", "random", "bytes"])
    if mode == "whole" or len(data) <= 1:
        return [data]
    if mode == "bytes" and len(data) <= 300:
        return [data[i:i + 1] for i in range(len(data))]
    cuts = sorted(set(r.randrange(1, len(data)) for _ in range(r.randrange(1, 8))))
    out, prev = [], 0
    for c in cuts + [len(data)]:
        out.append(data[prev:c])
        prev = c
    return out


class SyncCase:
    """one call of rtr_sync against a prepared socket"""

    def __init__(self):
        self.ops = []
        self.meta = {}


MUTATIONS = ["none", "none", "dup", "unknown_wd", "bad_flags", "eod_session", "cr_session", "unexpected_type",
             "error_pdu", "bad_length", "unknown_type", "bad_version", "truncate", "fault", "hostile_len",
             "host_bits", "notify", "key_bad_flags", "cache_reset", "error_first", "garbage", "eod_v0_in_v1",
             "zero_field", "big", "error_nested_len", "error_nested_len"]


def wrap_candidates(r, total):
    """values for a 32-bit length field that take part in sums and comparisons with the PDU length `total`:
    the consistent values and their neighbours, small values, the sign bit, and every value that wraps a 32-bit sum
    with one of the constants the parser adds (header 8, length words 4/8/12/16, NUL)"""
    k = r.randrange(9)
    if k == 0:
        return r.choice([0, 1, 4, 8, 12, 16])
    if k == 1:
        return max(0, total - r.choice([8, 12, 16, 17, 15, 20, 24]))
    if k == 2:
        return total + r.choice([-1, 0, 1, 4, 8])
    if k in (3, 4, 5):
        return (1 << 32) - r.randrange(0, 33)        # wraps x + c for every c the parser could add
    if k == 6:
        return ((1 << 32) - total + r.choice([-16, -8, 0, 8, 16])) & 0xffffffff
    if k == 7:
        return r.choice([0x7fffffff, 0x80000000, 0x80000001, 0xfffffff0, 0xffff0000, 0x10000, 0xffff])
    return r.getrandbits(32)



def gen_sync_case(r, force_mut=None):
    c = SyncCase()
    ver = r.choice([1, 1, 1, 0])
    mode = r.choice(MODES)
    refresh, expire, retry = r.choice([(3600, 7200, 600), (1, 600, 1), (86400, 172800, 7200)])
    sess = r.choice([0, 1, 7, 65535, r.randrange(65536)])
    serial = r.choice([0, 5, 0xffffffff, 0x7fffffff, r.getrandbits(32)])
    reqsess = r.random() < 0.35
    has_data = (not reqsess) or r.random() < 0.5
    lastupdate = r.choice([900, 1000, 500]) if has_data else 0
    # own records and other sources' records
    ppool = [rand_prefix(r) for _ in range(r.randrange(2, 10))]
    kpool = [rand_key(r) for _ in range(r.randrange(1, 4))]
    own_p = set(rand_prefix(r, ppool) for _ in range(r.randrange(0, 6))) if has_data else set()
    own_k = set(rand_key(r, kpool) for _ in range(r.randrange(0, 3))) if has_data else set()
    oth_p = set((rand_prefix(r, ppool), r.choice([1, 2])) for _ in range(r.randrange(0, 5)))
    oth_k = set((rand_key(r, kpool), r.choice([1, 2])) for _ in range(r.randrange(0, 3)))
    ops = ["sock %d %d %d %d" % (refresh, expire, retry, mode)]
    for p in sorted(own_p):
        ops.append("pre pfx %d %0*x %d %d %d 0" % (p[0], 8 if p[0] == 4 else 32, p[1], p[2], p[3], p[4]))
    for p, s in sorted(oth_p):
        ops.append("pre pfx %d %0*x %d %d %d %d" % (p[0], 8 if p[0] == 4 else 32, p[1], p[2], p[3], p[4], s))
    for k in sorted(own_k):
        ops.append("pre key %d %s %s 0" % (k[0], k[1].hex(), k[2].hex()))
    for k, s in sorted(oth_k):
        ops.append("pre key %d %s %s %d" % (k[0], k[1].hex(), k[2].hex(), s))
    ops += ["set version %d" % ver, "set session %d" % sess, "set serial %d" % serial, "set reqsess %d" % int(reqsess),
            "set lastupdate %d" % lastupdate, "set state 3", "set hasrecv %d" % r.choice([0, 1, 1])]

    # a valid response
    rsess = sess if not reqsess else r.choice([sess, r.randrange(65536)])
    pdus = [P.cache_response(ver, rsess)]
    payload = []
    if reqsess:      # full set
        newp = set(rand_prefix(r, ppool) for _ in range(r.randrange(0, 8)))
        newk = set(rand_key(r, kpool) for _ in range(r.randrange(0, 3))) if ver == 1 else set()
        payload = [pfx_pdu(ver, 1, p) for p in newp] + [P.router_key(ver, 1, k[1], k[0], k[2]) for k in newk]
    else:
        ann = set(rand_prefix(r, ppool) for _ in range(r.randrange(0, 6))) - own_p
        wd = set(r.sample(sorted(own_p), r.randrange(0, len(own_p) + 1))) if own_p else set()
        annk = (set(rand_key(r, kpool) for _ in range(r.randrange(0, 3))) - own_k) if ver == 1 else set()
        wdk = (set(r.sample(sorted(own_k), r.randrange(0, len(own_k) + 1))) if own_k else set()) if ver == 1 else set()
        payload = [pfx_pdu(ver, 1, p) for p in ann] + [pfx_pdu(ver, 0, p) for p in wd] + \
                  [P.router_key(ver, 1, k[1], k[0], k[2]) for k in annk] + [P.router_key(ver, 0, k[1], k[0], k[2]) for k in wdk]
    r.shuffle(payload)
    newserial = (serial + r.choice([0, 1, 2, 1000])) & 0xffffffff
    ivals = r.choice([(3600, 600, 7200), (0, 0, 0), (0xffffffff, 0xffffffff, 0xffffffff), (86401, 7201, 172801), (1, 1, 600),
                      (r.getrandbits(32), r.getrandbits(32), r.getrandbits(32))])
    eod = P.eod(ver, rsess, newserial, *ivals)
    mut = force_mut or r.choice(MUTATIONS)
    events = None
    pos = r.randrange(0, len(payload) + 1)
    if mut == "dup":
        src = (own_p and r.random() < 0.5)
        p = r.choice(sorted(own_p)) if (own_p and not reqsess) else rand_prefix(r, ppool)
        x = pfx_pdu(ver, 1, p)
        payload.insert(pos, x)
        if reqsess or p not in own_p:
            payload.insert(r.randrange(0, len(payload) + 1), x)
    elif mut == "unknown_wd":
        p = rand_prefix(r)
        payload.insert(pos, pfx_pdu(ver, 0, p))
        if r.random() < 0.5:   # the F3 pattern: announce B, withdraw B earlier in the stream
            b = rand_prefix(r)
            payload = [pfx_pdu(ver, 1, b), pfx_pdu(ver, 0, b)] + payload
    elif mut == "bad_flags":
        payload.insert(pos, pfx_pdu(ver, r.choice([2, 3, 128, 255]), rand_prefix(r, ppool)))
    elif mut == "key_bad_flags":
        k = rand_key(r, kpool)
        payload.insert(pos, P.router_key(ver, r.choice([2, 255]), k[1], k[0], k[2]))
    elif mut == "eod_session":
        eod = P.eod(ver, (rsess + r.choice([1, 48, 65535])) & 0xffff, newserial, *ivals)
    elif mut == "cr_session":
        pdus = [P.cache_response(ver, (sess + r.choice([1, 92])) & 0xffff)]
        if r.random() < 0.5:
            eod = P.eod(ver, sess, newserial, *ivals)          # F6 pattern: foreign CR, matching EOD
        else:
            eod = P.eod(ver, P.struct.unpack(">H", pdus[0][2:4])[0], newserial, *ivals)
    elif mut == "unexpected_type":
        x = r.choice([P.cache_reset(ver), P.hdr(ver, P.RESET_QUERY, 0, 8), P.hdr(ver, P.SERIAL_QUERY, sess, 12) + b"\0\0\0\1",
                      P.cache_response(ver, rsess)])
        payload.insert(pos, x)
    elif mut == "error_pdu":
        code = r.choice([0, 1, 2, 3, 4, 5, 6, 7, 8, 9, 255])
        enc = r.choice([b"", P.hdr(ver, 2, 0, 8), bytes(r.getrandbits(8) for _ in range(r.randrange(0, 40)))])
        txt = r.choice([b"", b"oops\0", bytes(r.getrandbits(8) for _ in range(r.randrange(0, 30)))])
        ev = r.choice([ver, 0, 1, 2])
        payload.insert(pos, P.error_report(ev, code, enc, txt))
    elif mut == "error_nested_len":
        # an Error Report whose total length is plausible but whose two nested length fields are hostile
        code = r.choice([0, 1, 2, 3, 4, 5, 6, 7, 8])
        body_len = r.choice([8, 8, 16, 24, 40, 100, 3240]) if r.random() < 0.8 else r.randrange(0, 3300)
        total = 8 + body_len
        body = bytearray(r.getrandbits(8) for _ in range(body_len))
        which = r.randrange(4)
        enc_len = wrap_candidates(r, total) & 0xffffffff if which != 1 else r.choice([0, 8, max(0, body_len - 8)])
        if body_len >= 4:
            body[0:4] = struct.pack(">I", enc_len)
        if which != 0 and enc_len + 8 <= body_len:
            txt_len = wrap_candidates(r, total - enc_len) & 0xffffffff
            body[4 + enc_len:8 + enc_len] = struct.pack(">I", txt_len)
        x = P.hdr(r.choice([ver, ver, 0, 1]), P.ERROR, code, total) + bytes(body)
        if r.random() < 0.5:
            pdus = [x]
            payload = []
            eod = b""
        else:
            payload.insert(pos, x)
    elif mut == "error_first":
        code = r.choice([2, 4, 0, 1, 3, 5])
        pdus = [P.error_report(r.choice([ver, 0, 1]), code, P.hdr(ver, 2, 0, 8), b"no\0")]
        payload = []
        eod = b""
    elif mut == "cache_reset":
        pdus = [P.cache_reset(ver)]
        payload = []
        eod = b""
    elif mut == "bad_length":
        x = bytearray(r.choice(payload) if payload and r.random() < 0.6 else r.choice([eod, pdus[0]]))
        newlen = r.choice([0, 7, 9, len(x) - 1, len(x) + 1, len(x) + 4, 3248, 3249, 0xffffffff, 0x80000000])
        x[4:8] = struct.pack(">I", newlen & 0xffffffff)
        which = r.randrange(3)
        if which == 0:
            pdus = [bytes(x)]
        else:
            payload.insert(pos, bytes(x))
        # make sure enough bytes follow so that a claimed longer length can be read
        payload.append(bytes(r.getrandbits(8) for _ in range(r.choice([0, 8, 64]))))
    elif mut == "unknown_type":
        x = bytearray(r.choice(payload) if payload else P.cache_reset(ver))
        x[1] = r.choice([5, 11, 12, 255, 128])
        payload.insert(pos, bytes(x))
    elif mut == "bad_version":
        x = bytearray(r.choice(payload + [eod, pdus[0]]))
        x[0] = r.choice([0, 1, 2, 255]) if x[0] != 0 else r.choice([1, 2])
        if r.random() < 0.3:
            pdus = [bytes(x)] if x[1] == 3 else pdus
        payload.insert(pos, bytes(x))
    elif mut == "hostile_len":
        v = r.choice([4, 6])
        w = 32 if v == 4 else 128
        ln = r.choice([w + 1, 200, 255, w])
        ml = r.choice([ln, 255, 0, w])
        payload.insert(pos, pfx_pdu(ver, r.choice([1, 1, 0]), (v, r.getrandbits(w), ln, ml, 65001)))
    elif mut == "host_bits":
        v = r.choice([4, 6])
        w = 32 if v == 4 else 128
        for _ in range(r.randrange(1, 5)):
            payload.insert(pos, pfx_pdu(ver, 1, (v, r.getrandbits(w) | 1, r.choice([0, 8, 16]), w, 65001)))
    elif mut == "notify":
        payload.insert(pos, P.serial_notify(ver, rsess, r.getrandbits(32)))
        if r.random() < 0.5:
            pdus = [P.serial_notify(ver, rsess, 1)] + pdus
    elif mut == "garbage":
        pdus = [bytes(r.getrandbits(8) for _ in range(r.randrange(1, 64)))]
    elif mut == "eod_v0_in_v1":
        eod = P.eod(1 - ver, rsess, newserial, *ivals)
        eod = bytes([ver]) + eod[1:]      # right version byte, wrong format for it
    elif mut == "zero_field":
        if payload:
            x = bytearray(payload[0])
            if x[1] in (4, 6):
                x[11] = 7
            payload[0] = bytes(x)
    elif mut == "big":
        payload += [pfx_pdu(ver, 1, (4, (i << 8), 24, 24, 65001)) for i in range(r.choice([99, 100, 101, 205]))]

    stream = b"".join(pdus + payload + [eod])
    if mut == "truncate":
        cut = r.randrange(0, len(stream) + 1)
        stream = stream[:cut]
        tail = [r.choice(["err", "block", "closed", "intr", ""])]
    else:
        tail = []
    evs = ["rx:" + x.hex() for x in chunk(r, stream)]
    if mut == "fault":
        k = r.randrange(0, len(evs) + 1)
        evs.insert(k, r.choice(["err", "block", "closed", "intr"]))
    evs += [t for t in tail if t]
    if r.random() < 0.2:
        evs.insert(r.randrange(0, len(evs) + 1), "dt:%d" % r.choice([1, 30, 61, 5000]))
    if evs:
        ops.append("tape " + " ".join(evs))
    if r.random() < 0.15:
        ops.append("sendq " + " ".join(r.choice(["part:1", "part:3", "err", "block", "all", "part:8"]) for _ in range(r.randrange(1, 4))))
    ops += ["show", "dump", "run sync", "show", "dump"]
    c.ops = ops
    c.meta = {"mut": mut, "ver": ver, "sess": sess, "serial": serial, "reqsess": reqsess, "stream": stream,
              "own_p": own_p, "own_k": own_k, "mode": mode}
    return c


def rechunk_case(r, case, mode):
    """the same case with the same bytes delivered in another segmentation (no faults inside)"""
    ops = []
    for o in case.ops:
        if o.startswith("tape "):
            evs = o.split()[1:]
            out = []
            buf = b""
            for e in evs:
                if e.startswith("rx:"):
                    buf += bytes.fromhex(e[3:])
                else:
                    out += ["rx:" + x.hex() for x in chunk(r, buf, mode)]
                    buf = b""
                    out.append(e)
            out += ["rx:" + x.hex() for x in chunk(r, buf, mode)]
            ops.append("tape " + " ".join(out))
        else:
            ops.append(o)
    c = SyncCase()
    c.ops = ops
    c.meta = dict(case.meta)
    return c


# ------------------------------------------------------------------------------------------
# FSM conversations
# ------------------------------------------------------------------------------------------

class Cache:
    """a simulated cache: data set + serial history"""

    def __init__(self, r, ver=1):
        self.r = r
        self.ver = ver
        self.sess = r.randrange(65536)
        self.serial = r.choice([0, 5, 0xfffffffe, r.getrandbits(32)])
        self.ppool = [rand_prefix(r) for _ in range(8)]
        self.kpool = [rand_key(r) for _ in range(3)]
        self.p = set(r.sample(self.ppool, r.randrange(0, 6)))
        self.k = set(r.sample(self.kpool, r.randrange(0, 3))) if ver == 1 else set()
        self.hist = {}      # serial -> (p, k) snapshot

    def snapshot(self):
        self.hist[self.serial] = (set(self.p), set(self.k))

    def mutate(self):
        self.snapshot()
        r = self.r
        for _ in range(r.randrange(0, 4)):
            x = r.choice(self.ppool)
            (self.p.discard if x in self.p else self.p.add)(x)
        if self.ver == 1:
            for _ in range(r.randrange(0, 2)):
                x = r.choice(self.kpool)
                (self.k.discard if x in self.k else self.k.add)(x)
        self.serial = (self.serial + 1) & 0xffffffff

    def new_session(self):
        self.sess = (self.sess + self.r.randrange(1, 65535)) & 0xffff
        self.hist = {}

    def full(self, ver, ivals=(3600, 600, 7200)):
        out = [P.cache_response(ver, self.sess)]
        out += [pfx_pdu(ver, 1, p) for p in sorted(self.p)]
        if ver == 1:
            out += [P.router_key(ver, 1, k[1], k[0], k[2]) for k in sorted(self.k)]
        out.append(P.eod(ver, self.sess, self.serial, *ivals))
        return b"".join(out)

    def answer(self, query, ver, ivals=(3600, 600, 7200)):
        """the correct answer to a decoded query PDU"""
        if query["type"] == P.RESET_QUERY:
            return self.full(ver, ivals)
        if query["type"] == P.SERIAL_QUERY:
            if query["f16"] != self.sess or query.get("sn") not in self.hist and query.get("sn") != self.serial:
                return P.cache_reset(ver)
            if query["sn"] == self.serial:
                return P.cache_response(ver, self.sess) + P.eod(ver, self.sess, self.serial, *ivals)
            op, ok = self.hist[query["sn"]]
            out = [P.cache_response(ver, self.sess)]
            out += [pfx_pdu(ver, 1, p) for p in sorted(self.p - op)] + [pfx_pdu(ver, 0, p) for p in sorted(op - self.p)]
            if ver == 1:
                out += [P.router_key(ver, 1, k[1], k[0], k[2]) for k in sorted(self.k - ok)]
                out += [P.router_key(ver, 0, k[1], k[0], k[2]) for k in sorted(ok - self.k)]
            out.append(P.eod(ver, self.sess, self.serial, *ivals))
            return b"".join(out)
        return P.error_report(ver, 3, query["raw"], b"")


class FsmCase:
    def __init__(self):
        self.ops = []
        self.meta = {}


def last_query_version(lines, default):
    """version byte of the last query the client sent (the version it currently speaks)"""
    v = default
    for l in lines:
        w = l.split()
        if len(w) > 4 and w[0] == "W" and len(w[4]) >= 4 and w[4][2:4] in ("01", "02"):
            v = int(w[4][0:2], 16)
    return v


def openq_left(lines, openq):
    """are scripted open() outcomes left that the client has not used yet?"""
    return sum(1 for l in lines if l.startswith("O ")) < len(openq)


def last_wait(lines):
    """what the client was doing when the script ran out: (state, last complete query PDU or None, recv timeout)"""
    state = None
    sent = b""
    query = None
    timeout = None
    for l in lines:
        w = l.split()
        if not w:
            continue
        if w[0] == "S":
            state = w[1]
        elif w[0] == "W" and w[3] not in ("-1", "-2"):
            sent += bytes.fromhex(w[4]) if len(w) > 4 else b""
            pdus, rest = P.decode_stream(sent)
            sent = rest
            for p in pdus:
                if p["type"] in (P.SERIAL_QUERY, P.RESET_QUERY):
                    query = p
        elif w[0] == "W":
            sent = b""
        elif w[0] == "R":
            if w[4] == "eof":
                timeout = int(w[2])
            elif w[4] not in ("-1", "-2", "-3", "-4"):
                pass
        elif w[0] == "O":
            query = None
    return state, query, timeout


FAULTS = ["err", "block", "closed", "intr", "cache_reset", "no_data", "unsupported_version", "foreign_session",
          "malformed", "wrong_version", "error_other", "truncated", "dup_announce", "unknown_withdraw", "eod_session",
          "interrupted_reload", "long_outage", "send_fail", "open_fail", "v0_answer", "notify"]


def gen_fsm_case(r, run_model, nsteps=None, good_tail=0, cache_ver=None, faults=None):
    """build a conversation reactively: after each step the model driver is run on the script so far to see
    what the client asks next.  `good_tail` extra steps are answered correctly (C08)."""
    c = FsmCase()
    mode = r.choice(MODES)
    refresh, expire, retry = r.choice([(3600, 7200, 600), (10, 600, 5), (86400, 172800, 7200), (100, 600, 1)])
    cver = cache_ver if cache_ver is not None else r.choice([1, 1, 1, 0])
    cache = Cache(r, cver)
    head = ["sock %d %d %d %d" % (refresh, expire, retry, mode)]
    for _ in range(r.randrange(0, 3)):
        p = rand_prefix(r, cache.ppool)
        head.append("pre pfx %d %0*x %d %d %d %d" % (p[0], 8 if p[0] == 4 else 32, p[1], p[2], p[3], p[4], r.choice([1, 2])))
    head.append("show")
    tape, sendq, openq = [], [], []
    nsteps = nsteps if nsteps is not None else r.randrange(2, 8)
    used = []
    ivals = r.choice([(refresh, retry, expire), (3600, 600, 7200), (1, 1, 600)])

    def script():
        ops = list(head)
        if openq:
            ops.append("openq " + " ".join(openq))
        if sendq:
            ops.append("sendq " + " ".join(sendq))
        if tape:
            ops.append("tape " + " ".join(tape))
        ops.append("run fsm")
        return ops

    def rx_bytes():
        return sum(len(t) - 3 for t in tape if t.startswith("rx:")) // 2

    def flush_closed(mark, before, prev_lines, lines):
        """A connection that the client closes takes its unread bytes with it.  `tape[mark:]` was appended (= sent on the
        connection that existed then) after the run `prev_lines`; `lines` is the run with it.  If the client closed the
        connection before it had read all of it, the unread bytes are dropped from the script (they were never seen, so
        the past is unchanged); transport events (faults, time) stay.  returns True if something was dropped"""
        k = 0
        while k < len(prev_lines) and k < len(lines) and prev_lines[k] == lines[k]:
            k += 1
        cum = 0
        close_at = None
        for i, l in enumerate(lines):
            w = l.split()
            if len(w) > 4 and w[0] == "R" and w[4].isdigit():
                cum += int(w[4])
            elif w and w[0] == "C" and i >= k and cum >= before:
                close_at = cum
                break
        if close_at is None:
            return False
        pos = before
        dropped = False
        out = []
        for t in tape[mark:]:
            if not t.startswith("rx:"):
                out.append(t)
                continue
            b = bytes.fromhex(t[3:])
            if pos + len(b) <= close_at:
                out.append(t)
            elif pos < close_at:
                out.append("rx:" + b[:close_at - pos].hex())
                dropped = True
            else:
                dropped = True
            pos += len(b)
        tape[mark:] = out
        return dropped

    total = nsteps + good_tail
    good_answers = 0
    good_from = 0
    prev = None
    last_was_good_answer = False
    for step in range(total):
        lines = run_model(script())
        if prev is not None:
            if flush_closed(prev[0], prev[1], prev[2], lines):
                lines = run_model(script())
            elif last_was_good_answer:
                good_answers += 1
        last_was_good_answer = False
        prev = (len(tape), rx_bytes(), lines)
        state, query, timeout = last_wait(lines)
        good = step >= nsteps
        if step == nsteps:
            good_from = rx_bytes()
        lastq_ver = last_query_version(lines, cver)
        if good and state == "ESTABLISHED" and good_answers >= 1 and not openq_left(lines, openq) :
            break            # converged: in sync with the cache
        if state == "ESTABLISHED" or (query is None and state not in ("SYNC", "RESET")):
            # the client waits for a notification / the refresh timer
            if good and step == total - 1:
                break        # a change now could not be fetched before the script ends
            if good or r.random() < 0.6:
                cache.mutate()
                if r.random() < 0.5:
                    tape.append("block")
                else:
                    # a correct cache notifies in the version of the session (the version of the client's last query)
                    nver = min(cver, lastq_ver) if (good or r.random() < 0.8) else cver
                    tape.append("rx:" + P.serial_notify(nver, cache.sess, cache.serial).hex())
                used.append("poll")
            else:
                f = r.choice(["err", "intr", "closed", "long_outage", "notify_bad"])
                used.append(f)
                if f == "long_outage":
                    tape += ["err"] + ["dt:%d" % (expire + r.choice([1, 50, 100000]))]
                elif f == "notify_bad":
                    tape.append("rx:" + P.serial_notify(r.choice([0, 1, 2]), cache.sess ^ 1, 7).hex())
                else:
                    tape.append(f)
            continue
        if query is None:
            tape.append("block")
            used.append("block")
            continue
        qver = query["ver"]
        if good:
            if cver < qver:
                # a version-0 cache answers a version-1 query with its own version
                ans = cache.answer(query, cver, ivals)
            else:
                ans = cache.answer(query, qver, ivals)
            tape += ["rx:" + x.hex() for x in chunk(r, ans)]
            used.append("good")
            last_was_good_answer = True
            continue
        f = r.choice(faults or (FAULTS + ["good"] * 12))
        used.append(f)
        ansver = min(cver, qver)
        if f in ("dup_announce", "unknown_withdraw", "eod_session", "interrupted_reload", "truncated") and r.random() < 0.7:
            cache.mutate()       # the spoiled answer carries a real delta: whatever the client keeps of it (records, serial) shows later
        ans = cache.answer(query, ansver, ivals)
        if f == "good":
            tape += ["rx:" + x.hex() for x in chunk(r, ans)]
        elif f in ("err", "block", "closed", "intr"):
            tape.append(f)
        elif f == "cache_reset":
            tape.append("rx:" + P.cache_reset(ansver).hex())
        elif f == "no_data":
            tape.append("rx:" + P.error_report(ansver, 2, query["raw"], b"no data\0").hex())
        elif f == "unsupported_version":
            tape.append("rx:" + P.error_report(r.choice([0, 0, 1, 2]), 4, query["raw"], b"").hex())
        elif f == "foreign_session":
            cache.new_session()
            tape += ["rx:" + x.hex() for x in chunk(r, cache.answer(query, ansver, ivals))]
        elif f == "malformed":
            x = bytearray(ans)
            if len(x) >= 8:
                x[4:8] = struct.pack(">I", r.choice([0, 7, 3249, 0xffffffff, 21]))
            tape.append("rx:" + bytes(x).hex())
        elif f == "wrong_version":
            x = bytearray(ans)
            k = r.choice([0, 8]) if len(x) > 8 else 0
            x[k] = r.choice([0, 1, 2, 255])
            tape.append("rx:" + bytes(x).hex())
        elif f == "error_other":
            tape.append("rx:" + P.error_report(ansver, r.choice([0, 1, 3, 5, 6, 7, 8, 200]), query["raw"], b"x\0").hex())
        elif f == "truncated":
            cut = r.randrange(0, len(ans))
            if cut:
                tape.append("rx:" + ans[:cut].hex())
            tape.append(r.choice(["err", "block", "closed"]))
        elif f == "dup_announce":
            p = rand_prefix(r, cache.ppool)
            x = pfx_pdu(ansver, 1, p)
            tape.append("rx:" + (ans[:8] + x + x + ans[8:]).hex())
        elif f == "unknown_withdraw":
            p = rand_prefix(r)
            b = rand_prefix(r)
            tape.append("rx:" + (ans[:8] + pfx_pdu(ansver, 1, b) + pfx_pdu(ansver, 0, b) + pfx_pdu(ansver, 0, p) + ans[8:]).hex())
        elif f == "eod_session":
            x = bytearray(ans)
            if len(x) >= 20 and x[-24 if ansver == 1 else -12 + 1] == 7:
                pass
            # flip the session of the last PDU (the End of Data) if it is one
            off = len(x) - (24 if ansver == 1 else 12)
            if off >= 0 and x[off + 1] == P.EOD:
                x[off + 2] ^= 0x5a
            tape.append("rx:" + bytes(x).hex())
        elif f == "interrupted_reload":
            cut = max(8, len(ans) - r.choice([12, 24, 30]))
            tape.append("rx:" + ans[:cut].hex())
            tape.append(r.choice(["err", "closed"]))
            if r.random() < 0.7:
                tape.append("dt:%d" % (expire + r.choice([1, 1000])))
        elif f == "long_outage":
            tape += ["err", "dt:%d" % (expire + r.choice([1, 7, 100000]))]
            for _ in range(r.randrange(0, 3)):
                openq.append("err")
        elif f == "send_fail":
            sendq.append(r.choice(["err", "block", "part:1", "part:5"]))
            tape.append("block")
        elif f == "open_fail":
            openq += ["ok"] * r.randrange(0, 2) + ["err"] * r.randrange(1, 3)
            tape.append("err")
        elif f == "v0_answer":
            tape += ["rx:" + x.hex() for x in chunk(r, cache.answer(query, 0, ivals))]
        elif f == "notify":
            tape.append("rx:" + P.serial_notify(ansver, cache.sess, cache.serial).hex())
            tape += ["rx:" + x.hex() for x in chunk(r, ans)]
        if r.random() < 0.15:
            tape.append("dt:%d" % r.choice([1, 59, 61, retry, refresh]))
    if prev is not None and len(tape) > prev[0]:
        flush_closed(prev[0], prev[1], prev[2], run_model(script()))
    if r.random() < 0.5:
        # the cache goes silent: the state-machine thread stays alive inside recv and `run stop` below is the real rtr_stop on a
        # running thread (cancel at a cancellation point, join, purge); for the model the script simply ends here
        tape.append("hang")
    ops = script() + ["show", "dump", "run stop", "show", "dump"]
    c.ops = ops
    c.meta = {"used": used, "cache_p": set(cache.p), "cache_k": set(cache.k), "cver": cver, "good_tail": good_tail, "good_from": good_from,
              "refresh": refresh, "expire": expire, "retry": retry, "mut": "fsm"}
    return c


# ------------------------------------------------------------------------------------------
# Classes that reach regions the random conversations above practically never enter (round-3 gaps):
# router-key-heavy synchronisations (hash table resize boundaries), stop/start cycles of one socket, a stop
# request during any transport call, writes that take time, allocation failures during a reload, one prefix
# carrying hundreds of records of another source.
# ------------------------------------------------------------------------------------------

def hashlin_params():
    """what the generators need to know about the hash table behind the router-key table, read from the tree under
    test: the initial size exponent (lean/RtrModel/Generated/Constants.lean is regenerated from that tree) and the small
    integer literals of the sources (fill-factor divisors: the table resizes at bucket_max / d, d spelled in the code)"""
    import os
    import re
    import vlib
    bit = 6
    try:
        src = open(os.path.join(vlib.LEAN, "RtrModel", "Generated", "Constants.lean")).read()
        m = re.search(r"def TOMMY_HASHLIN_BIT : Nat := (\d+)", src)
        if m:
            bit = int(m.group(1))
    except OSError:
        pass
    divs = sorted(d for d in vlib.source_literals()["ints"] if 2 <= d <= 16)
    return bit, divs or [2, 8]


def critical_counts(b, divs):
    """record counts at which a table of 2^b buckets may change its mind: 2^b / d and its neighbours, for every small
    literal d of the sources"""
    M = 1 << b
    out = set()
    for d in divs:
        for e in (-1, 0, 1):
            if 0 <= M // d + e:
                out.add(M // d + e)
    return sorted(out)


def seq_key(i, salt=0):
    """the i-th router key of a series (distinct SKI, ASN and SPKI vary)"""
    ski = struct.pack(">IIIII", salt & 0xffffffff, i, (i * 2654435761) & 0xffffffff, 0xa5a5a5a5, i ^ 0xffff)
    spki = bytes([(i + j) & 0xff for j in range(91)])
    # the table is keyed by the AS number: every key of a series has its own
    return (((i + 1) * 2654435761 + salt) & 0xffffffff, ski, spki)


def shrink_then_grow(counts, bit):
    """does the sequence of table sizes contain, for some table of M = 2^b > 2^bit buckets: enough records for the table
    to have M buckets (more than M/4, at most M/2), then a number at which shrinking has started but cannot have finished
    (between M/16 and M/8, exclusive), then growth beyond M/2 - without the table leaving that size in between?"""
    for b in range(bit + 1, bit + 12):
        M = 1 << b
        st = 0
        for n in counts:
            if n > M // 2:
                if st == 2:
                    return b
                st = 0
            elif n <= M // 16:
                st = 0
            elif st == 0 and n > M // 4:
                st = 1
            elif st == 1 and M // 16 < n < M // 8:
                st = 2
    return None


def gen_keyheavy_case(r, b=None, recipe=None, nex=None):
    """several exchanges against one socket whose router-key set walks over the resize boundaries of the hash table
    (2^b buckets): grow to a stable table, withdraw until a shrink is under way, grow again past the next boundary, and
    then touch the keys of the first exchange again (withdrawals that must be found, a re-announcement that must be
    refused as duplicate).  Every exchange is one `run sync` with show/dump around it."""
    bit, divs = hashlin_params()
    b = b if b is not None else bit + 1 + (r.random() < 0.3)
    M = 1 << b
    crit = [x for x in critical_counts(b, divs) if x <= M + 4]
    recipe = recipe or r.choice(["shrink_grow", "shrink_grow", "walk"])
    if recipe == "shrink_grow":
        lo, hi = M // 16 + 1, M // 8 - 1
        targets = [M // 2, r.randrange(lo, hi + 1) if hi >= lo else lo, M // 2 + r.choice([1, 1, 2, 3, 8])]
    else:
        targets = [M // 2] + [r.choice(crit + [r.randrange(0, M + 4)]) for _ in range(nex or r.randrange(2, 5))]
    c = SyncCase()
    salt = r.getrandbits(32)
    sess = r.randrange(65536)
    serial = r.choice([0, 5, 0xfffffffe, r.getrandbits(32)])
    ops = ["sock 3600 7200 600 %d" % r.choice(MODES)]
    for i in range(2):
        k = seq_key(1000000 + i, salt)
        ops.append("pre key %d %s %s %d" % (k[0], k[1].hex(), k[2].hex(), 1 + i))
    ops += ["set version 1", "set session %d" % sess, "set serial %d" % serial, "set reqsess 1", "set lastupdate 0",
            "set state 3", "set hasrecv 0"]
    cur = []            # keys the socket holds, in order of announcement
    nexti = 0
    counts = []
    first = None

    def exchange(payload):
        nonlocal serial
        serial = (serial + 1) & 0xffffffff
        stream = P.cache_response(1, sess) + b"".join(payload) + P.eod(1, sess, serial)
        ops.append("tape " + " ".join("rx:" + x.hex() for x in chunk(r, stream, r.choice(["whole", "pdu", "random"]))))
        ops.extend(["show", "dump", "run sync", "show", "dump"])

    n_oth = 2           # the table counts the records of all sources: the targets are totals
    for t in targets:
        t = max(0, t - n_oth)
        payload = []
        if t > len(cur):
            # now and then a withdrawal in the same exchange, so that shrinking and growing steps interleave
            wd = r.sample(cur, min(len(cur), r.choice([0, 0, 1, 2])))
            for k in wd:
                cur.remove(k)
                payload.append(P.router_key(1, 0, k[1], k[0], k[2]))
            while len(cur) < t:
                k = seq_key(nexti, salt)
                nexti += 1
                cur.append(k)
                payload.append(P.router_key(1, 1, k[1], k[0], k[2]))
        else:
            keep_first = [k for k in cur if first and k in first]
            pool = [k for k in cur if k not in keep_first[:4]]          # some keys of the first exchange stay to the end
            for k in r.sample(pool, min(len(pool), len(cur) - t)):
                cur.remove(k)
                payload.append(P.router_key(1, 0, k[1], k[0], k[2]))
        if r.random() < 0.3:
            payload.insert(r.randrange(len(payload) + 1), pfx_pdu(1, 1, (4, (len(counts) + 1) << 24, 8, 8, 65001)))
        if first is None:
            first = list(cur)
        counts.append(len(cur) + n_oth)
        exchange(payload)
    # touch old keys again: everything the table still holds must be found
    old = [k for k in cur if k in first] or list(cur)
    if old:
        wd = r.sample(old, min(len(old), r.choice([1, 2, len(old)])))
        for k in wd:
            cur.remove(k)
        counts.append(len(cur) + n_oth)
        exchange([P.router_key(1, 0, k[1], k[0], k[2]) for k in wd])
    if cur:
        # a re-announcement of a key the socket holds: a duplicate, the exchange must fail and change nothing
        k = r.choice(cur)
        k2 = seq_key(nexti, salt)
        exchange([P.router_key(1, 1, k2[1], k2[0], k2[2]), P.router_key(1, 1, k[1], k[0], k[2])])
        counts.append(len(cur) + n_oth)
    # and withdraw all of them
    if cur and r.random() < 0.7:
        exchange([P.router_key(1, 0, k[1], k[0], k[2]) for k in cur])
        counts.append(n_oth)
    c.ops = ops
    c.meta = {"mut": "keyheavy", "counts": counts, "b": b, "recipe": recipe, "stg": shrink_then_grow(counts, bit)}
    return c


def gen_reload_case(r):
    """a full reload (the socket holds data and has been told to start over: the next set is built in shadow tables)
    while the shared tables hold records of two other sources in both address families and router keys"""
    c = SyncCase()
    sess = r.randrange(65536)
    own = [(4, (10 + i) << 24, 8, r.choice([8, 24]), 65001) for i in range(r.randrange(1, 4))] + \
          [(6, (0x2001 << 112) | (i << 96), 32, 48, 65002) for i in range(r.randrange(0, 3))]
    oth = [((4, (100 + i) << 24, 8, 16, 65001 + i % 2), 1 + i % 2) for i in range(r.randrange(2, 5))] + \
          [((6, (0x2a00 << 112) | (i << 80), 48, r.choice([48, 64]), 65002), 1 + i % 2) for i in range(r.randrange(2, 6))]
    if r.random() < 0.5:
        oth.append(((4, own[0][1], 8, own[0][3], 65001), 2))     # the same prefix as one of the socket's own records
    ops = ["sock 3600 7200 600 %d" % r.choice(MODES)]
    for p in own:
        ops.append("pre pfx %d %0*x %d %d %d 0" % (p[0], 8 if p[0] == 4 else 32, p[1], p[2], p[3], p[4]))
    for p, s in oth:
        ops.append("pre pfx %d %0*x %d %d %d %d" % (p[0], 8 if p[0] == 4 else 32, p[1], p[2], p[3], p[4], s))
    keys = [seq_key(i, 7) for i in range(4)]
    ops.append("pre key %d %s %s 0" % (keys[0][0], keys[0][1].hex(), keys[0][2].hex()))
    for i in (1, 2):
        ops.append("pre key %d %s %s %d" % (keys[i][0], keys[i][1].hex(), keys[i][2].hex(), i))
    reload_ = r.random() < 0.8
    ops += ["set version 1", "set session %d" % sess, "set serial 5", "set reqsess %d" % int(reload_), "set lastupdate 900", "set state 3",
            "set hasrecv 1"]
    if reload_:
        newp = [(4, (20 + i) << 24, 8, 8, 65001) for i in range(r.randrange(0, 4))] + \
               [(6, (0x2002 << 112) | (i << 96), 32, 32, 65001) for i in range(r.randrange(0, 3))] + r.sample(own, r.randrange(0, len(own) + 1))
        payload = [pfx_pdu(1, 1, p) for p in newp] + [P.router_key(1, 1, keys[3][1], keys[3][0], keys[3][2])] * (r.random() < 0.6)
    else:
        payload = [pfx_pdu(1, 1, (4, (30 + i) << 24, 8, 8, 65001)) for i in range(r.randrange(0, 3))] + \
                  [pfx_pdu(1, 0, p) for p in r.sample(own, r.randrange(0, len(own) + 1))] + \
                  [pfx_pdu(1, 1, (6, (0x2003 << 112), 32, 32, 65001))] * (r.random() < 0.5)
    r.shuffle(payload)
    stream = P.cache_response(1, sess) + b"".join(payload) + P.eod(1, sess, 6)
    ops.append("tape " + " ".join("rx:" + x.hex() for x in chunk(r, stream, "whole")))
    c.ops = ops
    c.meta = {"mut": "reload" if reload_ else "delta", "others_v6": sum(1 for p, s in oth if p[0] == 6)}
    return c


def gen_hugeundo_case(r, kind="pfx", n=None):
    """an incremental response (answer to a Serial Query: the records go into the live tables one by one) with more than 2^16 PDUs of one
    kind, followed by a PDU the client must refuse (withdrawal of an unknown record): everything applied so far has to be undone - a
    count of applied PDUs kept in a narrow integer shows only here"""
    c = SyncCase()
    sess = r.randrange(65536)
    n = n or (65536 + r.choice([0, 1, 2, 7, 300]))
    ops = ["sock 3600 7200 600 %d" % r.choice(MODES)]
    ops.append("pre pfx 4 %08x 8 8 65001 0" % (9 << 24))
    ops.append("pre pfx 4 %08x 8 8 65001 1" % (8 << 24))
    k0 = seq_key(5, 3)
    ops.append("pre key %d %s %s 0" % (k0[0], k0[1].hex(), k0[2].hex()))
    ops += ["set version 1", "set session %d" % sess, "set serial 1", "set reqsess 0", "set lastupdate 900", "set state 3", "set hasrecv 1"]
    if kind == "pfx":
        payload = [pfx_pdu(1, 1, (4, (10 << 24) | (i << 8), 24, 24, 65001)) for i in range(n)]
    else:
        salt = r.getrandbits(32)
        payload = []
        for i in range(n):
            k = seq_key(1000 + i, salt)
            payload.append(P.router_key(1, 1, k[1], k[0], k[2]))
    payload.append(pfx_pdu(1, 0, (4, 77 << 24, 8, 8, 65009)))            # withdrawal of a record nobody announced
    stream = P.cache_response(1, sess) + b"".join(payload) + P.eod(1, sess, 2)
    ops.append("tape rx:" + stream.hex())
    ops += ["show", "dump", "run sync", "show", "dump"]
    c.ops = ops
    c.meta = {"mut": "hugeundo:" + kind, "n": n, "used": ["hugeundo"], "good_tail": 0}
    return c


def allocfail_variant(case, k):
    """the case with the k-th allocation request of the synchronisation refused"""
    v = SyncCase()
    v.ops = list(case.ops) + ["allocfail %d" % k, "show", "dump", "run syncaf", "show", "dump"]
    v.meta = dict(case.meta)
    v.meta["mut"] = "allocfail:" + case.meta.get("mut", "?")
    v.meta["k"] = k
    return v


def rand_send_outcomes(r, length, timeout):
    """a script of write outcomes with time passing inside the calls: partial writes next to clock jumps around the deadline"""
    evs = []
    for _ in range(r.randrange(0, 5)):
        if r.random() < 0.6:
            evs.append("dt:%d" % r.choice([0, 1, max(0, timeout - 1), max(0, timeout), max(0, timeout) + 1, 59, 60, 61, 100000]))
        evs.append(r.choice(["part:%d" % r.choice([1, 2, 5, max(1, length - 1), length, length + 3]), "part:1", "all", "all", "err", "block"]))
    if r.random() < 0.3:
        evs.append("dt:%d" % r.choice([1, 61]))
    return evs


def gen_sendall_line(r):
    """one call of tr_send_all: clock, timeout, the bytes of a PDU the client sends, the script of write outcomes"""
    pdu = r.choice([P.hdr(1, P.RESET_QUERY, 0, 8), P.hdr(0, P.RESET_QUERY, 0, 8), P.hdr(1, P.SERIAL_QUERY, r.randrange(65536), 12) + struct.pack(">I", r.getrandbits(32)),
                    P.error_report(1, r.randrange(9), bytes(r.getrandbits(8) for _ in range(r.choice([0, 8, 20]))), r.choice([b"", b"txt\0"]))])
    timeout = r.choice([60, 60, 60, 1, 0, -1, 3600])
    now = r.choice([0, 1000, 1 << 31, r.randrange(1 << 20)])
    return "sendall %d %d %s %s" % (now, timeout, pdu.hex(), " ".join(rand_send_outcomes(r, len(pdu), timeout))), pdu


def with_send_time(r, case, at=None):
    """the same case on a link whose writes take time: the `at`-th write call (default: a random early one) blocks past the
    send deadline and then accepts only part of the data"""
    import vlib
    tmo = [x for x in vlib.source_literals()["ints"] if 30 <= x <= 600] or [60]
    d = r.choice(tmo + [60, 61]) + r.choice([1, 1, 2, 100])
    at = at if at is not None else r.choice([0, 0, 1, 2])
    ops = []
    q = None
    for o in case.ops:
        if o.startswith("sendq "):
            q = o.split()[1:]
        else:
            ops.append(o)
    q = q or []
    while len(q) < at:
        q.append("all")
    q[at:at] = ["dt:%d" % d, "part:%d" % r.choice([1, 3, 5, 7, 11])]
    i = next(i for i, o in enumerate(ops) if o.startswith("run "))
    ops.insert(i, "sendq " + " ".join(q))
    v = SyncCase()
    v.ops = ops
    v.meta = dict(case.meta)
    v.meta["mut"] = "sendtime:" + str(case.meta.get("mut"))
    v.meta["good_tail"] = 0
    return v


def gen_fsm_restart_case(r, run_model, second_ver=None, nsteps=None):
    """two runs of the state machine on ONE socket: a conversation, rtr_stop, then rtr_start again without rtr_init and a
    second conversation (by default with a cache that now speaks `second_ver`).  Both conversations are built reactively
    by gen_fsm_case; for the second one the model is run on the whole script so far, so it starts from what the first
    run has left in the socket."""
    c1 = gen_fsm_case(r, run_model, nsteps=nsteps if nsteps is not None else r.randrange(1, 5), cache_ver=1,
                      faults=["good"] * 6 + FAULTS)
    prefix = list(c1.ops)
    n0 = len(run_model(prefix))

    def run_model2(ops):
        k = ops.index("show")
        return run_model(prefix + ops[k + 1:])[n0:]
    ver2 = second_ver if second_ver is not None else r.choice([0, 0, 1])
    c2 = gen_fsm_case(r, run_model2, nsteps=r.randrange(1, 4), cache_ver=ver2, faults=["good"] * 8 + FAULTS)
    k = c2.ops.index("show")
    c = FsmCase()
    c.ops = prefix + c2.ops[k + 1:]
    c.meta = {"mut": "restart", "used": c1.meta["used"] + ["restart"] + c2.meta["used"], "good_tail": 0, "ver2": ver2,
              "cache_p": c2.meta["cache_p"], "cache_k": c2.meta["cache_k"]}
    return c


def full_answer(r, ver, nrec=3):
    sess = r.randrange(65536)
    out = [P.cache_response(ver, sess)] + [pfx_pdu(ver, 1, (4, (50 + i) << 24, 8, 8, 65001)) for i in range(nrec)]
    if ver == 1 and r.random() < 0.5:
        k = seq_key(5, 5)
        out.append(P.router_key(1, 1, k[1], k[0], k[2]))
    out.append(P.eod(ver, sess, r.getrandbits(32)))
    return b"".join(out)


def simple_conversation(r, ver=1, keys=True):
    """a short correct conversation, built without the model: full answer, Serial Notify, delta answer, silence"""
    c = FsmCase()
    cache = Cache(r, ver)
    ops = ["sock 3600 7200 600 %d" % r.choice(MODES)]
    p = rand_prefix(r, cache.ppool)
    ops.append("pre pfx %d %0*x %d %d %d 1" % (p[0], 8 if p[0] == 4 else 32, p[1], p[2], p[3], p[4]))
    ops.append("show")
    tape = ["rx:" + cache.full(ver).hex()]
    s0 = cache.serial
    cache.mutate()
    tape.append("rx:" + P.serial_notify(ver, cache.sess, cache.serial).hex())
    tape.append("rx:" + cache.answer({"type": P.SERIAL_QUERY, "f16": cache.sess, "sn": s0, "raw": b""}, ver).hex())
    tape.append("block")
    ops.append("tape " + " ".join(tape))
    ops += ["run fsm", "show", "dump", "run stop", "show", "dump"]
    c.ops = ops
    c.meta = {"mut": "fsm", "used": ["simple"], "good_tail": 0}
    return c


def livestop_variant(r, base, k):
    """the conversation of `base` with rtr_stop() called during its k-th transport call, then the same socket started
    again against a cache that answers the first query with a complete data set"""
    i = base.ops.index("run fsm")
    ops = []
    for o in base.ops[:i]:
        if o.startswith("tape "):
            o = " ".join(w for w in o.split() if w != "hang")
        ops.append(o)
    ops += ["stopat %d" % k, "run fsm", "show", "dump", "run stop", "show", "dump",
            "tape rx:" + full_answer(r, r.choice([0, 1, 1])).hex(), "run fsm", "show", "dump", "run stop", "show", "dump"]
    v = FsmCase()
    v.ops = ops
    v.meta = {"mut": "livestop", "used": ["livestop"], "good_tail": 0, "k": k}
    return v


def gen_foreign_node_case(r, n, expiry):
    """another source holds n records on ONE prefix (one trie node), the socket under test learns a record on the same
    prefix; then the socket is stopped, or its data expires during an outage"""
    c = FsmCase()
    ops = ["sock 3600 7200 600 1"]
    addr = r.choice([0x0a000000, 0xc0000000])
    for i in range(n):
        ops.append("pre pfx 4 %08x 8 %d %d 1" % (addr, 8 + i % 25, 64512 + i))
    ops.append("pre pfx 4 %08x 16 16 65001 2" % (addr | 0x10000))
    ops.append("show")
    sess = r.randrange(65536)
    ans = P.cache_response(1, sess) + P.ipv4(1, 1, 8, 8, addr, 65001) + P.ipv4(1, 1, 8, 32, addr, 65002) + \
        P.ipv4(1, 1, 24, 24, addr | 0x100, 65001) + P.eod(1, sess, 7)
    tape = ["rx:" + x.hex() for x in chunk(r, ans, "pdu")]
    if expiry:
        tape += ["dt:%d" % (7200 + r.choice([1, 100])), "err", "block"]
    else:
        tape += ["hang"] if r.random() < 0.5 else ["block"]
    ops.append("tape " + " ".join(tape))
    ops += ["run fsm", "show", "dump", "run stop", "show", "dump"]
    c.ops = ops
    c.meta = {"mut": "foreign-node", "used": ["foreign-node"], "good_tail": 0, "n": n}
    return c
