"""Generators for the RTR protocol domain: sync-level cases (one response against a prepared socket)
and FSM-level conversations (scripted cache + fault schedules).  All randomness from the rng passed in."""
import struct

import rtrpdu as P

MODES = [0, 1, 2, 3]
ASNS = [0, 65001, 65002, 4200000000]


def rec_str(r):
    v, a, ln, ml, asn, src = r
    return "%d:%0*x/%d-%d:%d:%d" % (v, 8 if v == 4 else 32, a, ln, ml, asn, src)


def key_str(k):
    asn, ski, spki, src = k
    return "%d:%s:%s:%d" % (asn, ski.hex(), spki.hex(), src)


def trunc(v, a, ln):
    w = 32 if v == 4 else 128
    return a if ln >= w else (a >> (w - ln)) << (w - ln)


def rand_prefix(r, pool=None):
    if pool and r.random() < 0.7:
        return r.choice(pool)
    v = r.choice([4, 4, 6])
    w = 32 if v == 4 else 128
    ln = r.choice([0, 8, 16, 24, w, r.randrange(0, w + 1)])
    a = trunc(v, r.getrandbits(w), ln)
    ml = r.choice([ln, w, r.randrange(ln, w + 1)])
    return (v, a, ln, ml, r.choice(ASNS))


def rand_key(r, pool=None):
    if pool and r.random() < 0.7:
        return r.choice(pool)
    ski = bytes([r.choice([0x11, 0xab, r.getrandbits(8)])] * 20) if r.random() < 0.5 else bytes(r.getrandbits(8) for _ in range(20))
    spki = bytes([r.getrandbits(8)] * 91) if r.random() < 0.5 else bytes(r.getrandbits(8) for _ in range(91))
    return (r.choice(ASNS), ski, spki)


def pfx_pdu(ver, flags, p):
    v, a, ln, ml, asn = p
    return P.ipv4(ver, flags, ln, ml, a, asn) if v == 4 else P.ipv6(ver, flags, ln, ml, a, asn)


def chunk(r, data, mode=None):
    """split bytes into rx chunks"""
    if not data:
        return []
    mode = mode if mode is not None else r.choice(["whole", "whole", "pdu", "random", "bytes"])
    if mode == "whole" or len(data) <= 1:
        return [data]
    if mode == "bytes" and len(data) <= 300:
        return [data[i:i + 1] for i in range(len(data))]
    cuts = sorted(set(r.randrange(1, len(data)) for _ in range(r.randrange(1, 8))))
    out, prev = [], 0
    for c in cuts + [len(data)]:
        out.append(data[prev:c])
        prev = c
    return out


class SyncCase:
    """one call of rtr_sync against a prepared socket"""

    def __init__(self):
        self.ops = []
        self.meta = {}


MUTATIONS = ["none", "none", "dup", "unknown_wd", "bad_flags", "eod_session", "cr_session", "unexpected_type",
             "error_pdu", "bad_length", "unknown_type", "bad_version", "truncate", "fault", "hostile_len",
             "host_bits", "notify", "key_bad_flags", "cache_reset", "error_first", "garbage", "eod_v0_in_v1",
             "zero_field", "big", "error_nested_len", "error_nested_len"]


def wrap_candidates(r, total):
    """values for a 32-bit length field that take part in sums and comparisons with the PDU length `total`:
    the consistent values and their neighbours, small values, the sign bit, and every value that wraps a 32-bit sum
    with one of the constants the parser adds (header 8, length words 4/8/12/16, NUL)"""
    k = r.randrange(9)
    if k == 0:
        return r.choice([0, 1, 4, 8, 12, 16])
    if k == 1:
        return max(0, total - r.choice([8, 12, 16, 17, 15, 20, 24]))
    if k == 2:
        return total + r.choice([-1, 0, 1, 4, 8])
    if k in (3, 4, 5):
        return (1 << 32) - r.randrange(0, 33)        # wraps x + c for every c the parser could add
    if k == 6:
        return ((1 << 32) - total + r.choice([-16, -8, 0, 8, 16])) & 0xffffffff
    if k == 7:
        return r.choice([0x7fffffff, 0x80000000, 0x80000001, 0xfffffff0, 0xffff0000, 0x10000, 0xffff])
    return r.getrandbits(32)



def gen_sync_case(r, force_mut=None):
    c = SyncCase()
    ver = r.choice([1, 1, 1, 0])
    mode = r.choice(MODES)
    refresh, expire, retry = r.choice([(3600, 7200, 600), (1, 600, 1), (86400, 172800, 7200)])
    sess = r.choice([0, 1, 7, 65535, r.randrange(65536)])
    serial = r.choice([0, 5, 0xffffffff, 0x7fffffff, r.getrandbits(32)])
    reqsess = r.random() < 0.35
    has_data = (not reqsess) or r.random() < 0.5
    lastupdate = r.choice([900, 1000, 500]) if has_data else 0
    # own records and other sources' records
    ppool = [rand_prefix(r) for _ in range(r.randrange(2, 10))]
    kpool = [rand_key(r) for _ in range(r.randrange(1, 4))]
    own_p = set(rand_prefix(r, ppool) for _ in range(r.randrange(0, 6))) if has_data else set()
    own_k = set(rand_key(r, kpool) for _ in range(r.randrange(0, 3))) if has_data else set()
    oth_p = set((rand_prefix(r, ppool), r.choice([1, 2])) for _ in range(r.randrange(0, 5)))
    oth_k = set((rand_key(r, kpool), r.choice([1, 2])) for _ in range(r.randrange(0, 3)))
    ops = ["sock %d %d %d %d" % (refresh, expire, retry, mode)]
    for p in sorted(own_p):
        ops.append("pre pfx %d %0*x %d %d %d 0" % (p[0], 8 if p[0] == 4 else 32, p[1], p[2], p[3], p[4]))
    for p, s in sorted(oth_p):
        ops.append("pre pfx %d %0*x %d %d %d %d" % (p[0], 8 if p[0] == 4 else 32, p[1], p[2], p[3], p[4], s))
    for k in sorted(own_k):
        ops.append("pre key %d %s %s 0" % (k[0], k[1].hex(), k[2].hex()))
    for k, s in sorted(oth_k):
        ops.append("pre key %d %s %s %d" % (k[0], k[1].hex(), k[2].hex(), s))
    ops += ["set version %d" % ver, "set session %d" % sess, "set serial %d" % serial, "set reqsess %d" % int(reqsess),
            "set lastupdate %d" % lastupdate, "set state 3", "set hasrecv %d" % r.choice([0, 1, 1])]

    # a valid response
    rsess = sess if not reqsess else r.choice([sess, r.randrange(65536)])
    pdus = [P.cache_response(ver, rsess)]
    payload = []
    if reqsess:      # full set
        newp = set(rand_prefix(r, ppool) for _ in range(r.randrange(0, 8)))
        newk = set(rand_key(r, kpool) for _ in range(r.randrange(0, 3))) if ver == 1 else set()
        payload = [pfx_pdu(ver, 1, p) for p in newp] + [P.router_key(ver, 1, k[1], k[0], k[2]) for k in newk]
    else:
        ann = set(rand_prefix(r, ppool) for _ in range(r.randrange(0, 6))) - own_p
        wd = set(r.sample(sorted(own_p), r.randrange(0, len(own_p) + 1))) if own_p else set()
        annk = (set(rand_key(r, kpool) for _ in range(r.randrange(0, 3))) - own_k) if ver == 1 else set()
        wdk = (set(r.sample(sorted(own_k), r.randrange(0, len(own_k) + 1))) if own_k else set()) if ver == 1 else set()
        payload = [pfx_pdu(ver, 1, p) for p in ann] + [pfx_pdu(ver, 0, p) for p in wd] + \
                  [P.router_key(ver, 1, k[1], k[0], k[2]) for k in annk] + [P.router_key(ver, 0, k[1], k[0], k[2]) for k in wdk]
    r.shuffle(payload)
    newserial = (serial + r.choice([0, 1, 2, 1000])) & 0xffffffff
    ivals = r.choice([(3600, 600, 7200), (0, 0, 0), (0xffffffff, 0xffffffff, 0xffffffff), (86401, 7201, 172801), (1, 1, 600),
                      (r.getrandbits(32), r.getrandbits(32), r.getrandbits(32))])
    eod = P.eod(ver, rsess, newserial, *ivals)
    mut = force_mut or r.choice(MUTATIONS)
    events = None
    pos = r.randrange(0, len(payload) + 1)
    if mut == "dup":
        src = (own_p and r.random() < 0.5)
        p = r.choice(sorted(own_p)) if (own_p and not reqsess) else rand_prefix(r, ppool)
        x = pfx_pdu(ver, 1, p)
        payload.insert(pos, x)
        if reqsess or p not in own_p:
            payload.insert(r.randrange(0, len(payload) + 1), x)
    elif mut == "unknown_wd":
        p = rand_prefix(r)
        payload.insert(pos, pfx_pdu(ver, 0, p))
        if r.random() < 0.5:   # the F3 pattern: announce B, withdraw B earlier in the stream
            b = rand_prefix(r)
            payload = [pfx_pdu(ver, 1, b), pfx_pdu(ver, 0, b)] + payload
    elif mut == "bad_flags":
        payload.insert(pos, pfx_pdu(ver, r.choice([2, 3, 128, 255]), rand_prefix(r, ppool)))
    elif mut == "key_bad_flags":
        k = rand_key(r, kpool)
        payload.insert(pos, P.router_key(ver, r.choice([2, 255]), k[1], k[0], k[2]))
    elif mut == "eod_session":
        eod = P.eod(ver, (rsess + r.choice([1, 48, 65535])) & 0xffff, newserial, *ivals)
    elif mut == "cr_session":
        pdus = [P.cache_response(ver, (sess + r.choice([1, 92])) & 0xffff)]
        if r.random() < 0.5:
            eod = P.eod(ver, sess, newserial, *ivals)          # F6 pattern: foreign CR, matching EOD
        else:
            eod = P.eod(ver, P.struct.unpack(">H", pdus[0][2:4])[0], newserial, *ivals)
    elif mut == "unexpected_type":
        x = r.choice([P.cache_reset(ver), P.hdr(ver, P.RESET_QUERY, 0, 8), P.hdr(ver, P.SERIAL_QUERY, sess, 12) + b"\0\0\0\1",
                      P.cache_response(ver, rsess)])
        payload.insert(pos, x)
    elif mut == "error_pdu":
        code = r.choice([0, 1, 2, 3, 4, 5, 6, 7, 8, 9, 255])
        enc = r.choice([b"", P.hdr(ver, 2, 0, 8), bytes(r.getrandbits(8) for _ in range(r.randrange(0, 40)))])
        txt = r.choice([b"", b"oops\0", bytes(r.getrandbits(8) for _ in range(r.randrange(0, 30)))])
        ev = r.choice([ver, 0, 1, 2])
        payload.insert(pos, P.error_report(ev, code, enc, txt))
    elif mut == "error_nested_len":
        # an Error Report whose total length is plausible but whose two nested length fields are hostile
        code = r.choice([0, 1, 2, 3, 4, 5, 6, 7, 8])
        body_len = r.choice([8, 8, 16, 24, 40, 100, 3240]) if r.random() < 0.8 else r.randrange(0, 3300)
        total = 8 + body_len
        body = bytearray(r.getrandbits(8) for _ in range(body_len))
        which = r.randrange(4)
        enc_len = wrap_candidates(r, total) & 0xffffffff if which != 1 else r.choice([0, 8, max(0, body_len - 8)])
        if body_len >= 4:
            body[0:4] = struct.pack(">I", enc_len)
        if which != 0 and enc_len + 8 <= body_len:
            txt_len = wrap_candidates(r, total - enc_len) & 0xffffffff
            body[4 + enc_len:8 + enc_len] = struct.pack(">I", txt_len)
        x = P.hdr(r.choice([ver, ver, 0, 1]), P.ERROR, code, total) + bytes(body)
        if r.random() < 0.5:
            pdus = [x]
            payload = []
            eod = b""
        else:
            payload.insert(pos, x)
    elif mut == "error_first":
        code = r.choice([2, 4, 0, 1, 3, 5])
        pdus = [P.error_report(r.choice([ver, 0, 1]), code, P.hdr(ver, 2, 0, 8), b"no\0")]
        payload = []
        eod = b""
    elif mut == "cache_reset":
        pdus = [P.cache_reset(ver)]
        payload = []
        eod = b""
    elif mut == "bad_length":
        x = bytearray(r.choice(payload) if payload and r.random() < 0.6 else r.choice([eod, pdus[0]]))
        newlen = r.choice([0, 7, 9, len(x) - 1, len(x) + 1, len(x) + 4, 3248, 3249, 0xffffffff, 0x80000000])
        x[4:8] = struct.pack(">I", newlen & 0xffffffff)
        which = r.randrange(3)
        if which == 0:
            pdus = [bytes(x)]
        else:
            payload.insert(pos, bytes(x))
        # make sure enough bytes follow so that a claimed longer length can be read
        payload.append(bytes(r.getrandbits(8) for _ in range(r.choice([0, 8, 64]))))
    elif mut == "unknown_type":
        x = bytearray(r.choice(payload) if payload else P.cache_reset(ver))
        x[1] = r.choice([5, 11, 12, 255, 128])
        payload.insert(pos, bytes(x))
    elif mut == "bad_version":
        x = bytearray(r.choice(payload + [eod, pdus[0]]))
        x[0] = r.choice([0, 1, 2, 255]) if x[0] != 0 else r.choice([1, 2])
        if r.random() < 0.3:
            pdus = [bytes(x)] if x[1] == 3 else pdus
        payload.insert(pos, bytes(x))
    elif mut == "hostile_len":
        v = r.choice([4, 6])
        w = 32 if v == 4 else 128
        ln = r.choice([w + 1, 200, 255, w])
        ml = r.choice([ln, 255, 0, w])
        payload.insert(pos, pfx_pdu(ver, r.choice([1, 1, 0]), (v, r.getrandbits(w), ln, ml, 65001)))
    elif mut == "host_bits":
        v = r.choice([4, 6])
        w = 32 if v == 4 else 128
        for _ in range(r.randrange(1, 5)):
            payload.insert(pos, pfx_pdu(ver, 1, (v, r.getrandbits(w) | 1, r.choice([0, 8, 16]), w, 65001)))
    elif mut == "notify":
        payload.insert(pos, P.serial_notify(ver, rsess, r.getrandbits(32)))
        if r.random() < 0.5:
            pdus = [P.serial_notify(ver, rsess, 1)] + pdus
    elif mut == "garbage":
        pdus = [bytes(r.getrandbits(8) for _ in range(r.randrange(1, 64)))]
    elif mut == "eod_v0_in_v1":
        eod = P.eod(1 - ver, rsess, newserial, *ivals)
        eod = bytes([ver]) + eod[1:]      # right version byte, wrong format for it
    elif mut == "zero_field":
        if payload:
            x = bytearray(payload[0])
            if x[1] in (4, 6):
                x[11] = 7
            payload[0] = bytes(x)
    elif mut == "big":
        payload += [pfx_pdu(ver, 1, (4, (i << 8), 24, 24, 65001)) for i in range(r.choice([99, 100, 101, 205]))]

    stream = b"".join(pdus + payload + [eod])
    if mut == "truncate":
        cut = r.randrange(0, len(stream) + 1)
        stream = stream[:cut]
        tail = [r.choice(["err", "block", "closed", "intr", ""])]
    else:
        tail = []
    evs = ["rx:" + x.hex() for x in chunk(r, stream)]
    if mut == "fault":
        k = r.randrange(0, len(evs) + 1)
        evs.insert(k, r.choice(["err", "block", "closed", "intr"]))
    evs += [t for t in tail if t]
    if r.random() < 0.2:
        evs.insert(r.randrange(0, len(evs) + 1), "dt:%d" % r.choice([1, 30, 61, 5000]))
    if evs:
        ops.append("tape " + " ".join(evs))
    if r.random() < 0.15:
        ops.append("sendq " + " ".join(r.choice(["part:1", "part:3", "err", "block", "all", "part:8"]) for _ in range(r.randrange(1, 4))))
    ops += ["show", "dump", "run sync", "show", "dump"]
    c.ops = ops
    c.meta = {"mut": mut, "ver": ver, "sess": sess, "serial": serial, "reqsess": reqsess, "stream": stream,
              "own_p": own_p, "own_k": own_k, "mode": mode}
    return c


def rechunk_case(r, case, mode):
    """the same case with the same bytes delivered in another segmentation (no faults inside)"""
    ops = []
    for o in case.ops:
        if o.startswith("tape "):
            evs = o.split()[1:]
            out = []
            buf = b""
            for e in evs:
                if e.startswith("rx:"):
                    buf += bytes.fromhex(e[3:])
                else:
                    out += ["rx:" + x.hex() for x in chunk(r, buf, mode)]
                    buf = b""
                    out.append(e)
            out += ["rx:" + x.hex() for x in chunk(r, buf, mode)]
            ops.append("tape " + " ".join(out))
        else:
            ops.append(o)
    c = SyncCase()
    c.ops = ops
    c.meta = dict(case.meta)
    return c


# ------------------------------------------------------------------------------------------
# FSM conversations
# ------------------------------------------------------------------------------------------

class Cache:
    """a simulated cache: data set + serial history"""

    def __init__(self, r, ver=1):
        self.r = r
        self.ver = ver
        self.sess = r.randrange(65536)
        self.serial = r.choice([0, 5, 0xfffffffe, r.getrandbits(32)])
        self.ppool = [rand_prefix(r) for _ in range(8)]
        self.kpool = [rand_key(r) for _ in range(3)]
        self.p = set(r.sample(self.ppool, r.randrange(0, 6)))
        self.k = set(r.sample(self.kpool, r.randrange(0, 3))) if ver == 1 else set()
        self.hist = {}      # serial -> (p, k) snapshot

    def snapshot(self):
        self.hist[self.serial] = (set(self.p), set(self.k))

    def mutate(self):
        self.snapshot()
        r = self.r
        for _ in range(r.randrange(0, 4)):
            x = r.choice(self.ppool)
            (self.p.discard if x in self.p else self.p.add)(x)
        if self.ver == 1:
            for _ in range(r.randrange(0, 2)):
                x = r.choice(self.kpool)
                (self.k.discard if x in self.k else self.k.add)(x)
        self.serial = (self.serial + 1) & 0xffffffff

    def new_session(self):
        self.sess = (self.sess + self.r.randrange(1, 65535)) & 0xffff
        self.hist = {}

    def full(self, ver, ivals=(3600, 600, 7200)):
        out = [P.cache_response(ver, self.sess)]
        out += [pfx_pdu(ver, 1, p) for p in sorted(self.p)]
        if ver == 1:
            out += [P.router_key(ver, 1, k[1], k[0], k[2]) for k in sorted(self.k)]
        out.append(P.eod(ver, self.sess, self.serial, *ivals))
        return b"".join(out)

    def answer(self, query, ver, ivals=(3600, 600, 7200)):
        """the correct answer to a decoded query PDU"""
        if query["type"] == P.RESET_QUERY:
            return self.full(ver, ivals)
        if query["type"] == P.SERIAL_QUERY:
            if query["f16"] != self.sess or query.get("sn") not in self.hist and query.get("sn") != self.serial:
                return P.cache_reset(ver)
            if query["sn"] == self.serial:
                return P.cache_response(ver, self.sess) + P.eod(ver, self.sess, self.serial, *ivals)
            op, ok = self.hist[query["sn"]]
            out = [P.cache_response(ver, self.sess)]
            out += [pfx_pdu(ver, 1, p) for p in sorted(self.p - op)] + [pfx_pdu(ver, 0, p) for p in sorted(op - self.p)]
            if ver == 1:
                out += [P.router_key(ver, 1, k[1], k[0], k[2]) for k in sorted(self.k - ok)]
                out += [P.router_key(ver, 0, k[1], k[0], k[2]) for k in sorted(ok - self.k)]
            out.append(P.eod(ver, self.sess, self.serial, *ivals))
            return b"".join(out)
        return P.error_report(ver, 3, query["raw"], b"")


class FsmCase:
    def __init__(self):
        self.ops = []
        self.meta = {}


def last_query_version(lines, default):
    """version byte of the last query the client sent (the version it currently speaks)"""
    v = default
    for l in lines:
        w = l.split()
        if len(w) > 4 and w[0] == "W" and len(w[4]) >= 4 and w[4][2:4] in ("01", "02"):
            v = int(w[4][0:2], 16)
    return v


def openq_left(lines, openq):
    """are scripted open() outcomes left that the client has not used yet?"""
    return sum(1 for l in lines if l.startswith("O ")) < len(openq)


def last_wait(lines):
    """what the client was doing when the script ran out: (state, last complete query PDU or None, recv timeout)"""
    state = None
    sent = b""
    query = None
    timeout = None
    for l in lines:
        w = l.split()
        if not w:
            continue
        if w[0] == "S":
            state = w[1]
        elif w[0] == "W" and w[3] not in ("-1", "-2"):
            sent += bytes.fromhex(w[4]) if len(w) > 4 else b""
            pdus, rest = P.decode_stream(sent)
            sent = rest
            for p in pdus:
                if p["type"] in (P.SERIAL_QUERY, P.RESET_QUERY):
                    query = p
        elif w[0] == "W":
            sent = b""
        elif w[0] == "R":
            if w[4] == "eof":
                timeout = int(w[2])
            elif w[4] not in ("-1", "-2", "-3", "-4"):
                pass
        elif w[0] == "O":
            query = None
    return state, query, timeout


FAULTS = ["err", "block", "closed", "intr", "cache_reset", "no_data", "unsupported_version", "foreign_session",
          "malformed", "wrong_version", "error_other", "truncated", "dup_announce", "unknown_withdraw", "eod_session",
          "interrupted_reload", "long_outage", "send_fail", "open_fail", "v0_answer", "notify"]


def gen_fsm_case(r, run_model, nsteps=None, good_tail=0, cache_ver=None, faults=None):
    """build a conversation reactively: after each step the model driver is run on the script so far to see
    what the client asks next.  `good_tail` extra steps are answered correctly (C08)."""
    c = FsmCase()
    mode = r.choice(MODES)
    refresh, expire, retry = r.choice([(3600, 7200, 600), (10, 600, 5), (86400, 172800, 7200), (100, 600, 1)])
    cver = cache_ver if cache_ver is not None else r.choice([1, 1, 1, 0])
    cache = Cache(r, cver)
    head = ["sock %d %d %d %d" % (refresh, expire, retry, mode)]
    for _ in range(r.randrange(0, 3)):
        p = rand_prefix(r, cache.ppool)
        head.append("pre pfx %d %0*x %d %d %d %d" % (p[0], 8 if p[0] == 4 else 32, p[1], p[2], p[3], p[4], r.choice([1, 2])))
    head.append("show")
    tape, sendq, openq = [], [], []
    nsteps = nsteps if nsteps is not None else r.randrange(2, 8)
    used = []
    ivals = r.choice([(refresh, retry, expire), (3600, 600, 7200), (1, 1, 600)])

    def script():
        ops = list(head)
        if openq:
            ops.append("openq " + " ".join(openq))
        if sendq:
            ops.append("sendq " + " ".join(sendq))
        if tape:
            ops.append("tape " + " ".join(tape))
        ops.append("run fsm")
        return ops

    def rx_bytes():
        return sum(len(t) - 3 for t in tape if t.startswith("rx:")) // 2

    def flush_closed(mark, before, prev_lines, lines):
        """A connection that the client closes takes its unread bytes with it.  `tape[mark:]` was appended (= sent on the
        connection that existed then) after the run `prev_lines`; `lines` is the run with it.  If the client closed the
        connection before it had read all of it, the unread bytes are dropped from the script (they were never seen, so
        the past is unchanged); transport events (faults, time) stay.  returns True if something was dropped"""
        k = 0
        while k < len(prev_lines) and k < len(lines) and prev_lines[k] == lines[k]:
            k += 1
        cum = 0
        close_at = None
        for i, l in enumerate(lines):
            w = l.split()
            if len(w) > 4 and w[0] == "R" and w[4].isdigit():
                cum += int(w[4])
            elif w and w[0] == "C" and i >= k and cum >= before:
                close_at = cum
                break
        if close_at is None:
            return False
        pos = before
        dropped = False
        out = []
        for t in tape[mark:]:
            if not t.startswith("rx:"):
                out.append(t)
                continue
            b = bytes.fromhex(t[3:])
            if pos + len(b) <= close_at:
                out.append(t)
            elif pos < close_at:
                out.append("rx:" + b[:close_at - pos].hex())
                dropped = True
            else:
                dropped = True
            pos += len(b)
        tape[mark:] = out
        return dropped

    total = nsteps + good_tail
    good_answers = 0
    good_from = 0
    prev = None
    last_was_good_answer = False
    for step in range(total):
        lines = run_model(script())
        if prev is not None:
            if flush_closed(prev[0], prev[1], prev[2], lines):
                lines = run_model(script())
            elif last_was_good_answer:
                good_answers += 1
        last_was_good_answer = False
        prev = (len(tape), rx_bytes(), lines)
        state, query, timeout = last_wait(lines)
        good = step >= nsteps
        if step == nsteps:
            good_from = rx_bytes()
        lastq_ver = last_query_version(lines, cver)
        if good and state == "ESTABLISHED" and good_answers >= 1 and not openq_left(lines, openq) :
            break            # converged: in sync with the cache
        if state == "ESTABLISHED" or (query is None and state not in ("SYNC", "RESET")):
            # the client waits for a notification / the refresh timer
            if good and step == total - 1:
                break        # a change now could not be fetched before the script ends
            if good or r.random() < 0.6:
                cache.mutate()
                if r.random() < 0.5:
                    tape.append("block")
                else:
                    # a correct cache notifies in the version of the session (the version of the client's last query)
                    nver = min(cver, lastq_ver) if (good or r.random() < 0.8) else cver
                    tape.append("rx:" + P.serial_notify(nver, cache.sess, cache.serial).hex())
                used.append("poll")
            else:
                f = r.choice(["err", "intr", "closed", "long_outage", "notify_bad"])
                used.append(f)
                if f == "long_outage":
                    tape += ["err"] + ["dt:%d" % (expire + r.choice([1, 50, 100000]))]
                elif f == "notify_bad":
                    tape.append("rx:" + P.serial_notify(r.choice([0, 1, 2]), cache.sess ^ 1, 7).hex())
                else:
                    tape.append(f)
            continue
        if query is None:
            tape.append("block")
            used.append("block")
            continue
        qver = query["ver"]
        if good:
            if cver < qver:
                # a version-0 cache answers a version-1 query with its own version
                ans = cache.answer(query, cver, ivals)
            else:
                ans = cache.answer(query, qver, ivals)
            tape += ["rx:" + x.hex() for x in chunk(r, ans)]
            used.append("good")
            last_was_good_answer = True
            continue
        f = r.choice(faults or (FAULTS + ["good"] * 12))
        used.append(f)
        ansver = min(cver, qver)
        if f in ("dup_announce", "unknown_withdraw", "eod_session", "interrupted_reload", "truncated") and r.random() < 0.7:
            cache.mutate()       # the spoiled answer carries a real delta: whatever the client keeps of it (records, serial) shows later
        ans = cache.answer(query, ansver, ivals)
        if f == "good":
            tape += ["rx:" + x.hex() for x in chunk(r, ans)]
        elif f in ("err", "block", "closed", "intr"):
            tape.append(f)
        elif f == "cache_reset":
            tape.append("rx:" + P.cache_reset(ansver).hex())
        elif f == "no_data":
            tape.append("rx:" + P.error_report(ansver, 2, query["raw"], b"no data\0").hex())
        elif f == "unsupported_version":
            tape.append("rx:" + P.error_report(r.choice([0, 0, 1, 2]), 4, query["raw"], b"").hex())
        elif f == "foreign_session":
            cache.new_session()
            tape += ["rx:" + x.hex() for x in chunk(r, cache.answer(query, ansver, ivals))]
        elif f == "malformed":
            x = bytearray(ans)
            if len(x) >= 8:
                x[4:8] = struct.pack(">I", r.choice([0, 7, 3249, 0xffffffff, 21]))
            tape.append("rx:" + bytes(x).hex())
        elif f == "wrong_version":
            x = bytearray(ans)
            k = r.choice([0, 8]) if len(x) > 8 else 0
            x[k] = r.choice([0, 1, 2, 255])
            tape.append("rx:" + bytes(x).hex())
        elif f == "error_other":
            tape.append("rx:" + P.error_report(ansver, r.choice([0, 1, 3, 5, 6, 7, 8, 200]), query["raw"], b"x\0").hex())
        elif f == "truncated":
            cut = r.randrange(0, len(ans))
            if cut:
                tape.append("rx:" + ans[:cut].hex())
            tape.append(r.choice(["err", "block", "closed"]))
        elif f == "dup_announce":
            p = rand_prefix(r, cache.ppool)
            x = pfx_pdu(ansver, 1, p)
            tape.append("rx:" + (ans[:8] + x + x + ans[8:]).hex())
        elif f == "unknown_withdraw":
            p = rand_prefix(r)
            b = rand_prefix(r)
            tape.append("rx:" + (ans[:8] + pfx_pdu(ansver, 1, b) + pfx_pdu(ansver, 0, b) + pfx_pdu(ansver, 0, p) + ans[8:]).hex())
        elif f == "eod_session":
            x = bytearray(ans)
            if len(x) >= 20 and x[-24 if ansver == 1 else -12 + 1] == 7:
                pass
            # flip the session of the last PDU (the End of Data) if it is one
            off = len(x) - (24 if ansver == 1 else 12)
            if off >= 0 and x[off + 1] == P.EOD:
                x[off + 2] ^= 0x5a
            tape.append("rx:" + bytes(x).hex())
        elif f == "interrupted_reload":
            cut = max(8, len(ans) - r.choice([12, 24, 30]))
            tape.append("rx:" + ans[:cut].hex())
            tape.append(r.choice(["err", "closed"]))
            if r.random() < 0.7:
                tape.append("dt:%d" % (expire + r.choice([1, 1000])))
        elif f == "long_outage":
            tape += ["err", "dt:%d" % (expire + r.choice([1, 7, 100000]))]
            for _ in range(r.randrange(0, 3)):
                openq.append("err")
        elif f == "send_fail":
            sendq.append(r.choice(["err", "block", "part:1", "part:5"]))
            tape.append("block")
        elif f == "open_fail":
            openq += ["ok"] * r.randrange(0, 2) + ["err"] * r.randrange(1, 3)
            tape.append("err")
        elif f == "v0_answer":
            tape += ["rx:" + x.hex() for x in chunk(r, cache.answer(query, 0, ivals))]
        elif f == "notify":
            tape.append("rx:" + P.serial_notify(ansver, cache.sess, cache.serial).hex())
            tape += ["rx:" + x.hex() for x in chunk(r, ans)]
        if r.random() < 0.15:
            tape.append("dt:%d" % r.choice([1, 59, 61, retry, refresh]))
    if prev is not None and len(tape) > prev[0]:
        flush_closed(prev[0], prev[1], prev[2], run_model(script()))
    if r.random() < 0.5:
        # the cache goes silent: the state-machine thread stays alive inside recv and `run stop` below is the real rtr_stop on a
        # running thread (cancel at a cancellation point, join, purge); for the model the script simply ends here
        tape.append("hang")
    ops = script() + ["show", "dump", "run stop", "show", "dump"]
    c.ops = ops
    c.meta = {"used": used, "cache_p": set(cache.p), "cache_k": set(cache.k), "cver": cver, "good_tail": good_tail, "good_from": good_from,
              "refresh": refresh, "expire": expire, "retry": retry, "mut": "fsm"}
    return c
