/*
 * Implementation-side executor of the RTR protocol line protocol (C03 C04 C05 C07 C08 C13 C14, C17 reuse).
 *
 * The real packets.c and rtr.c are #included (their static functions and the real state machine
 * run unchanged), every other file of /repo is linked as compiled from the working tree.
 * The transport is a scripted `struct tr_socket`, time is a fake clock (clock_gettime / sleep are
 * defined here), so the real rtr_fsm_start runs deterministically in its own thread and parks
 * inside recv() when the input tape is exhausted.
 */
#define _GNU_SOURCE
#include <pthread.h>
/* In runs with a live stop (`stopat K`) the debug output of packets.c / rtr.c is switched off, as in a production build (NDEBUG):
 * a write to stderr is a cancellation point, and where the state-machine thread can be cancelled must not depend on diagnostics.
 * Every other run prints (and thereby checks the arguments of) the debug lines as before. */
#include <stdbool.h>
#include "rtrlib/lib/log_private.h"
static bool dbg_quiet;
#define lrtr_dbg(...) (dbg_quiet ? (void)0 : lrtr_dbg(__VA_ARGS__))
#include "rtrlib/rtr/packets.c"
#undef MGR_DBG1
/* rtr_stop() cancels and joins the state-machine thread; when the script has already ended the
 * thread (and the harness has joined it) these two calls must not be repeated */
static int h_joined;
static int h_cancel(pthread_t t);
static int h_join(pthread_t t, void **r);
#define pthread_cancel(t) h_cancel(t)
#define pthread_join(t, r) h_join(t, r)
#ifdef XTRACE
#include "xtrace.h"          /* translator validation: calls made by the code of rtr.c are logged (tools/xtracecheck.py) */
#endif
#include "rtrlib/rtr/rtr.c"
#ifdef XTRACE
#include "xtrace_undef.h"
#endif
#undef pthread_cancel
#undef pthread_join
#undef lrtr_dbg

static int h_cancel(pthread_t t)
{
	return h_joined ? 0 : pthread_cancel(t);
}

/* live stop in the middle of a transport call (`stopat K`): rtr_stop has done everything that precedes the join; the state-machine
 * thread, parked inside that call, is released now and runs on while rtr_stop waits for it */
static void (*h_before_join)(void);

static int h_join(pthread_t t, void **r)
{
	if (!h_joined && h_before_join)
		h_before_join();
	return h_joined ? 0 : pthread_join(t, r);
}

#include "rtrlib/pfx/trie/trie-pfx.h"
#include "rtrlib/spki/hashtable/ht-spkitable_private.h"

#include <ctype.h>
#include <errno.h>
#include <pthread.h>
#include <stdarg.h>
#include <stdbool.h>
#include <stdio.h>
#include <stdlib.h>
#include <string.h>
#include <time.h>

/* ------------------------------------------------------------------ fake time */
static long long fake_now = 1000;

int clock_gettime(clockid_t id, struct timespec *ts)
{
	(void)id;
	ts->tv_sec = (time_t)fake_now;
	ts->tv_nsec = 0;
	return 0;
}

static void tracef(const char *fmt, ...);

unsigned int sleep(unsigned int s)
{
	tracef("Z %u", s);
	fake_now += s;
	return 0;
}

/* ------------------------------------------------------------------ trace */
static char *trace;
static size_t trace_len, trace_cap;

static void tracef(const char *fmt, ...)
{
	char buf[16384];
	va_list ap;
	int n;

	va_start(ap, fmt);
	n = vsnprintf(buf, sizeof(buf), fmt, ap);
	va_end(ap);
	if (n < 0)
		return;
	if ((size_t)n >= sizeof(buf)) {
		/* a line longer than the stack buffer (table dumps with hundreds of records): format it straight into the trace */
		if (trace_len + n + 2 > trace_cap) {
			trace_cap = (trace_len + n + 2) * 2;
			trace = realloc(trace, trace_cap);
		}
		va_start(ap, fmt);
		vsnprintf(trace + trace_len, (size_t)n + 1, fmt, ap);
		va_end(ap);
		trace_len += n;
		trace[trace_len++] = '\n';
		trace[trace_len] = 0;
		return;
	}
	if (trace_len + n + 2 > trace_cap) {
		trace_cap = (trace_len + n + 2) * 2;
		trace = realloc(trace, trace_cap);
	}
	memcpy(trace + trace_len, buf, n);
	trace_len += n;
	trace[trace_len++] = '\n';
	trace[trace_len] = 0;
}

static void flush_trace(void)
{
	if (trace_len)
		fwrite(trace, 1, trace_len, stdout);
	trace_len = 0;
}

/* ------------------------------------------------------------------ scripted transport */
enum evk { EV_RX, EV_ERR, EV_BLOCK, EV_INTR, EV_CLOSED, EV_DT, EV_HANG };
struct ev {
	enum evk k;
	unsigned char *data;
	size_t len, off;
	long long n;
};

#define QMAX 8192
static struct ev tape[QMAX];
static int tape_head, tape_tail;

enum sk { S_ALL, S_PART, S_ERR, S_BLOCK, S_DT /* `dt:N`: N seconds pass inside the write call that takes the next outcome */ };
struct sev {
	enum sk k;
	long long n;
};
static struct sev sendq[QMAX];
static int sq_head, sq_tail;
static int openq[QMAX];
static int oq_head, oq_tail;

static pthread_mutex_t mu = PTHREAD_MUTEX_INITIALIZER;
static pthread_cond_t cv_parked = PTHREAD_COND_INITIALIZER;
static pthread_cond_t cv_resume = PTHREAD_COND_INITIALIZER;
static bool parked;       /* the FSM thread has seen the end of the tape (stop request) */
static bool hanging;
static volatile bool stop_called;
static volatile int after_stop;
static bool threaded;     /* a run through rtr_start is active */
static bool direct_eof;   /* in direct (non-threaded) runs an empty tape answers TR_ERROR once */

/* ---- `stopat K`: the K-th transport call (open / send / recv counted together) of the next `run fsm` is the one during which
 * rtr_stop() is called from the main thread.  The state-machine thread parks at the entry of that call and hands the run back
 * (as `hang` does); `run stop` then runs the real rtr_stop, and when that reaches pthread_join the parked call is released and
 * completes NORMALLY with whatever the script holds next (the data had arrived, the write is accepted): what the thread does
 * between the stop request and its exit is the implementation's business.  If cancellation is enabled at that call site the
 * thread ends inside the call, exactly as in a blocking recv. */
static int stop_at_call, call_no;
static bool stop_at_join;
static bool w_timeout;    /* `sendall`: write calls are traced with the timeout they were given (`V` lines) */

static void unlock_mu(void *p);

static void release_parked_call(void)
{
	pthread_mutex_lock(&mu);
	stop_at_join = true;
	pthread_cond_broadcast(&cv_resume);
	pthread_mutex_unlock(&mu);
}

static void transport_call(const char *what)
{
	if (!threaded || !stop_at_call || ++call_no != stop_at_call)
		return;
	tracef("X stop-request during transport call %d (%s)", call_no, what);
	int oldstate;

	pthread_mutex_lock(&mu);
	hanging = true;
	parked = true;
	pthread_cond_signal(&cv_parked);
	/* the stop request arrives after the call has passed its last cancellation point (the data is there, the call is about to
	 * return): waiting here must not be one (a stop that finds the thread blocked at a cancellation point is `hang`) */
	pthread_setcancelstate(PTHREAD_CANCEL_DISABLE, &oldstate);
	while (!stop_at_join)
		pthread_cond_wait(&cv_resume, &mu);
	pthread_mutex_unlock(&mu);
	pthread_setcancelstate(oldstate, &oldstate);
}

/* ---- `allocfail K`: the K-th allocation request of the library during the next `run sync` is refused (lrtr_set_alloc_functions) */
static long alloc_fail_at, alloc_reqs;
static bool alloc_refused;

static void *h_malloc(size_t n)
{
	if (alloc_fail_at && ++alloc_reqs == alloc_fail_at) {
		alloc_refused = true;
		return NULL;
	}
	return malloc(n);
}

static void *h_realloc(void *p, size_t n)
{
	if (alloc_fail_at && ++alloc_reqs == alloc_fail_at) {
		alloc_refused = true;
		return NULL;
	}
	return realloc(p, n);
}

static void h_free(void *p)
{
	free(p);
}

static struct pfx_table pfxt;
static struct spki_table spkit;
static struct rtr_socket sock;
static struct tr_socket trs;
static struct rtr_socket others[4];

static const char *hexd = "0123456789abcdef";

static void hexstr(char *out, const unsigned char *p, size_t n)
{
	for (size_t i = 0; i < n; i++) {
		out[2 * i] = hexd[p[i] >> 4];
		out[2 * i + 1] = hexd[p[i] & 15];
	}
	out[2 * n] = 0;
}

static int srcid(const struct rtr_socket *s)
{
	if (s == &sock)
		return 0;
	if (s >= others && s < others + 4)
		return (int)(s - others) + 1;
	return 99;
}

/* sorted dumps */
struct strlist {
	char **v;
	size_t n, cap;
};

static void sl_add(struct strlist *l, const char *s)
{
	if (l->n == l->cap) {
		l->cap = l->cap ? l->cap * 2 : 64;
		l->v = realloc(l->v, l->cap * sizeof(char *));
	}
	l->v[l->n++] = strdup(s);
}

static int cmpstr(const void *a, const void *b)
{
	return strcmp(*(char *const *)a, *(char *const *)b);
}

static void pfx_cb(const struct pfx_record *r, void *data)
{
	char b[160];

	if (r->prefix.ver == LRTR_IPV4)
		snprintf(b, sizeof(b), "4:%08x/%u-%u:%u:%d", r->prefix.u.addr4.addr, r->min_len, r->max_len, r->asn,
			 srcid(r->socket));
	else
		snprintf(b, sizeof(b), "6:%08x%08x%08x%08x/%u-%u:%u:%d", r->prefix.u.addr6.addr[0],
			 r->prefix.u.addr6.addr[1], r->prefix.u.addr6.addr[2], r->prefix.u.addr6.addr[3], r->min_len,
			 r->max_len, r->asn, srcid(r->socket));
	sl_add(data, b);
}

/* ---- C09/C10: the update callbacks as a change log.  A shadow set per table is maintained from the callbacks only;
 * at every dump it must equal the table.  Nothing is printed while they agree (the model prints nothing either). */
static struct strlist cb_pfx, cb_key;
static char cb_bad[400];

/* hashes of the strings of a shadow set, kept in step with it (the scan compares hashes first: responses of 2^16 PDUs) */
struct hashlist {
	uint32_t *h;
	size_t cap;
};
static struct hashlist cb_pfx_h, cb_key_h;

static uint32_t str_hash(const char *s)
{
	uint32_t h = 2166136261u;

	for (; *s; s++)
		h = (h ^ (uint8_t)*s) * 16777619u;
	return h;
}

static void shadow_apply(struct strlist *l, const char *what, const char *s, bool added)
{
	size_t i;
	struct hashlist *hl = l == &cb_pfx ? &cb_pfx_h : &cb_key_h;
	const uint32_t hs = str_hash(s);

	for (i = 0; i < l->n; i++)
		if (hl->h[i] == hs && !strcmp(l->v[i], s))
			break;
	if (added) {
		if (i < l->n && !cb_bad[0]) {
			snprintf(cb_bad, sizeof(cb_bad), "%s announced twice by the callback: %.300s", what, s);
		} else if (i == l->n) {
			sl_add(l, s);
			if (l->n > hl->cap) {
				hl->cap = 2 * l->n + 64;
				hl->h = realloc(hl->h, hl->cap * sizeof(uint32_t));
			}
			hl->h[l->n - 1] = hs;
		}
	} else {
		if (i == l->n) {
			if (!cb_bad[0])
				snprintf(cb_bad, sizeof(cb_bad), "%s reported removed but not in the log's set: %.300s", what, s);
		} else {
			free(l->v[i]);
			l->v[i] = l->v[--l->n];
			hl->h[i] = hl->h[l->n];
		}
	}
}

static void pfx_update_cb(struct pfx_table *t, const struct pfx_record rec, const bool added)
{
	struct strlist one = {0};

	(void)t;
	pfx_cb(&rec, &one);
	shadow_apply(&cb_pfx, "prefix", one.v[0], added);
	free(one.v[0]);
	free(one.v);
}

static void key_str(char *b, size_t n, const uint8_t *ski, uint32_t asn, const uint8_t *spki, const struct rtr_socket *so)
{
	char h1[2 * SKI_SIZE + 1], h2[2 * SPKI_SIZE + 1];

	hexstr(h1, ski, SKI_SIZE);
	hexstr(h2, spki, SPKI_SIZE);
	snprintf(b, n, "%u:%s:%s:%d", asn, h1, h2, srcid(so));
}

static void spki_update_cb(struct spki_table *t, const struct spki_record rec, const bool added)
{
	char b[400];

	(void)t;
	key_str(b, sizeof(b), rec.ski, rec.asn, rec.spki, rec.socket);
	shadow_apply(&cb_key, "router key", b, added);
}

static void shadow_check(const char *what, struct strlist *shadow, struct strlist *table)
{
	bool same = shadow->n == table->n;

	if (shadow->n) {
		struct hashlist *hl = shadow == &cb_pfx ? &cb_pfx_h : &cb_key_h;

		qsort(shadow->v, shadow->n, sizeof(char *), cmpstr);
		for (size_t i = 0; i < shadow->n; i++)
			hl->h[i] = str_hash(shadow->v[i]);
	}
	for (size_t i = 0; same && i < table->n; i++)
		same = !strcmp(shadow->v[i], table->v[i]);
	if (!same && !cb_bad[0])
		snprintf(cb_bad, sizeof(cb_bad), "%s table holds %zu records, replaying the callbacks gives %zu", what, table->n, shadow->n);
	if (cb_bad[0]) {
		tracef("X cblog %s", cb_bad);
		cb_bad[0] = 0;
	}
}

static void shadow_reset(void)
{
	for (size_t i = 0; i < cb_pfx.n; i++)
		free(cb_pfx.v[i]);
	for (size_t i = 0; i < cb_key.n; i++)
		free(cb_key.v[i]);
	cb_pfx.n = cb_key.n = 0;
	cb_bad[0] = 0;
}

/* key entries are enumerated through the table's own list (private header) */
static void dump_tables(const char *tag)
{
	struct strlist l = {0};
	size_t cap = 64, len = 0;
	char *line = malloc(cap);

	pfx_table_for_each_ipv4_record(&pfxt, pfx_cb, &l);
	pfx_table_for_each_ipv6_record(&pfxt, pfx_cb, &l);
	if (l.n)
		qsort(l.v, l.n, sizeof(char *), cmpstr);
	shadow_check("prefix", &cb_pfx, &l);
	len = (size_t)snprintf(line, cap, "%s pfx", tag);
	for (size_t i = 0; i < l.n; i++) {
		size_t need = len + strlen(l.v[i]) + 2;

		if (need > cap) {
			cap = need * 2;
			line = realloc(line, cap);
		}
		len += (size_t)sprintf(line + len, " %s", l.v[i]);
		free(l.v[i]);
	}
	free(l.v);
	tracef("%s", line);

	struct strlist k = {0};

	pthread_rwlock_rdlock(&spkit.lock);
	for (tommy_node *n = tommy_list_head(&spkit.list); n; n = n->next) {
		struct key_entry_mirror {
			uint8_t ski[SKI_SIZE];
			uint32_t asn;
			uint8_t spki[SPKI_SIZE];
			const struct rtr_socket *socket;
		} *e = n->data;
		char b[400], h1[2 * SKI_SIZE + 1], h2[2 * SPKI_SIZE + 1];

		hexstr(h1, e->ski, SKI_SIZE);
		hexstr(h2, e->spki, SPKI_SIZE);
		snprintf(b, sizeof(b), "%u:%s:%s:%d", e->asn, h1, h2, srcid(e->socket));
		sl_add(&k, b);
	}
	pthread_rwlock_unlock(&spkit.lock);
	if (k.n)
		qsort(k.v, k.n, sizeof(char *), cmpstr);
	shadow_check("router-key", &cb_key, &k);
	len = (size_t)snprintf(line, cap, "%s keys", tag);
	for (size_t i = 0; i < k.n; i++) {
		size_t need = len + strlen(k.v[i]) + 2;

		if (need > cap) {
			cap = need * 2;
			line = realloc(line, cap);
		}
		len += (size_t)sprintf(line + len, " %s", k.v[i]);
		free(k.v[i]);
	}
	free(k.v);
	tracef("%s", line);
	free(line);
}

static void unlock_mu(void *p)
{
	(void)p;
	pthread_mutex_unlock(&mu);
}

static int m_open(void *s)
{
	int rc = TR_SUCCESS;

	(void)s;
	transport_call("open");
	if (oq_head < oq_tail)
		rc = openq[oq_head++];
	dump_tables("T");
	tracef("O %d %lld %u", rc, fake_now, sock.expire_interval);
	return rc;
}

static void m_close(void *s)
{
	(void)s;
	tracef("C");
}

static void m_free(struct tr_socket *s)
{
	(void)s;
}

static const char *m_ident(void *s)
{
	(void)s;
	return "mock";
}

static int m_recv(const void *s, void *buf, const size_t len, const time_t timeout)
{
	(void)s;
	transport_call("recv");
	for (;;) {
		if (tape_head == tape_tail) {
			if (!threaded) {
				/* direct call of rtr_sync / rtr_wait_for_sync: the script is over */
				tracef("R %zu %lld -> eof", len, (long long)timeout);
				direct_eof = true;
				return TR_ERROR;
			}
			/* end of script in a threaded run: a stop request arrives (what rtr_stop does first),
			 * the call fails, the state machine unwinds and its thread exits */
			tracef("R %zu %lld -> eof", len, (long long)timeout);
			sock.state = RTR_SHUTDOWN;
			pthread_mutex_lock(&mu);
			parked = true;
			pthread_cond_signal(&cv_parked);
			pthread_mutex_unlock(&mu);
			return TR_ERROR;
		}
		struct ev *e = &tape[tape_head];

		switch (e->k) {
		case EV_DT:
			fake_now += e->n;
			tape_head++;
			continue;
		case EV_RX: {
			size_t n = e->len - e->off;
			char *h;

			if (n > len)
				n = len;
			memcpy(buf, e->data + e->off, n);
			h = malloc(2 * n + 1);
			hexstr(h, e->data + e->off, n);
			tracef("R %zu %lld -> %zu %s", len, (long long)timeout, n, h);
			free(h);
			e->off += n;
			if (e->off == e->len) {
				free(e->data);
				tape_head++;
			}
			return (int)n;
		}
		case EV_ERR:
			tape_head++;
			tracef("R %zu %lld -> -1", len, (long long)timeout);
			return TR_ERROR;
		case EV_BLOCK:
			tape_head++;
			tracef("R %zu %lld -> -2", len, (long long)timeout);
			if (timeout > 0)
				fake_now += timeout;
			return TR_WOULDBLOCK;
		case EV_INTR:
			tape_head++;
			tracef("R %zu %lld -> -3", len, (long long)timeout);
			return TR_INTR;
		case EV_CLOSED:
			tape_head++;
			tracef("R %zu %lld -> -4", len, (long long)timeout);
			return TR_CLOSED;
		case EV_HANG:
			/* the cache goes silent and the script ends here: the receive call blocks.  The run is handed back to the
			 * main thread WITH THE STATE MACHINE THREAD ALIVE inside recv, so that a following `run stop` exercises
			 * the real rtr_stop on a running thread (state change, pthread_cancel at this cancellation point, join,
			 * purge).  For the model this is the end of the script. */
			if (!threaded) {
				tape_head = tape_tail;
				continue;
			}
			tracef("R %zu %lld -> eof", len, (long long)timeout);
			tape_head = tape_tail;
			sock.state = RTR_SHUTDOWN;                 /* as at the end of a script: the stop request has arrived */
			pthread_mutex_lock(&mu);
			hanging = true;
			parked = true;
			pthread_cond_signal(&cv_parked);
			pthread_mutex_unlock(&mu);
			for (int spins = 0;; spins++) {
				struct timespec ts = {0, 20 * 1000 * 1000};

				nanosleep(&ts, NULL);              /* cancellation point */
				if (stop_called && ++after_stop > 10)
					return TR_ERROR;           /* cancellation is disabled at this call site: fail the call, the thread unwinds */
				(void)spins;
			}
		}
	}
}

static int m_send(const void *s, const void *pdu, const size_t len, const time_t timeout)
{
	struct sev e = {S_ALL, 0};
	size_t n = len;
	char *h;

	(void)s;
	(void)timeout;
	transport_call("send");
	/* time that passes inside this call (a write that blocks before it accepts anything / part of the data) */
	while (sq_head < sq_tail && sendq[sq_head].k == S_DT)
		fake_now += sendq[sq_head++].n;
	if (sq_head < sq_tail)
		e = sendq[sq_head++];
	if (w_timeout) {
		/* `sendall`: the same outcomes, traced with the timeout the call was given */
		if (e.k == S_ERR || e.k == S_BLOCK) {
			tracef("V %zu %lld -> %d", len, (long long)timeout, e.k == S_ERR ? -1 : -2);
			return e.k == S_ERR ? TR_ERROR : TR_WOULDBLOCK;
		}
		if (e.k == S_PART) {
			if ((size_t)e.n < n)
				n = (size_t)e.n;
			if (n == 0)
				n = 1;
		}
		h = malloc(2 * n + 1);
		hexstr(h, pdu, n);
		tracef("V %zu %lld -> %zu %s", len, (long long)timeout, n, h);
		free(h);
		return (int)n;
	}
	switch (e.k) {
	case S_ERR:
		tracef("W %zu -> -1", len);
		return TR_ERROR;
	case S_BLOCK:
		tracef("W %zu -> -2", len);
		return TR_WOULDBLOCK;
	case S_PART:
		if ((size_t)e.n < n)
			n = (size_t)e.n;
		if (n == 0)
			n = 1;
		break;
	default:
		break;
	}
	h = malloc(2 * n + 1);
	hexstr(h, pdu, n);
	tracef("W %zu -> %zu %s", len, n, h);
	free(h);
	return (int)n;
}

static const char *state_name(enum rtr_socket_state st)
{
	static const char *names[] = {"CONNECTING", "ESTABLISHED", "RESET", "SYNC", "FAST_RECONNECT",
				      "ERROR_NO_DATA_AVAIL", "ERROR_NO_INCR_UPDATE_AVAIL", "ERROR_FATAL",
				      "ERROR_TRANSPORT", "SHUTDOWN", "CLOSED"};
	if ((int)st < 0 || (int)st > 10)
		return "?";
	return names[st];
}

static void count_own_cb(const struct pfx_record *r, void *data)
{
	if (r->socket == &sock)
		(*(unsigned int *)data)++;
}

static unsigned int count_own(void)
{
	unsigned int n = 0;

	pfx_table_for_each_ipv4_record(&pfxt, count_own_cb, &n);
	pfx_table_for_each_ipv6_record(&pfxt, count_own_cb, &n);
	pthread_rwlock_rdlock(&spkit.lock);
	for (tommy_node *k = tommy_list_head(&spkit.list); k; k = k->next) {
		struct {
			uint8_t ski[SKI_SIZE];
			uint32_t asn;
			uint8_t spki[SPKI_SIZE];
			const struct rtr_socket *socket;
		} *e = k->data;
		if (e->socket == &sock)
			n++;
	}
	pthread_rwlock_unlock(&spkit.lock);
	return n;
}

static void state_cb(const struct rtr_socket *s, const enum rtr_socket_state st, void *a, void *b)
{
	(void)s;
	(void)a;
	(void)b;
	tracef("S %s %lld %u", state_name(st), fake_now, count_own());
}

/* ------------------------------------------------------------------ parsing helpers */
static int hexval(int c)
{
	if (c >= '0' && c <= '9')
		return c - '0';
	if (c >= 'a' && c <= 'f')
		return c - 'a' + 10;
	if (c >= 'A' && c <= 'F')
		return c - 'A' + 10;
	return -1;
}

static unsigned char *parse_hex(const char *s, size_t *n)
{
	size_t l = strlen(s);
	unsigned char *b;

	if (l % 2)
		return NULL;
	b = malloc(l / 2 + 1);
	for (size_t i = 0; i < l / 2; i++) {
		int a = hexval(s[2 * i]), c = hexval(s[2 * i + 1]);

		if (a < 0 || c < 0) {
			free(b);
			return NULL;
		}
		b[i] = (unsigned char)(a * 16 + c);
	}
	*n = l / 2;
	return b;
}

static bool parse_ll(const char *s, long long *out)
{
	char *end;

	if (!*s)
		return false;
	errno = 0;
	*out = strtoll(s, &end, 10);
	return *end == 0 && errno == 0;
}

static void show_sock(void)
{
	tracef("sock state=%s ver=%u sess=%u serial=%u req=%d lu=%lld reset=%d hasrecv=%d refresh=%u retry=%u expire=%u now=%lld",
	       state_name(sock.state), sock.version, sock.session_id, sock.serial_number, sock.request_session_id,
	       (long long)sock.last_update, sock.is_resetting, sock.has_received_pdus, sock.refresh_interval,
	       sock.retry_interval, sock.expire_interval, fake_now);
}


static void wait_parked(void)
{
	pthread_mutex_lock(&mu);
	while (!parked)
		pthread_cond_wait(&cv_parked, &mu);
	pthread_mutex_unlock(&mu);
}

static bool tables_live;

static void fresh_tables(void)
{
	if (tables_live) {
		pfx_table_free(&pfxt);
		spki_table_free(&spkit);
	}
	pfx_table_init(&pfxt, pfx_update_cb);
	spki_table_init(&spkit, spki_update_cb);
	shadow_reset();
	tables_live = true;
}

int main(void)
{
	char *line = NULL;
	size_t cap = 0;

	setvbuf(stdout, NULL, _IOLBF, 0);
	trs.socket = NULL;
	trs.open_fp = m_open;
	trs.close_fp = m_close;
	trs.free_fp = m_free;
	trs.send_fp = m_send;
	trs.recv_fp = m_recv;
	trs.ident_fp = m_ident;

	while (getline(&line, &cap, stdin) > 0) {
		char *w[4096];
		int n = 0;

		for (char *tok = strtok(line, " \t\r\n"); tok && n < 4096; tok = strtok(NULL, " \t\r\n"))
			w[n++] = tok;
		if (n == 0) {
			puts("bad-op");
			continue;
		}
		if (!strcmp(w[0], "sock") && n == 5) {
			long long a, b, c, d;
			int rc;

			if (threaded || !parse_ll(w[1], &a) || !parse_ll(w[2], &b) || !parse_ll(w[3], &c) ||
			    !parse_ll(w[4], &d) || a < 0 || b < 0 || c < 0 || a > 0xffffffffLL || b > 0xffffffffLL ||
			    c > 0xffffffffLL || d < 0 || d > 3) {
				puts("bad-op");
				continue;
			}
			fresh_tables();
			tape_head = tape_tail = sq_head = sq_tail = oq_head = oq_tail = 0;
			fake_now = 1000;
			stop_at_call = 0;
			dbg_quiet = false;
			if (alloc_fail_at) {
				alloc_fail_at = 0;
				lrtr_set_alloc_functions(malloc, realloc, free);
			}
			memset(&sock, 0, sizeof(sock));
			rc = rtr_init(&sock, &trs, &pfxt, &spkit, (unsigned int)a, (unsigned int)b, (unsigned int)c,
				      (enum rtr_interval_mode)d, state_cb, NULL, NULL);
			printf("%d\n", rc);
		} else if (!strcmp(w[0], "pre") && n == 8 && !strcmp(w[1], "pfx")) {
			struct pfx_record r;
			long long len, ml, asn, src;
			size_t hn;
			unsigned char *hb = parse_hex(w[3], &hn);

			memset(&r, 0, sizeof(r));
			if (!hb || !parse_ll(w[4], &len) || !parse_ll(w[5], &ml) || !parse_ll(w[6], &asn) ||
			    !parse_ll(w[7], &src) || src < 0 || src > 4 || len < 0 || len > 255 || ml < 0 || ml > 255 ||
			    asn < 0 || asn > 0xffffffffLL || (strcmp(w[2], "4") && strcmp(w[2], "6")) ||
			    hn != (w[2][0] == '4' ? 4u : 16u)) {
				free(hb);
				puts("bad-op");
				continue;
			}
			if (w[2][0] == '4') {
				r.prefix.ver = LRTR_IPV4;
				r.prefix.u.addr4.addr = (uint32_t)hb[0] << 24 | hb[1] << 16 | hb[2] << 8 | hb[3];
			} else {
				r.prefix.ver = LRTR_IPV6;
				for (int i = 0; i < 4; i++)
					r.prefix.u.addr6.addr[i] = (uint32_t)hb[4 * i] << 24 | hb[4 * i + 1] << 16 |
								   hb[4 * i + 2] << 8 | hb[4 * i + 3];
			}
			free(hb);
			r.min_len = (uint8_t)len;
			r.max_len = (uint8_t)ml;
			r.asn = (uint32_t)asn;
			r.socket = src == 0 ? &sock : &others[src - 1];
			printf("%d\n", pfx_table_add(&pfxt, &r));
		} else if (!strcmp(w[0], "pre") && n == 6 && !strcmp(w[1], "key")) {
			struct spki_record e;
			long long asn, src;
			size_t n1, n2;
			unsigned char *ski = parse_hex(w[3], &n1), *spki = parse_hex(w[4], &n2);

			memset(&e, 0, sizeof(e));
			if (!ski || !spki || n1 != SKI_SIZE || n2 != SPKI_SIZE || !parse_ll(w[2], &asn) ||
			    !parse_ll(w[5], &src) || src < 0 || src > 4 || asn < 0 || asn > 0xffffffffLL) {
				free(ski);
				free(spki);
				puts("bad-op");
				continue;
			}
			e.asn = (uint32_t)asn;
			memcpy(e.ski, ski, SKI_SIZE);
			memcpy(e.spki, spki, SPKI_SIZE);
			e.socket = src == 0 ? &sock : &others[src - 1];
			free(ski);
			free(spki);
			printf("%d\n", spki_table_add_entry(&spkit, &e));
		} else if (!strcmp(w[0], "set") && n == 3) {
			long long v;

			if (!parse_ll(w[2], &v)) {
				puts("bad-op");
				continue;
			}
			if (!strcmp(w[1], "state") && v >= 0 && v <= 10)
				sock.state = (enum rtr_socket_state)v;
			else if (!strcmp(w[1], "version") && v >= 0 && v <= 1)
				sock.version = (unsigned int)v;
			else if (!strcmp(w[1], "session") && v >= 0 && v <= 65535)
				sock.session_id = (uint32_t)v;
			else if (!strcmp(w[1], "serial") && v >= 0 && v <= 0xffffffffLL)
				sock.serial_number = (uint32_t)v;
			else if (!strcmp(w[1], "reqsess") && (v == 0 || v == 1))
				sock.request_session_id = v;
			else if (!strcmp(w[1], "lastupdate") && v >= 0)
				sock.last_update = (time_t)v;
			else if (!strcmp(w[1], "resetting") && (v == 0 || v == 1))
				sock.is_resetting = v;
			else if (!strcmp(w[1], "hasrecv") && (v == 0 || v == 1))
				sock.has_received_pdus = v;
			else if (!strcmp(w[1], "now") && v >= 0)
				fake_now = v;
			else {
				puts("bad-op");
				continue;
			}
			puts("ok");
		} else if (!strcmp(w[0], "tape")) {
			bool ok = true;

			for (int i = 1; i < n && ok; i++) {
				struct ev e = {0};

				if (tape_tail >= QMAX) {
					ok = false;
					break;
				}
				if (!strncmp(w[i], "rx:", 3)) {
					e.k = EV_RX;
					e.data = parse_hex(w[i] + 3, &e.len);
					if (!e.data || e.len == 0) {
						free(e.data);
						ok = false;
						break;
					}
				} else if (!strcmp(w[i], "err")) {
					e.k = EV_ERR;
				} else if (!strcmp(w[i], "block")) {
					e.k = EV_BLOCK;
				} else if (!strcmp(w[i], "intr")) {
					e.k = EV_INTR;
				} else if (!strcmp(w[i], "closed")) {
					e.k = EV_CLOSED;
				} else if (!strcmp(w[i], "hang")) {
					e.k = EV_HANG;
				} else if (!strncmp(w[i], "dt:", 3) && parse_ll(w[i] + 3, &e.n) && e.n >= 0) {
					e.k = EV_DT;
				} else {
					ok = false;
					break;
				}
				tape[tape_tail++] = e;
			}
			puts(ok ? "ok" : "bad-op");
		} else if (!strcmp(w[0], "sendq")) {
			bool ok = true;

			for (int i = 1; i < n && ok; i++) {
				struct sev e = {S_ALL, 0};

				if (sq_tail >= QMAX) {
					ok = false;
					break;
				}
				if (!strcmp(w[i], "all"))
					e.k = S_ALL;
				else if (!strncmp(w[i], "part:", 5) && parse_ll(w[i] + 5, &e.n) && e.n >= 1)
					e.k = S_PART;
				else if (!strcmp(w[i], "err"))
					e.k = S_ERR;
				else if (!strcmp(w[i], "block"))
					e.k = S_BLOCK;
				else if (!strncmp(w[i], "dt:", 3) && parse_ll(w[i] + 3, &e.n) && e.n >= 0)
					e.k = S_DT;
				else {
					ok = false;
					break;
				}
				sendq[sq_tail++] = e;
			}
			puts(ok ? "ok" : "bad-op");
		} else if (!strcmp(w[0], "openq")) {
			bool ok = true;

			for (int i = 1; i < n && ok; i++) {
				if (oq_tail >= QMAX)
					ok = false;
				else if (!strcmp(w[i], "ok"))
					openq[oq_tail++] = TR_SUCCESS;
				else if (!strcmp(w[i], "err"))
					openq[oq_tail++] = TR_ERROR;
				else
					ok = false;
			}
			puts(ok ? "ok" : "bad-op");
		} else if (!strcmp(w[0], "run") && n == 2 && !strcmp(w[1], "sync") && !threaded) {
			int rc = rtr_sync(&sock);

			tracef("ret %d", rc);
			flush_trace();
			puts("end");
		} else if (!strcmp(w[0], "run") && n == 2 && !strcmp(w[1], "wait") && !threaded) {
			int rc = rtr_wait_for_sync(&sock);

			tracef("ret %d", rc);
			flush_trace();
			puts("end");
		} else if (!strcmp(w[0], "run") && n == 2 && !strcmp(w[1], "fsm")) {
			if (threaded || sock.state == RTR_SHUTDOWN) {
				puts("bad-op");
				continue;
			}
			parked = false;
			threaded = true;
			h_joined = 0;
			call_no = 0;
			stop_at_join = false;
			h_before_join = release_parked_call;
			/* cleared BEFORE the thread exists: the thread may reach a `hang` event before this thread runs again (on a
			 * loaded machine the new thread often runs first); clearing the flag afterwards made the join below wait for a
			 * thread that waits for rtr_stop */
			hanging = false;
			if (rtr_start(&sock) != RTR_SUCCESS) {
				threaded = false;
				puts("bad-op");
				continue;
			}
			wait_parked();
			if (!hanging) {
				pthread_join(sock.thread_id, NULL);
				h_joined = 1;
			}
			flush_trace();
			puts("end");
		} else if (!strcmp(w[0], "run") && n == 2 && !strcmp(w[1], "stop") && threaded) {
			after_stop = 0;
			stop_called = true;
			rtr_stop(&sock);
			stop_called = false;
			hanging = false;
			threaded = false;
			parked = false;
			tape_head = tape_tail;
			stop_at_call = 0;
			stop_at_join = false;
			dbg_quiet = false;
			flush_trace();
			puts("end");
		} else if (!strcmp(w[0], "stopat") && n == 2 && !threaded) {
			long long k;

			if (!parse_ll(w[1], &k) || k < 0 || k > 1000000) {
				puts("bad-op");
				continue;
			}
			stop_at_call = (int)k;
			dbg_quiet = k != 0;
			puts("ok");
		} else if (!strcmp(w[0], "allocfail") && n == 2 && !threaded) {
			long long k;

			if (!parse_ll(w[1], &k) || k < 0) {
				puts("bad-op");
				continue;
			}
			/* k = 0: back to the C library's allocator */
			alloc_fail_at = k;
			alloc_reqs = 0;
			alloc_refused = false;
			if (k)
				lrtr_set_alloc_functions(h_malloc, h_realloc, h_free);
			else
				lrtr_set_alloc_functions(malloc, realloc, free);
			puts("ok");
		} else if (!strcmp(w[0], "run") && n == 2 && !strcmp(w[1], "syncaf") && !threaded) {
			/* rtr_sync with the armed allocation failure; the allocator goes back to normal right after the call */
			int rc;

			alloc_reqs = 0;
			alloc_refused = false;
			rc = rtr_sync(&sock);
			tracef("A %ld %d", alloc_reqs, (int)alloc_refused);
			alloc_fail_at = 0;
			lrtr_set_alloc_functions(malloc, realloc, free);
			tracef("ret %d", rc);
			flush_trace();
			puts("end");
		} else if (!strcmp(w[0], "sendall") && n >= 4 && !threaded) {
			/* sendall <now> <timeout> <hex bytes> <outcome>...: the real tr_send_all on a scripted sequence of write outcomes
			 * (all | part:N | err | block, each optionally preceded by dt:N = N seconds pass inside that write call) */
			long long now0, tmo;
			size_t bn;
			unsigned char *bytes = NULL;
			bool ok = parse_ll(w[1], &now0) && parse_ll(w[2], &tmo) && now0 >= 0 && (bytes = parse_hex(w[3], &bn)) && bn > 0;
			int rc;

			sq_head = sq_tail = 0;
			for (int i = 4; i < n && ok; i++) {
				struct sev e = {S_ALL, 0};

				if (!strcmp(w[i], "all"))
					e.k = S_ALL;
				else if (!strncmp(w[i], "part:", 5) && parse_ll(w[i] + 5, &e.n) && e.n >= 1)
					e.k = S_PART;
				else if (!strcmp(w[i], "err"))
					e.k = S_ERR;
				else if (!strcmp(w[i], "block"))
					e.k = S_BLOCK;
				else if (!strncmp(w[i], "dt:", 3) && parse_ll(w[i] + 3, &e.n) && e.n >= 0)
					e.k = S_DT;
				else
					ok = false;
				if (ok)
					sendq[sq_tail++] = e;
			}
			if (!ok) {
				free(bytes);
				sq_head = sq_tail = 0;
				puts("bad-op");
				continue;
			}
			fake_now = now0;
			w_timeout = true;
			rc = tr_send_all(&trs, bytes, bn, (time_t)tmo);
			w_timeout = false;
			sq_head = sq_tail = 0;
			free(bytes);
			tracef("ret %d %lld", rc, fake_now);
			flush_trace();
			puts("end");
		} else if (!strcmp(w[0], "val") && n == 5) {
			struct lrtr_ip_addr a;
			long long len, asn;
			size_t hn;
			unsigned char *hb = parse_hex(w[2], &hn);
			enum pfxv_state st;

			memset(&a, 0, sizeof(a));
			if (!hb || !parse_ll(w[3], &len) || !parse_ll(w[4], &asn) || len < 0 || len > 255 || asn < 0 ||
			    asn > 0xffffffffLL || (strcmp(w[1], "4") && strcmp(w[1], "6")) ||
			    hn != (w[1][0] == '4' ? 4u : 16u)) {
				free(hb);
				puts("bad-op");
				continue;
			}
			if (w[1][0] == '4') {
				a.ver = LRTR_IPV4;
				a.u.addr4.addr = (uint32_t)hb[0] << 24 | hb[1] << 16 | hb[2] << 8 | hb[3];
			} else {
				a.ver = LRTR_IPV6;
				for (int i = 0; i < 4; i++)
					a.u.addr6.addr[i] = (uint32_t)hb[4 * i] << 24 | hb[4 * i + 1] << 16 |
							    hb[4 * i + 2] << 8 | hb[4 * i + 3];
			}
			free(hb);
			if (pfx_table_validate(&pfxt, (uint32_t)asn, &a, (uint8_t)len, &st) != PFX_SUCCESS)
				puts("error");
			else
				puts(st == BGP_PFXV_STATE_VALID ? "VALID" : st == BGP_PFXV_STATE_NOT_FOUND ? "NOTFOUND" : "INVALID");
		} else if (!strcmp(w[0], "show") && n == 1) {
			show_sock();
			flush_trace();
		} else if (!strcmp(w[0], "dump") && n == 1) {
			dump_tables("D");
			flush_trace();
		} else {
			puts("bad-op");
		}
	}
	if (threaded)
		rtr_stop(&sock);
	free(line);
	return 0;
}
