/*
 * Implementation-side executor of the address-text line protocol (C19).
 * Executes the real lrtr_ip_addr_to_str / lrtr_ip_str_to_addr / lrtr_ip_str_cmp (and the two
 * family-specific parsers) of the tree it is linked against, plus the platform's inet_pton.
 *
 *   f4  <8hex> <len>  | f6 <32hex> <len>     -> "<rc> x<bytes written>"  [+ " CANARY" / " UNSTABLE"]
 *   p   x<hexbytes>                          -> "lib=<R> p4=<R> p6=<R>"
 *   p4  x<hexbytes>   | p6 x<hexbytes>       -> "<R>"
 *   cmp <4|6> <hex> x<hexbytes>              -> "true" | "false"
 *   rt4 <8hex>        | rt6 <32hex>          -> "s=x<text> lib=<R> pton=<R>"
 *   <R> = "-" | "4:<8hex>" | "6:<32hex>" | "nondet[<R>|<R>]"
 *
 * Every parse is executed twice, each time on a private stack pre-filled with a different byte
 * pattern: a result that depends on never-written stack memory
 * shows up as "nondet[..|..]" (property clause: the result of parsing depends only on the text).
 * Every formatting call is executed on a buffer of exactly <len> bytes framed by canaries, and a
 * second time on a heap block of exactly <len> bytes (ASan red zones).
 */
#define _GNU_SOURCE
#include "rtrlib/lib/ip_private.h"
#include "rtrlib/lib/ipv4_private.h"
#include "rtrlib/lib/ipv6_private.h"

#include <arpa/inet.h>
#include <stdbool.h>
#include <errno.h>
#include <stdio.h>
#include <stdlib.h>
#include <string.h>

#define CANARY 0xA5
#define FRAME 64
#define MAXLEN 4096
#define LINE_MAX_ (3 * MAXLEN)

static int hexval(int c)
{
	if (c >= '0' && c <= '9')
		return c - '0';
	if (c >= 'a' && c <= 'f')
		return c - 'a' + 10;
	if (c >= 'A' && c <= 'F')
		return c - 'A' + 10;
	return -1;
}

/* "x<hex>" -> NUL-terminated byte string (malloc'd, exact size so that ASan sees over-reads) */
static char *parse_x(const char *w)
{
	size_t n;
	char *s;

	if (w[0] != 'x')
		return NULL;
	w++;
	n = strlen(w);
	if (n % 2)
		return NULL;
	for (size_t i = 0; i < n; i++)
		if (hexval(w[i]) < 0)
			return NULL;
	s = malloc(n / 2 + 1);
	for (size_t i = 0; i < n / 2; i++)
		s[i] = (char)(hexval(w[2 * i]) * 16 + hexval(w[2 * i + 1]));
	s[n / 2] = 0;
	/* the C side sees the string up to the first NUL; shrink the block to exactly that */
	n = strlen(s);
	char *t = malloc(n + 1);

	memcpy(t, s, n + 1);
	free(s);
	return t;
}

static bool parse_a4(const char *h, struct lrtr_ip_addr *a)
{
	if (strlen(h) != 8)
		return false;
	uint32_t v = 0;

	for (int i = 0; i < 8; i++) {
		if (hexval(h[i]) < 0)
			return false;
		v = v << 4 | (uint32_t)hexval(h[i]);
	}
	memset(a, 0, sizeof(*a));
	a->ver = LRTR_IPV4;
	a->u.addr4.addr = v;
	return true;
}

static bool parse_a6(const char *h, struct lrtr_ip_addr *a)
{
	if (strlen(h) != 32)
		return false;
	memset(a, 0, sizeof(*a));
	a->ver = LRTR_IPV6;
	for (int w = 0; w < 4; w++) {
		uint32_t v = 0;

		for (int i = 0; i < 8; i++) {
			if (hexval(h[8 * w + i]) < 0)
				return false;
			v = v << 4 | (uint32_t)hexval(h[8 * w + i]);
		}
		a->u.addr6.addr[w] = v;
	}
	return true;
}

static void res_ip(char *out, size_t n, int rc, const struct lrtr_ip_addr *a)
{
	if (rc != 0)
		snprintf(out, n, "-");
	else if (a->ver == LRTR_IPV4)
		snprintf(out, n, "4:%08x", a->u.addr4.addr);
	else
		snprintf(out, n, "6:%08x%08x%08x%08x", a->u.addr6.addr[0], a->u.addr6.addr[1], a->u.addr6.addr[2],
			 a->u.addr6.addr[3]);
}

/*
 * Private stack: the library call runs (via makecontext/swapcontext) on a stack every byte of
 * which has just been set to a chosen pattern, so "uninitialised" automatic storage of the callee
 * has a known, caller-chosen content.  Patterns keep the top bit clear so that garbage words do not
 * trip the (separate) signed-shift check before the two results can be compared.
 */
#include <ucontext.h>
#if defined(__SANITIZE_ADDRESS__)
#include <sanitizer/common_interface_defs.h>
#define FIBER_START(save, bottom, size) __sanitizer_start_switch_fiber(save, bottom, size)
#define FIBER_FINISH(save, b, s) __sanitizer_finish_switch_fiber(save, b, s)
#else
#define FIBER_START(save, bottom, size) ((void)0)
#define FIBER_FINISH(save, b, s) ((void)0)
#endif
/* automatic storage must live on the (patterned) stack, not in ASan's fake-stack heap */
const char *__asan_default_options(void)
{
	return "detect_stack_use_after_return=0";
}
#define PSTACK (256 * 1024)
#define PAT1 0x11
#define PAT2 0x66

enum which { W_IP, W_V4, W_V6, W_CMP };

static unsigned char *pstack;
static ucontext_t main_ctx, fiber_ctx;
static struct {
	enum which w;
	const char *s;
	struct lrtr_ip_addr *a;
	int ret;
	int err;
} job;
static const void *main_bottom;
static size_t main_size;

static int call_parse(enum which w, const char *s, struct lrtr_ip_addr *a)
{
	switch (w) {
	case W_V4:
		a->ver = LRTR_IPV4;
		return lrtr_ipv4_str_to_addr(s, &a->u.addr4);
	case W_V6:
		a->ver = LRTR_IPV6;
		return lrtr_ipv6_str_to_addr(s, &a->u.addr6);
	case W_CMP:
		return lrtr_ip_str_cmp(a, s) ? 1 : 0;
	default:
		return lrtr_ip_str_to_addr(s, a);
	}
}

static void fiber_main(void)
{
	FIBER_FINISH(NULL, &main_bottom, &main_size);
	/* the conversion depends on the text only: not on what an earlier library call left in errno either */
	errno = job.err;
	job.ret = call_parse(job.w, job.s, job.a);
	FIBER_START(NULL, main_bottom, main_size);
}

static int run_on_pattern(int pat, enum which w, const char *s, struct lrtr_ip_addr *a)
{
	void *fake = NULL;

	if (!pstack)
		pstack = malloc(PSTACK);
	memset(pstack, pat, PSTACK);
	getcontext(&fiber_ctx);
	fiber_ctx.uc_stack.ss_sp = pstack;
	fiber_ctx.uc_stack.ss_size = PSTACK;
	fiber_ctx.uc_link = &main_ctx;
	makecontext(&fiber_ctx, fiber_main, 0);
	job.w = w;
	job.s = s;
	job.a = a;
	job.err = pat == PAT1 ? 0 : ERANGE;
	FIBER_START(&fake, pstack, PSTACK);
	swapcontext(&main_ctx, &fiber_ctx);
	FIBER_FINISH(fake, NULL, NULL);
	return job.ret;
}

/* run the parser twice over differently poisoned stacks */
static void lib_parse(enum which w, const char *s, char *out, size_t n)
{
	struct lrtr_ip_addr a, b;
	char r1[64], r2[64];
	int rc1, rc2;

	memset(&a, 0, sizeof(a));
	memset(&b, 0, sizeof(b));
	rc1 = run_on_pattern(PAT1, w, s, &a);
	rc2 = run_on_pattern(PAT2, w, s, &b);
	res_ip(r1, sizeof(r1), rc1, &a);
	res_ip(r2, sizeof(r2), rc2, &b);
	if (strcmp(r1, r2))
		snprintf(out, n, "nondet[%s|%s]", r1, r2);
	else
		snprintf(out, n, "%s", r1);
}

static void pton(int af, const char *s, char *out, size_t n)
{
	unsigned char b[16];

	if (inet_pton(af, s, b) != 1) {
		snprintf(out, n, "-");
		return;
	}
	if (af == AF_INET) {
		snprintf(out, n, "4:%02x%02x%02x%02x", b[0], b[1], b[2], b[3]);
	} else {
		char *p = out;

		p += snprintf(p, n, "6:");
		for (int i = 0; i < 16; i++)
			p += snprintf(p, 3, "%02x", b[i]);
	}
}

static void hex_of(char *out, const unsigned char *s, size_t n)
{
	*out++ = 'x';
	for (size_t i = 0; i < n; i++)
		out += sprintf(out, "%02x", s[i]);
	*out = 0;
}

static void do_fmt(const struct lrtr_ip_addr *a, unsigned int len)
{
	static unsigned char frame[FRAME + MAXLEN + FRAME];
	static char hex[2 * MAXLEN + 8];
	unsigned char *buf = frame + FRAME;
	bool canary_ok = true, stable = true;
	size_t written = 0;
	int rc, rc2;

	memset(frame, CANARY, sizeof(frame));
	rc = lrtr_ip_addr_to_str(a, (char *)buf, len);
	for (size_t i = 0; i < FRAME; i++)
		if (frame[i] != CANARY)
			canary_ok = false;
	for (size_t i = FRAME + len; i < sizeof(frame); i++)
		if (frame[i] != CANARY)
			canary_ok = false;
	for (size_t i = 0; i < len; i++)
		if (buf[i] != CANARY)
			written = i + 1;

	/* same call on a heap block of exactly len bytes, pre-filled differently */
	unsigned char *h = malloc(len ? len : 1);

	memset(h, 0x5A, len ? len : 1);
	rc2 = lrtr_ip_addr_to_str(a, (char *)h, len);
	if (rc2 != rc)
		stable = false;
	for (size_t i = 0; i < len; i++) {
		if (i < written) {
			if (h[i] != buf[i])
				stable = false;
		} else if (h[i] != 0x5A) {
			stable = false;
		}
	}
	free(h);
	hex_of(hex, buf, written);
	printf("%d %s%s%s\n", rc, hex, canary_ok ? "" : " CANARY", stable ? "" : " UNSTABLE");
}

static void do_rt(const struct lrtr_ip_addr *a)
{
	char text[INET6_ADDRSTRLEN + 1];
	char hex[2 * sizeof(text) + 8], r1[160], r2[64];
	unsigned int len = a->ver == LRTR_IPV4 ? INET_ADDRSTRLEN : INET6_ADDRSTRLEN;

	memset(text, 0, sizeof(text));
	if (lrtr_ip_addr_to_str(a, text, len) != 0) {
		printf("s=FAIL\n");
		return;
	}
	hex_of(hex, (unsigned char *)text, strlen(text));
	/* parse from an exact-size heap copy */
	char *copy = strdup(text);

	lib_parse(W_IP, copy, r1, sizeof(r1));
	pton(a->ver == LRTR_IPV4 ? AF_INET : AF_INET6, copy, r2, sizeof(r2));
	free(copy);
	printf("s=%s lib=%s pton=%s\n", hex, r1, r2);
}

int main(void)
{
	static char line[LINE_MAX_];
	char *w[8];

	setvbuf(stdout, NULL, _IOLBF, 0);
	while (fgets(line, sizeof(line), stdin)) {
		int n = 0;
		char *save = NULL;

		for (char *t = strtok_r(line, " \t\r\n", &save); t && n < 8; t = strtok_r(NULL, " \t\r\n", &save))
			w[n++] = t;
		if (n == 0) {
			printf("bad-op\n");
			continue;
		}
		if ((!strcmp(w[0], "f4") || !strcmp(w[0], "f6")) && n == 3) {
			struct lrtr_ip_addr a;
			char *end;
			unsigned long len = strtoul(w[2], &end, 10);
			bool ok = w[0][1] == '4' ? parse_a4(w[1], &a) : parse_a6(w[1], &a);

			if (!ok || *end || end == w[2] || len > MAXLEN) {
				printf("bad-op\n");
				continue;
			}
			do_fmt(&a, (unsigned int)len);
		} else if ((!strcmp(w[0], "p") || !strcmp(w[0], "p4") || !strcmp(w[0], "p6")) && n == 2) {
			char *s = parse_x(w[1]);
			char r[160], q4[64], q6[64];

			if (!s) {
				printf("bad-op\n");
				continue;
			}
			if (!strcmp(w[0], "p")) {
				lib_parse(W_IP, s, r, sizeof(r));
				pton(AF_INET, s, q4, sizeof(q4));
				pton(AF_INET6, s, q6, sizeof(q6));
				printf("lib=%s p4=%s p6=%s\n", r, q4, q6);
			} else {
				lib_parse(w[0][1] == '4' ? W_V4 : W_V6, s, r, sizeof(r));
				printf("%s\n", r);
			}
			free(s);
		} else if (!strcmp(w[0], "cmp") && n == 4) {
			struct lrtr_ip_addr a;
			char *s = parse_x(w[3]);
			bool ok = !strcmp(w[1], "4") ? parse_a4(w[2], &a) : !strcmp(w[1], "6") ? parse_a6(w[2], &a) : false;

			if (!s || !ok) {
				printf("bad-op\n");
				free(s);
				continue;
			}
			bool r1 = run_on_pattern(PAT1, W_CMP, s, &a);
			bool r2 = run_on_pattern(PAT2, W_CMP, s, &a);

			if (r1 != r2)
				printf("nondet[%s|%s]\n", r1 ? "true" : "false", r2 ? "true" : "false");
			else
				printf("%s\n", r1 ? "true" : "false");
			free(s);
		} else if ((!strcmp(w[0], "rt4") || !strcmp(w[0], "rt6")) && n == 2) {
			struct lrtr_ip_addr a;
			bool ok = w[0][2] == '4' ? parse_a4(w[1], &a) : parse_a6(w[1], &a);

			if (!ok) {
				printf("bad-op\n");
				continue;
			}
			do_rt(&a);
		} else {
			printf("bad-op\n");
		}
	}
	return 0;
}
