/*
 * Implementation-side executor of the prefix-table line protocol (C01, C02, C09, bits).
 * Links against the objects compiled from /repo's current working tree; reads the private
 * trie layout through trie_private.h and the payload layout through a copy of the two
 * struct declarations of trie-pfx.c (checked against sizeof at start-up by layout probes in
 * the shape walk: a wrong layout shows up as a shape divergence at once).
 */
#define _GNU_SOURCE
#include "rtrlib/lib/alloc_utils.h"
#include "rtrlib/lib/ip_private.h"
#include "rtrlib/lib/ipv4_private.h"
#include "rtrlib/lib/ipv6_private.h"
#include "rtrlib/lib/utils_private.h"
#include "rtrlib/pfx/pfx_private.h"
#include "rtrlib/pfx/trie/trie-pfx.h"
#include "rtrlib/pfx/trie/trie_private.h"
#include "rtrlib/rtr/rtr.h"

#include <ctype.h>
#include <stdbool.h>
#include <stdio.h>
#include <stdlib.h>
#include <string.h>

/* mirrors of the two private structs of trie-pfx.c */
struct h_data_elem {
	uint32_t asn;
	uint8_t max_len;
	const struct rtr_socket *socket;
};
struct h_node_data {
	unsigned int len;
	struct h_data_elem *ary;
};

#define NTAB 4
#define NSRC 16
static struct pfx_table tabs[NTAB];
static struct rtr_socket socks[NSRC];

/*
 * Failing allocator (C02: an operation that cannot get memory reports an error and leaves the set as it was).
 * "fail k" arms it for the NEXT operation line only: the k-th allocation request (malloc or realloc) the library
 * makes during that operation returns NULL, every other one is served.  "failinfo" reports whether the armed
 * request was reached and how many requests the operation made.  The harness itself allocates with libc directly,
 * so only the library's requests are counted.
 */
static unsigned long inj_countdown, inj_calls;
static bool inj_armed, inj_active, inj_fired;

static bool inj_fail_now(void)
{
	if (!inj_active)
		return false;
	inj_calls++;
	if (inj_countdown && --inj_countdown == 0) {
		inj_fired = true;
		return true;
	}
	return false;
}

static void *h_malloc(size_t n)
{
	return inj_fail_now() ? NULL : malloc(n);
}

static void *h_realloc(void *p, size_t n)
{
	return inj_fail_now() ? NULL : realloc(p, n);
}

static void h_free(void *p)
{
	free(p);
}

/* callback log per table */
static char *logbuf[NTAB];
static size_t loglen[NTAB], logcap[NTAB];

static void logappend(int t, const char *s)
{
	size_t n = strlen(s);

	if (loglen[t] + n + 2 > logcap[t]) {
		logcap[t] = (loglen[t] + n + 2) * 2;
		logbuf[t] = realloc(logbuf[t], logcap[t]);
	}
	memcpy(logbuf[t] + loglen[t], s, n + 1);
	loglen[t] += n;
}

static int srcid(const struct rtr_socket *s)
{
	if (s >= socks && s < socks + NSRC)
		return (int)(s - socks);
	return 999;
}

static void fmt_rec(char *out, size_t n, const struct pfx_record *r)
{
	if (r->prefix.ver == LRTR_IPV4)
		snprintf(out, n, "4:%08x/%u-%u:%u:%d", r->prefix.u.addr4.addr, r->min_len, r->max_len, r->asn,
			 srcid(r->socket));
	else
		snprintf(out, n, "6:%08x%08x%08x%08x/%u-%u:%u:%d", r->prefix.u.addr6.addr[0], r->prefix.u.addr6.addr[1],
			 r->prefix.u.addr6.addr[2], r->prefix.u.addr6.addr[3], r->min_len, r->max_len, r->asn,
			 srcid(r->socket));
}

static void update_cb(struct pfx_table *p, const struct pfx_record rec, const bool added)
{
	char b[128], c[130];
	int t = (int)(p - tabs);

	fmt_rec(b, sizeof(b), &rec);
	snprintf(c, sizeof(c), " %c%s", added ? '+' : '-', b);
	logappend(t, c);
}

static int hexval(int c)
{
	if (c >= '0' && c <= '9')
		return c - '0';
	if (c >= 'a' && c <= 'f')
		return c - 'a' + 10;
	if (c >= 'A' && c <= 'F')
		return c - 'A' + 10;
	return -1;
}

/* parse hex of exactly 8 (v4) or 32 (v6) digits into an address */
static bool parse_addr(const char *v, const char *hex, struct lrtr_ip_addr *a)
{
	size_t n = strlen(hex);

	memset(a, 0, sizeof(*a));
	for (size_t i = 0; i < n; i++)
		if (hexval(hex[i]) < 0)
			return false;
	if (!strcmp(v, "4")) {
		if (n == 0 || n > 8)
			return false;
		a->ver = LRTR_IPV4;
		a->u.addr4.addr = (uint32_t)strtoul(hex, NULL, 16);
		return true;
	}
	if (!strcmp(v, "6")) {
		char pad[33];

		if (n == 0 || n > 32)
			return false;
		memset(pad, '0', 32);
		pad[32] = 0;
		memcpy(pad + 32 - n, hex, n);
		a->ver = LRTR_IPV6;
		for (int w = 0; w < 4; w++) {
			char part[9];

			memcpy(part, pad + 8 * w, 8);
			part[8] = 0;
			a->u.addr6.addr[w] = (uint32_t)strtoul(part, NULL, 16);
		}
		return true;
	}
	return false;
}

static bool parse_uint(const char *s, unsigned long max, unsigned long *out)
{
	char *end;

	if (!*s)
		return false;
	for (const char *p = s; *p; p++)
		if (!isdigit((unsigned char)*p))
			return false;
	*out = strtoul(s, &end, 10);
	return *end == 0 && *out <= max;
}

static bool parse_rec(char **w, int n, struct pfx_record *r)
{
	unsigned long len, ml, asn, src;

	if (n != 6)
		return false;
	if (!parse_addr(w[0], w[1], &r->prefix))
		return false;
	if (!parse_uint(w[2], 255, &len) || !parse_uint(w[3], 255, &ml) || !parse_uint(w[4], 0xffffffffUL, &asn) ||
	    !parse_uint(w[5], NSRC - 1, &src))
		return false;
	r->min_len = (uint8_t)len;
	r->max_len = (uint8_t)ml;
	r->asn = (uint32_t)asn;
	r->socket = &socks[src];
	return true;
}

static void dump_cb(const struct pfx_record *r, void *data)
{
	char b[128];

	(void)data;
	fmt_rec(b, sizeof(b), r);
	printf(" %s", b);
}

static void shape_walk(const struct trie_node *n, unsigned int depth)
{
	const struct h_node_data *d;

	if (!n)
		return;
	d = n->data;
	if (n->prefix.ver == LRTR_IPV4)
		printf(" (%u %08x/%u %s%s [", depth, n->prefix.u.addr4.addr, n->len, n->lchild ? "L" : "-",
		       n->rchild ? "R" : "-");
	else
		printf(" (%u %08x%08x%08x%08x/%u %s%s [", depth, n->prefix.u.addr6.addr[0], n->prefix.u.addr6.addr[1],
		       n->prefix.u.addr6.addr[2], n->prefix.u.addr6.addr[3], n->len, n->lchild ? "L" : "-",
		       n->rchild ? "R" : "-");
	for (unsigned int i = 0; i < d->len; i++)
		printf("%s%u.%u.%d", i ? "," : "", d->ary[i].asn, d->ary[i].max_len, srcid(d->ary[i].socket));
	printf("])");
	/* parent pointers must be consistent, else the model's paths mean nothing */
	if (n->lchild && n->lchild->parent != n)
		printf(" BADPARENT");
	if (n->rchild && n->rchild->parent != n)
		printf(" BADPARENT");
	shape_walk(n->lchild, depth + 1);
	shape_walk(n->rchild, depth + 1);
}

static int tabidx(const char *s)
{
	unsigned long t;

	if (!parse_uint(s, NTAB - 1, &t))
		return -1;
	return (int)t;
}

int main(void)
{
	char *line = NULL;
	size_t cap = 0;

	setvbuf(stdout, NULL, _IOLBF, 0);
	lrtr_set_alloc_functions(h_malloc, h_realloc, h_free);
	for (int i = 0; i < NTAB; i++)
		pfx_table_init(&tabs[i], update_cb);

	while (getline(&line, &cap, stdin) > 0) {
		char *w[16];
		int n = 0;

		for (char *tok = strtok(line, " \t\r\n"); tok && n < 16; tok = strtok(NULL, " \t\r\n"))
			w[n++] = tok;
		inj_active = false;
		if (n == 0) {
			puts("bad-op");
			continue;
		}
		if (!strcmp(w[0], "fail") && n == 2) {
			unsigned long k;

			if (!parse_uint(w[1], 1000000, &k) || k == 0) {
				puts("bad-op");
				continue;
			}
			inj_countdown = k;
			inj_calls = 0;
			inj_fired = false;
			inj_armed = true;
			puts("ok");
			continue;
		}
		if (!strcmp(w[0], "failinfo") && n == 1) {
			printf("failinfo fired=%d allocs=%lu\n", inj_fired ? 1 : 0, inj_calls);
			continue;
		}
		if (inj_armed) {
			inj_armed = false;
			inj_active = true;
		}
		if ((!strcmp(w[0], "new") || !strcmp(w[0], "newnocb")) && n == 2 && tabidx(w[1]) >= 0) {
			int t = tabidx(w[1]);

			/* the previous incarnation must have been freed by the op file ("free") or be empty */
			pfx_table_init(&tabs[t], !strcmp(w[0], "new") ? update_cb : NULL);
			loglen[t] = 0;
			if (logbuf[t])
				logbuf[t][0] = 0;
			puts("ok");
		} else if ((!strcmp(w[0], "add") || !strcmp(w[0], "rm")) && n == 8 && tabidx(w[1]) >= 0) {
			struct pfx_record r;

			if (!parse_rec(w + 2, 6, &r)) {
				puts("bad-op");
				continue;
			}
			if (!strcmp(w[0], "add"))
				printf("%d\n", pfx_table_add(&tabs[tabidx(w[1])], &r));
			else
				printf("%d\n", pfx_table_remove(&tabs[tabidx(w[1])], &r));
		} else if (!strcmp(w[0], "srcrm") && n == 3 && tabidx(w[1]) >= 0) {
			unsigned long src;

			if (!parse_uint(w[2], NSRC - 1, &src)) {
				puts("bad-op");
				continue;
			}
			printf("%d\n", pfx_table_src_remove(&tabs[tabidx(w[1])], &socks[src]));
		} else if (!strcmp(w[0], "val") && n == 6 && tabidx(w[1]) >= 0) {
			struct lrtr_ip_addr a;
			unsigned long len, asn;
			/* the caller's (reason, reason_len) pair in the three states the API allows on entry: fresh; NULL with a
			 * stale count (reason_len is an output only); the array of the previous call handed in for reuse */
			static struct pfx_record *reason;
			static unsigned int rlen;
			static unsigned int valno;
			enum pfxv_state st;
			int rc;

			switch (valno++ % 3) {
			case 0:
				free(reason);
				reason = NULL;
				rlen = 0;
				break;
			case 1:
				free(reason);
				reason = NULL;
				rlen = 5;
				break;
			default:
				break;
			}

			if (!parse_addr(w[2], w[3], &a) || !parse_uint(w[4], 255, &len) ||
			    !parse_uint(w[5], 0xffffffffUL, &asn)) {
				puts("bad-op");
				continue;
			}
			rc = pfx_table_validate_r(&tabs[tabidx(w[1])], &reason, &rlen, (uint32_t)asn, &a, (uint8_t)len,
						  &st);
			if (rc != PFX_SUCCESS) {
				printf("rc=%d\n", rc);
				reason = NULL;
				rlen = 0;
				continue;
			}
			if (rlen && !reason) {
				printf("REASON-NULL-WITH-COUNT-%u ", rlen);
				rlen = 0;
			}
			/* cross-check with the reason-less entry point */
			{
				enum pfxv_state st2;

				if (pfx_table_validate(&tabs[tabidx(w[1])], (uint32_t)asn, &a, (uint8_t)len, &st2) !=
					    PFX_SUCCESS ||
				    st2 != st)
					printf("VALIDATE-MISMATCH ");
			}
			printf("%s", st == BGP_PFXV_STATE_VALID ? "VALID" :
				     st == BGP_PFXV_STATE_NOT_FOUND ? "NOTFOUND" : "INVALID");
			for (unsigned int i = 0; i < rlen; i++) {
				char b[128];

				fmt_rec(b, sizeof(b), &reason[i]);
				printf(" %s", b);
			}
			printf("\n");
		} else if (!strcmp(w[0], "dump") && n == 2 && tabidx(w[1]) >= 0) {
			printf("recs");
			pfx_table_for_each_ipv4_record(&tabs[tabidx(w[1])], dump_cb, NULL);
			pfx_table_for_each_ipv6_record(&tabs[tabidx(w[1])], dump_cb, NULL);
			printf("\n");
		} else if (!strcmp(w[0], "shape") && n == 2 && tabidx(w[1]) >= 0) {
			printf("shape4");
			shape_walk(tabs[tabidx(w[1])].ipv4, 0);
			printf(" shape6");
			shape_walk(tabs[tabidx(w[1])].ipv6, 0);
			printf("\n");
		} else if (!strcmp(w[0], "log") && n == 2 && tabidx(w[1]) >= 0) {
			int t = tabidx(w[1]);

			printf("log%s\n", loglen[t] ? logbuf[t] : "");
			loglen[t] = 0;
			if (logbuf[t])
				logbuf[t][0] = 0;
		} else if (!strcmp(w[0], "copyx") && n == 4 && tabidx(w[1]) >= 0 && tabidx(w[2]) >= 0 &&
			   tabidx(w[1]) != tabidx(w[2])) {
			unsigned long src;

			if (!parse_uint(w[3], NSRC - 1, &src)) {
				puts("bad-op");
				continue;
			}
			printf("%d\n", pfx_table_copy_except_socket(&tabs[tabidx(w[1])], &tabs[tabidx(w[2])], &socks[src]));
		} else if (!strcmp(w[0], "swap") && n == 3 && tabidx(w[1]) >= 0 && tabidx(w[2]) >= 0 &&
			   tabidx(w[1]) != tabidx(w[2])) {
			pfx_table_swap(&tabs[tabidx(w[1])], &tabs[tabidx(w[2])]);
			puts("ok");
		} else if (!strcmp(w[0], "diff") && n == 4 && tabidx(w[1]) >= 0 && tabidx(w[2]) >= 0 &&
			   tabidx(w[1]) != tabidx(w[2])) {
			unsigned long src;

			if (!parse_uint(w[3], NSRC - 1, &src)) {
				puts("bad-op");
				continue;
			}
			pfx_table_notify_diff(&tabs[tabidx(w[1])], &tabs[tabidx(w[2])], &socks[src]);
			puts("ok");
		} else if (!strcmp(w[0], "free") && n == 2 && tabidx(w[1]) >= 0) {
			int t = tabidx(w[1]);
			pfx_update_fp fp = tabs[t].update_fp;

			pfx_table_free(&tabs[t]);
			pfx_table_init(&tabs[t], fp);
			puts("ok");
		} else if (!strcmp(w[0], "bits4") && n == 4) {
			unsigned long f, q;
			struct lrtr_ip_addr a;

			if (!parse_addr("4", w[1], &a) || !parse_uint(w[2], 255, &f) || !parse_uint(w[3], 32, &q)) {
				puts("bad-op");
				continue;
			}
			printf("%08x\n", lrtr_get_bits(a.u.addr4.addr, (uint8_t)f, (uint8_t)q));
		} else if (!strcmp(w[0], "bits6") && n == 4) {
			unsigned long f, q;
			struct lrtr_ip_addr a;
			struct lrtr_ipv6_addr r;

			if (!parse_addr("6", w[1], &a) || !parse_uint(w[2], 255, &f) || !parse_uint(w[3], 128, &q) ||
			    (f <= 127 && f + q > 128)) {
				puts("bad-op");
				continue;
			}
			r = lrtr_ipv6_get_bits(&a.u.addr6, (uint8_t)f, (uint8_t)q);
			printf("%08x%08x%08x%08x\n", r.addr[0], r.addr[1], r.addr[2], r.addr[3]);
		} else if (!strcmp(w[0], "left") && n == 4) {
			unsigned long lvl;
			struct lrtr_ip_addr a;
			bool b;

			if (!parse_addr(w[1], w[2], &a) || !parse_uint(w[3], 255, &lvl)) {
				puts("bad-op");
				continue;
			}
			/* is_left_child of trie.c is static; this is its body */
			b = lrtr_ip_addr_is_zero(lrtr_ip_addr_get_bits(&a, (uint8_t)lvl, 1));
			printf("%s %s\n", b ? "true" : "false", b ? "true" : "false");
		} else if (!strcmp(w[0], "cov") && n == 5) {
			unsigned long len;
			struct lrtr_ip_addr p, q;
			bool b;

			if (!parse_addr(w[1], w[2], &p) || !parse_uint(w[3], !strcmp(w[1], "4") ? 32 : 128, &len) ||
			    !parse_addr(w[1], w[4], &q)) {
				puts("bad-op");
				continue;
			}
			b = lrtr_ip_addr_equal(lrtr_ip_addr_get_bits(&p, 0, (uint8_t)len),
					       lrtr_ip_addr_get_bits(&q, 0, (uint8_t)len));
			printf("%s %s\n", b ? "true" : "false", b ? "true" : "false");
		} else {
			puts("bad-op");
		}
	}
	free(line);
	return 0;
}
