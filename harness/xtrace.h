/*
 * xtrace: validation of the C-to-Lean translation of the state machine by trace replay.
 *
 * Included by rtr_harness.c between `#include "rtrlib/rtr/packets.c"` and `#include "rtrlib/rtr/rtr.c"` when the
 * harness is built with -DXTRACE.  Every call that the code of rtr.c (rtr_fsm_start, rtr_purge_outdated_records, rtr_stop)
 * makes to a function the translator treats as EXTERNAL (tools/gen_cfuns.py EXTERNX) goes through a wrapper that logs
 *
 *     X <thread> <name> <nargs> <recorded args...> | <socket before> | <rc> <aux> | <socket after>
 *
 * to the file named by $XTRACE_OUT, then runs the real function.  tools/xtracecheck.py turns the log of the state-machine
 * thread into a world (the answers of the external calls) and lets the TRANSLATED rtr_fsm_start run in that world
 * (lean/Driver/CFuns.lean `fsm_replay`); the sequence of calls it makes, their recorded arguments and the socket at every call
 * must be the ones logged here.  That ties the translation of the control skeleton to real executions.
 *
 * socket snapshot = the fields of struct rtr_socket that lean/RtrModel/Generated/CFuns.lean `S_rtr_socket` has, in its order:
 * refresh_interval last_update expire_interval retry_interval iv_mode state session_id request_session_id serial_number
 * thread_id(0/1) version has_received_pdus is_resetting
 */
#ifdef XTRACE
#include <stdio.h>
#include <stdlib.h>
#include <unistd.h>
#include <pthread.h>

static FILE *xt_out;
static pthread_mutex_t xt_mu = PTHREAD_MUTEX_INITIALIZER;

static void xt_open(void)
{
	if (!xt_out) {
		const char *p = getenv("XTRACE_OUT");

		xt_out = p ? fopen(p, "a") : NULL;
	}
}

static void xt_snap(const struct rtr_socket *s)
{
	fprintf(xt_out, " %u %lld %u %u %d %d %u %d %u %d %u %d %d", s->refresh_interval, (long long)s->last_update, s->expire_interval,
		s->retry_interval, (int)s->iv_mode, (int)s->state, s->session_id, (int)s->request_session_id, s->serial_number,
		s->thread_id != 0, s->version, (int)s->has_received_pdus, (int)s->is_resetting);
}

/* the socket the state machine under observation works on: set by the first wrapper that gets one */
static struct rtr_socket *xt_sock;

static void xt_begin(const char *name, struct rtr_socket *s, int nargs, long long a0)
{
	xt_open();
	if (!xt_out)
		return;
	if (s)
		xt_sock = s;
	pthread_mutex_lock(&xt_mu);
	fprintf(xt_out, "X %lu %s %d", (unsigned long)pthread_self(), name, nargs);
	if (nargs > 0)
		fprintf(xt_out, " %lld", a0);
	fprintf(xt_out, " |");
	if (xt_sock)
		xt_snap(xt_sock);
	fprintf(xt_out, "\n");
	fflush(xt_out);
	pthread_mutex_unlock(&xt_mu);
}

static void xt_end(const char *name, long long rc, long long aux)
{
	if (!xt_out)
		return;
	pthread_mutex_lock(&xt_mu);
	/* the end record is a line of its own: another thread's records may lie between begin and end */
	fprintf(xt_out, "E %lu %s %lld %lld |", (unsigned long)pthread_self(), name, rc, aux);
	if (xt_sock)
		xt_snap(xt_sock);
	fprintf(xt_out, "\n");
	fflush(xt_out);
	pthread_mutex_unlock(&xt_mu);
}

static int xt_tr_open(struct rtr_socket *unused, struct tr_socket *t)
{
	(void)unused;
	xt_begin("tr_open", NULL, 0, 0);
	int r = tr_open(t);

	xt_end("tr_open", r, 0);
	return r;
}

static void xt_tr_close(struct tr_socket *t)
{
	xt_begin("tr_close", NULL, 0, 0);
	tr_close(t);
	xt_end("tr_close", 0, 0);
}

#define XT_SOCK_INT(fn)                                  \
	static int xt_##fn(struct rtr_socket *s)             \
	{                                                    \
		xt_begin(#fn, s, 0, 0);                          \
		int r = fn(s);                                   \
		xt_end(#fn, r, 0);                               \
		return r;                                        \
	}
XT_SOCK_INT(rtr_send_serial_query)
XT_SOCK_INT(rtr_send_reset_query)
XT_SOCK_INT(rtr_sync)
XT_SOCK_INT(rtr_wait_for_sync)

static void xt_rtr_change_socket_state(struct rtr_socket *s, const enum rtr_socket_state st)
{
	xt_begin("rtr_change_socket_state", s, 1, (long long)st);
	rtr_change_socket_state(s, st);
	xt_end("rtr_change_socket_state", 0, 0);
}

static unsigned int xt_sleep(unsigned int sec)
{
	xt_begin("sleep", NULL, 1, (long long)sec);
	unsigned int r = sleep(sec);

	xt_end("sleep", r, 0);
	return r;
}

static int xt_pfx_table_src_remove(struct pfx_table *t, const struct rtr_socket *s)
{
	xt_begin("pfx_table_src_remove", NULL, 0, 0);
	int r = pfx_table_src_remove(t, s);

	xt_end("pfx_table_src_remove", r, 0);
	return r;
}

static int xt_spki_table_src_remove(struct spki_table *t, const struct rtr_socket *s)
{
	xt_begin("spki_table_src_remove", NULL, 0, 0);
	int r = spki_table_src_remove(t, s);

	xt_end("spki_table_src_remove", r, 0);
	return r;
}

static int xt_pthread_setcancelstate(int st, int *old)
{
	xt_begin("pthread_setcancelstate", NULL, 1, (long long)st);
	int r = pthread_setcancelstate(st, old);

	xt_end("pthread_setcancelstate", r, 0);
	return r;
}

static int xt_lrtr_get_monotonic_time(time_t *t)
{
	xt_begin("lrtr_get_monotonic_time", NULL, 0, 0);
	int r = lrtr_get_monotonic_time(t);

	xt_end("lrtr_get_monotonic_time", r, (long long)*t);
	return r;
}

/* rtr_start hands the socket to the new thread: from here on the socket under observation is known */
static int xt_pthread_create(pthread_t *t, const pthread_attr_t *a, void *(*fn)(void *), void *arg)
{
	xt_sock = arg;
	return pthread_create(t, a, fn, arg);
}

#define pthread_create(t, a, f, g) xt_pthread_create(t, a, f, g)
#define tr_open(t) xt_tr_open(NULL, t)
#define tr_close(t) xt_tr_close(t)
#define rtr_send_serial_query(s) xt_rtr_send_serial_query(s)
#define rtr_send_reset_query(s) xt_rtr_send_reset_query(s)
#define rtr_sync(s) xt_rtr_sync(s)
#define rtr_wait_for_sync(s) xt_rtr_wait_for_sync(s)
#define rtr_change_socket_state(s, st) xt_rtr_change_socket_state(s, st)
#define sleep(n) xt_sleep(n)
#define pfx_table_src_remove(t, s) xt_pfx_table_src_remove(t, s)
#define spki_table_src_remove(t, s) xt_spki_table_src_remove(t, s)
#define pthread_setcancelstate(a, b) xt_pthread_setcancelstate(a, b)
#define lrtr_get_monotonic_time(t) xt_lrtr_get_monotonic_time(t)
#define XTRACE_ACTIVE 1
#endif
