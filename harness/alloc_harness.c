/*
 * Implementation-side executor of the allocation line protocol (C18).
 *
 * An injected allocator is installed through lrtr_set_alloc_functions: it keeps a registry of the
 * blocks it has handed out (with their sizes), refuses the k-th request of the current operation when
 * asked to, and writes every request / release into a trace.  libc `free` is wrapped at link time
 * (-Wl,--wrap=free): a block of the injected allocator that reaches libc free is a FOREIGN release
 * (trace token X), a block that reaches the injected free without having come from the injected
 * allocator is an ALIEN release (trace token A), a block that the injected allocator has already taken
 * back is a DOUBLE release (trace token D).  Neither is handed to the real free(): the registry keeps a
 * table of live blocks and a table of returned blocks, so the accounting never corrupts its own state and
 * the violation is reported instead of aborting.  ASan/UBSan stay on (the injected allocator sits on
 * top of the sanitizer's malloc).
 *
 * `pair`: two table operations are run by two threads under a deterministic schedule driven from the
 * allocator hook (see sched_hook): thread A is started first and runs until its first allocation request,
 * then thread B is started; A waits there until B has reached its first request too (or has returned, or
 * SCHED_MS have passed - B is then blocked on the table lock A holds), B waits at its first request
 * until A's operation has returned (or SCHED_B_MS have passed - A then needs a lock B holds).  Code
 * that allocates inside the write lock simply runs A then B; code that allocates outside the lock has
 * both operations in flight between their look-up and their update.
 *
 * ht-spkitable.c is #included (and excluded from the separately compiled sources) so that the private
 * `struct key_entry` is the repo's own declaration.  Protocol: see lean/Driver/Alloc.lean.
 */
#define _GNU_SOURCE
#include "rtrlib/spki/hashtable/ht-spkitable.c"

#include "rtrlib/lib/alloc_utils.h"
#include "rtrlib/pfx/pfx_private.h"
#include "rtrlib/pfx/trie/trie-pfx.h"
#include "rtrlib/pfx/trie/trie_private.h"
#include "rtrlib/rtr/packets_private.h"
#include "rtrlib/rtr/rtr_private.h"
#include "rtrlib/transport/transport.h"

#include <ctype.h>
#include <errno.h>
#include <pthread.h>
#include <stdarg.h>
#include <stdbool.h>
#include <stdio.h>
#include <stdlib.h>
#include <string.h>
#include <time.h>

/* mirrors of the two private structs of trie-pfx.c (sizes enter the trace: a change shows up as a
 * trace divergence at once) */
struct h_data_elem {
	uint32_t asn;
	uint8_t max_len;
	const struct rtr_socket *socket;
};
struct h_node_data {
	unsigned int len;
	struct h_data_elem *ary;
};

/* ------------------------------------------------------------------ trace */
static char *trace;
static size_t trace_len, trace_cap;

void __real_free(void *p);

static void tr_add(const char *fmt, ...)
{
	char buf[96];
	va_list ap;
	int n;

	va_start(ap, fmt);
	n = vsnprintf(buf, sizeof(buf), fmt, ap);
	va_end(ap);
	if (n < 0)
		return;
	if (trace_len + (size_t)n + 2 > trace_cap) {
		trace_cap = (trace_len + (size_t)n + 2) * 2;
		trace = realloc(trace, trace_cap);
	}
	if (trace_len)
		trace[trace_len++] = ' ';
	memcpy(trace + trace_len, buf, (size_t)n + 1);
	trace_len += (size_t)n;
}

static void tr_reset(void)
{
	trace_len = 0;
	if (trace)
		trace[0] = 0;
}

/* ------------------------------------------------------------------ two-thread schedule */
#define SCHED_MS 120    /* A waits this long for B to reach its first request (B may be blocked on A's lock) */
#define SCHED_B_MS 1000 /* B lets A finish first; only runs out when A needs a lock B holds */
static struct {
	pthread_mutex_t mu;
	pthread_cond_t cv;
	bool active;
	bool arrived[2]; /* reached its first allocation request */
	bool done[2];    /* operation returned */
	bool timeout[2]; /* gave up waiting for the other one */
	bool met;        /* both operations were in flight at their first request at the same time */
} sch = {.mu = PTHREAD_MUTEX_INITIALIZER, .cv = PTHREAD_COND_INITIALIZER};
static __thread int sched_me = -1; /* 0 = A, 1 = B, -1 = main thread */
static __thread bool sched_hooked;

static void deadline_in(struct timespec *ts, long ms)
{
	clock_gettime(CLOCK_REALTIME, ts);
	ts->tv_nsec += (ms % 1000) * 1000000L;
	ts->tv_sec += ms / 1000 + ts->tv_nsec / 1000000000L;
	ts->tv_nsec %= 1000000000L;
}

/* called at the start of every allocation request (malloc / realloc), outside the allocator's mutex */
static void sched_hook(void)
{
	struct timespec ts;
	int me = sched_me;

	if (me < 0 || sched_hooked || !sch.active)
		return;
	sched_hooked = true;
	pthread_mutex_lock(&sch.mu);
	sch.arrived[me] = true;
	pthread_cond_broadcast(&sch.cv);
	deadline_in(&ts, me == 0 ? SCHED_MS : SCHED_B_MS);
	if (me == 0) {
		while (!sch.arrived[1] && !sch.done[1])
			if (pthread_cond_timedwait(&sch.cv, &sch.mu, &ts) == ETIMEDOUT) {
				sch.timeout[0] = !sch.arrived[1] && !sch.done[1];
				break;
			}
	} else {
		if (sch.arrived[0] && !sch.done[0])
			sch.met = true;
		while (!sch.done[0])
			if (pthread_cond_timedwait(&sch.cv, &sch.mu, &ts) == ETIMEDOUT) {
				sch.timeout[1] = !sch.done[0];
				break;
			}
	}
	pthread_mutex_unlock(&sch.mu);
}

/* ------------------------------------------------------------------ injected allocator */
struct blk {
	void *p;
	size_t sz;
	struct blk *next;
};
#define NB 8192
static pthread_mutex_t alloc_mu = PTHREAD_MUTEX_INITIALIZER;
static struct blk *reg[NB];  /* live blocks */
static struct blk *dead[NB]; /* blocks the allocator has taken back (until the address is handed out again) */
static long live_blocks;
static long foreign_frees; /* injected block released through libc free */
static long alien_frees;   /* block never handed out by the injected allocator given to its free / realloc */
static long double_frees;  /* block already taken back given to the injected free / realloc again */
static long req_idx;
static long fail_at = -1;

static size_t hp(const void *p)
{
	return (size_t)(((uintptr_t)p >> 4) * 2654435761u) % NB;
}

static struct blk *tab_find(struct blk **tab, const void *p)
{
	for (struct blk *b = tab[hp(p)]; b; b = b->next)
		if (b->p == p)
			return b;
	return NULL;
}

static struct blk *tab_take(struct blk **tab, const void *p)
{
	for (struct blk **pp = &tab[hp(p)]; *pp; pp = &(*pp)->next) {
		if ((*pp)->p == p) {
			struct blk *b = *pp;

			*pp = b->next;
			return b;
		}
	}
	return NULL;
}

static void tab_put(struct blk **tab, struct blk *b)
{
	b->next = tab[hp(b->p)];
	tab[hp(b->p)] = b;
}

static struct blk *reg_find(const void *p)
{
	return tab_find(reg, p);
}

static void reg_add(void *p, size_t sz)
{
	struct blk *b = tab_take(dead, p); /* the address is in use again */

	if (!b)
		b = malloc(sizeof(*b));
	b->p = p;
	b->sz = sz;
	tab_put(reg, b);
	live_blocks++;
}

/* the block leaves the table of live blocks and is remembered as returned */
static bool reg_del(const void *p, size_t *sz)
{
	struct blk *b = tab_take(reg, p);

	if (!b)
		return false;
	if (sz)
		*sz = b->sz;
	tab_put(dead, b);
	live_blocks--;
	return true;
}

/* a block that is not live reached free / realloc: returned twice, or never ours.  Reported, and NOT
 * handed to the real free(). */
static void not_live(const void *ptr)
{
	struct blk *d = tab_find(dead, ptr);

	if (d) {
		double_frees++;
		tr_add("D%zu", d->sz);
	} else {
		alien_frees++;
		tr_add("A");
	}
}

static void *inj_malloc(size_t size)
{
	void *p;

	sched_hook();
	pthread_mutex_lock(&alloc_mu);
	if (req_idx++ == fail_at) {
		tr_add("M%zu!", size);
		pthread_mutex_unlock(&alloc_mu);
		return NULL;
	}
	p = malloc(size ? size : 1);
	reg_add(p, size);
	tr_add("M%zu", size);
	pthread_mutex_unlock(&alloc_mu);
	return p;
}

static void *inj_realloc(void *ptr, size_t size)
{
	size_t old = 0;
	bool ours = false;
	void *p;

	sched_hook();
	pthread_mutex_lock(&alloc_mu);
	if (ptr) {
		struct blk *b = reg_find(ptr);

		if (b) {
			old = b->sz;
			ours = true;
		} else {
			not_live(ptr);
		}
	}
	if (req_idx++ == fail_at) {
		tr_add("R%zu>%zu!", old, size);
		pthread_mutex_unlock(&alloc_mu);
		return NULL;
	}
	/* always move the block, so that a stale pointer into the old block is caught by ASan */
	p = malloc(size ? size : 1);
	if (ours) {
		memcpy(p, ptr, old < size ? old : size);
		reg_del(ptr, NULL);
		__real_free(ptr);
	}
	reg_add(p, size);
	tr_add("R%zu>%zu", old, size);
	pthread_mutex_unlock(&alloc_mu);
	return p;
}

static void inj_free(void *ptr)
{
	size_t sz;

	if (!ptr)
		return;
	pthread_mutex_lock(&alloc_mu);
	if (reg_del(ptr, &sz)) {
		tr_add("F%zu", sz);
		__real_free(ptr);
	} else {
		not_live(ptr);
	}
	pthread_mutex_unlock(&alloc_mu);
}

/* every call of libc free in the whole executable lands here */
void __wrap_free(void *ptr)
{
	size_t sz;

	if (ptr) {
		pthread_mutex_lock(&alloc_mu);
		if (reg_find(ptr)) {
			reg_del(ptr, &sz);
			foreign_frees++;
			tr_add("X%zu", sz);
		}
		pthread_mutex_unlock(&alloc_mu);
	}
	__real_free(ptr);
}

/* ------------------------------------------------------------------ tables, sources */
#define NTAB 4
#define NSRC 16
static struct pfx_table ptabs[NTAB];
static bool pcb[NTAB];
static struct spki_table ktabs[NTAB];
static bool klive[NTAB], kcb[NTAB];
static struct rtr_socket socks[NSRC];
static struct tr_socket trs;

static pthread_mutex_t log_mu = PTHREAD_MUTEX_INITIALIZER;
static char *plogbuf[NTAB], *klogbuf[NTAB];
static size_t ploglen[NTAB], plogcap[NTAB], kloglen[NTAB], klogcap[NTAB];

static void logappend(char **buf, size_t *len, size_t *cap, const char *s)
{
	size_t n = strlen(s);

	if (*len + n + 2 > *cap) {
		*cap = (*len + n + 2) * 2;
		*buf = realloc(*buf, *cap);
	}
	memcpy(*buf + *len, s, n + 1);
	*len += n;
}

static int srcid(const struct rtr_socket *s)
{
	if (s >= socks && s < socks + NSRC)
		return (int)(s - socks);
	return 999;
}

static void fmt_prec(char *out, size_t n, const struct pfx_record *r)
{
	if (r->prefix.ver == LRTR_IPV4)
		snprintf(out, n, "4:%08x/%u-%u:%u:%d", r->prefix.u.addr4.addr, r->min_len, r->max_len, r->asn,
			 srcid(r->socket));
	else
		snprintf(out, n, "6:%08x%08x%08x%08x/%u-%u:%u:%d", r->prefix.u.addr6.addr[0], r->prefix.u.addr6.addr[1],
			 r->prefix.u.addr6.addr[2], r->prefix.u.addr6.addr[3], r->min_len, r->max_len, r->asn,
			 srcid(r->socket));
}

static void p_update_cb(struct pfx_table *p, const struct pfx_record rec, const bool added)
{
	char b[128], c[130];
	int t = (int)(p - ptabs);

	if (t < 0 || t >= NTAB)
		return;
	fmt_prec(b, sizeof(b), &rec);
	snprintf(c, sizeof(c), " %c%s", added ? '+' : '-', b);
	pthread_mutex_lock(&log_mu); /* callbacks run outside the table lock: two threads may be here */
	logappend(&plogbuf[t], &ploglen[t], &plogcap[t], c);
	pthread_mutex_unlock(&log_mu);
}

static void fmt_hex(char *out, const uint8_t *b, size_t n)
{
	size_t i = 0, k = 0;

	while (i < n && b[i] == 0)
		i++;
	if (i == n) {
		strcpy(out, "0");
		return;
	}
	if (b[i] >> 4)
		k += (size_t)sprintf(out + k, "%02x", b[i]);
	else
		k += (size_t)sprintf(out + k, "%x", b[i]);
	for (i++; i < n; i++)
		k += (size_t)sprintf(out + k, "%02x", b[i]);
}

#define RECBUF (16 + 2 * SKI_SIZE + 2 * SPKI_SIZE + 16)

static void fmt_kfields(char *out, uint32_t asn, const uint8_t *ski, const uint8_t *spki, const struct rtr_socket *so)
{
	char a[2 * SKI_SIZE + 1], b[2 * SPKI_SIZE + 1];

	fmt_hex(a, ski, SKI_SIZE);
	fmt_hex(b, spki, SPKI_SIZE);
	snprintf(out, RECBUF, "%u:%s:%s:%d", asn, a, b, srcid(so));
}

static void k_update_cb(struct spki_table *p, const struct spki_record rec, const bool added)
{
	char b[RECBUF], c[RECBUF + 4];
	int t = (int)(p - ktabs);

	if (t < 0 || t >= NTAB)
		return;
	fmt_kfields(b, rec.asn, rec.ski, rec.spki, rec.socket);
	snprintf(c, sizeof(c), " %c%s", added ? '+' : '-', b);
	pthread_mutex_lock(&log_mu);
	logappend(&klogbuf[t], &kloglen[t], &klogcap[t], c);
	pthread_mutex_unlock(&log_mu);
}

/* ------------------------------------------------------------------ parsing */
static int hexval(int c)
{
	if (c >= '0' && c <= '9')
		return c - '0';
	if (c >= 'a' && c <= 'f')
		return c - 'a' + 10;
	if (c >= 'A' && c <= 'F')
		return c - 'A' + 10;
	return -1;
}

static bool parse_uint(const char *s, unsigned long max, unsigned long *out)
{
	char *end;

	if (!*s || strlen(s) > 10)
		return false;
	for (const char *p = s; *p; p++)
		if (!isdigit((unsigned char)*p))
			return false;
	*out = strtoul(s, &end, 10);
	return *end == 0 && *out <= max;
}

static bool parse_addr(const char *v, const char *hex, struct lrtr_ip_addr *a)
{
	size_t n = strlen(hex);

	memset(a, 0, sizeof(*a));
	for (size_t i = 0; i < n; i++)
		if (hexval(hex[i]) < 0)
			return false;
	if (!strcmp(v, "4")) {
		if (n == 0 || n > 8)
			return false;
		a->ver = LRTR_IPV4;
		a->u.addr4.addr = (uint32_t)strtoul(hex, NULL, 16);
		return true;
	}
	if (!strcmp(v, "6")) {
		char pad[33];

		if (n == 0 || n > 32)
			return false;
		memset(pad, '0', 32);
		pad[32] = 0;
		memcpy(pad + 32 - n, hex, n);
		a->ver = LRTR_IPV6;
		for (int w = 0; w < 4; w++) {
			char part[9];

			memcpy(part, pad + 8 * w, 8);
			part[8] = 0;
			a->u.addr6.addr[w] = (uint32_t)strtoul(part, NULL, 16);
		}
		return true;
	}
	return false;
}

static bool parse_prec(char **w, struct pfx_record *r)
{
	unsigned long len, ml, asn, src;

	if (!parse_addr(w[0], w[1], &r->prefix))
		return false;
	if (!parse_uint(w[2], 255, &len) || !parse_uint(w[3], 255, &ml) || !parse_uint(w[4], 0xffffffffUL, &asn) ||
	    !parse_uint(w[5], NSRC - 1, &src))
		return false;
	r->min_len = (uint8_t)len;
	r->max_len = (uint8_t)ml;
	r->asn = (uint32_t)asn;
	r->socket = &socks[src];
	return true;
}

static bool parse_hexn(const char *hex, uint8_t *out, size_t n)
{
	size_t len = strlen(hex);

	if (len == 0 || len > 2 * n)
		return false;
	memset(out, 0, n);
	for (size_t i = 0; i < len; i++) {
		int v = hexval(hex[len - 1 - i]);

		if (v < 0)
			return false;
		out[n - 1 - i / 2] |= (uint8_t)(v << (4 * (i % 2)));
	}
	return true;
}

static bool parse_krec(char **w, struct spki_record *r)
{
	unsigned long asn, src;

	memset(r, 0, sizeof(*r));
	if (!parse_uint(w[0], 0xffffffffUL, &asn) || !parse_hexn(w[1], r->ski, SKI_SIZE) ||
	    !parse_hexn(w[2], r->spki, SPKI_SIZE) || !parse_uint(w[3], NSRC - 1, &src))
		return false;
	r->asn = (uint32_t)asn;
	r->socket = &socks[src];
	return true;
}

static int tabidx(const char *s)
{
	unsigned long t;

	if (!parse_uint(s, NTAB - 1, &t))
		return -1;
	return (int)t;
}

/* "-" = no refusal; a number k = the k-th request (0-based) of this operation is refused */
static bool parse_fail(const char *s, long *k)
{
	unsigned long v;

	if (!strcmp(s, "-")) {
		*k = -1;
		return true;
	}
	if (!parse_uint(s, 1000000, &v))
		return false;
	*k = (long)v;
	return true;
}

static void arm(long k)
{
	tr_reset();
	req_idx = 0;
	fail_at = k;
}

static void disarm(void)
{
	fail_at = -1;
}

static void finish(void)
{
	disarm();
	printf(" ; %s ; live=%ld\n", trace_len ? trace : "", live_blocks);
}

/* ------------------------------------------------------------------ spki_table_init: void (unfixed) or int */
#define INIT_RETURNS_INT                                                                                              \
	__builtin_types_compatible_p(__typeof__(&spki_table_init), int (*)(struct spki_table *, spki_update_fp))

static int call_kinit(struct spki_table *t, spki_update_fp fp)
{
	if (INIT_RETURNS_INT)
		return ((int (*)(struct spki_table *, spki_update_fp))spki_table_init)(t, fp);
	((void (*)(struct spki_table *, spki_update_fp))spki_table_init)(t, fp);
	return 0; /* the unfixed function cannot report a failure */
}

/* ------------------------------------------------------------------ scripted transport for rtr_sync */
static unsigned char *tape;
static size_t tape_len, tape_off;

static int m_open(void *s)
{
	(void)s;
	return TR_SUCCESS;
}

static void m_close(void *s)
{
	(void)s;
}

static void m_free(struct tr_socket *s)
{
	(void)s;
}

static const char *m_ident(void *s)
{
	(void)s;
	return "mock";
}

static int m_recv(const void *s, void *buf, const size_t len, const time_t timeout)
{
	size_t n = tape_len - tape_off;

	(void)s;
	(void)timeout;
	if (n == 0)
		return TR_ERROR;
	if (n > len)
		n = len;
	memcpy(buf, tape + tape_off, n);
	tape_off += n;
	return (int)n;
}

static int m_send(const void *s, const void *pdu, const size_t len, const time_t timeout)
{
	(void)s;
	(void)pdu;
	(void)timeout;
	return (int)len;
}

/* ------------------------------------------------------------------ observation */
static void pdump_cb(const struct pfx_record *r, void *data)
{
	char b[128];

	(void)data;
	fmt_prec(b, sizeof(b), r);
	printf(" %s", b);
}

static void count_nodes(const struct trie_node *n, unsigned int *nodes, unsigned int *elems, unsigned int *empty)
{
	const struct h_node_data *d;

	if (!n)
		return;
	d = n->data;
	(*nodes)++;
	*elems += d->len;
	if (d->len == 0 || !d->ary)
		(*empty)++;
	count_nodes(n->lchild, nodes, elems, empty);
	count_nodes(n->rchild, nodes, elems, empty);
}

static void print_kresult(int rc, struct spki_record *res, unsigned int n)
{
	printf("%d", rc);
	if (rc == SPKI_SUCCESS) {
		printf(" %u", n);
		for (unsigned int i = 0; i < n; i++) {
			char b[RECBUF];

			fmt_kfields(b, res[i].asn, res[i].ski, res[i].spki, res[i].socket);
			printf(" %s", b);
		}
		/* the caller owns the result array and returns it to the configured allocator */
		lrtr_free(res);
	}
}

/* ------------------------------------------------------------------ pair: two operations, two threads */
struct pop {
	int kind; /* 0 padd, 1 prm, 2 kadd, 3 krm */
	int t;
	struct pfx_record pr;
	struct spki_record kr;
	int me;
	int rc;
};

static bool parse_pop(char **w, int n, int t, struct pop *o)
{
	memset(o, 0, sizeof(*o));
	o->t = t;
	if (n == 7 && (!strcmp(w[0], "padd") || !strcmp(w[0], "prm"))) {
		o->kind = !strcmp(w[0], "padd") ? 0 : 1;
		return parse_prec(w + 1, &o->pr);
	}
	if (n == 5 && (!strcmp(w[0], "kadd") || !strcmp(w[0], "krm")) && klive[t]) {
		o->kind = !strcmp(w[0], "kadd") ? 2 : 3;
		return parse_krec(w + 1, &o->kr);
	}
	return false;
}

static void *pop_thread(void *arg)
{
	struct pop *o = arg;

	sched_me = o->me;
	sched_hooked = false;
	switch (o->kind) {
	case 0:
		o->rc = pfx_table_add(&ptabs[o->t], &o->pr);
		break;
	case 1:
		o->rc = pfx_table_remove(&ptabs[o->t], &o->pr);
		break;
	case 2:
		o->rc = spki_table_add_entry(&ktabs[o->t], &o->kr);
		break;
	default:
		o->rc = spki_table_remove_entry(&ktabs[o->t], &o->kr);
		break;
	}
	pthread_mutex_lock(&sch.mu);
	sch.done[o->me] = true;
	pthread_cond_broadcast(&sch.cv);
	pthread_mutex_unlock(&sch.mu);
	return NULL;
}

static void run_pair(struct pop *a, struct pop *b)
{
	pthread_t ta, tb;
	struct timespec ts;

	pthread_mutex_lock(&sch.mu);
	memset(sch.arrived, 0, sizeof(sch.arrived));
	memset(sch.done, 0, sizeof(sch.done));
	memset(sch.timeout, 0, sizeof(sch.timeout));
	sch.met = false;
	sch.active = true;
	pthread_mutex_unlock(&sch.mu);
	a->me = 0;
	b->me = 1;
	pthread_create(&ta, NULL, pop_thread, a);
	/* B starts when A stands at its first allocation request (or has returned without one) */
	pthread_mutex_lock(&sch.mu);
	deadline_in(&ts, 10000);
	while (!sch.arrived[0] && !sch.done[0])
		if (pthread_cond_timedwait(&sch.cv, &sch.mu, &ts) == ETIMEDOUT)
			break;
	pthread_mutex_unlock(&sch.mu);
	pthread_create(&tb, NULL, pop_thread, b);
	pthread_join(ta, NULL);
	pthread_join(tb, NULL);
	pthread_mutex_lock(&sch.mu);
	sch.active = false;
	pthread_mutex_unlock(&sch.mu);
}

int main(void)
{
	char *line = NULL;
	size_t cap = 0;

	setvbuf(stdout, NULL, _IOLBF, 0);
	lrtr_set_alloc_functions(inj_malloc, inj_realloc, inj_free);
	for (int i = 0; i < NTAB; i++) {
		pfx_table_init(&ptabs[i], p_update_cb);
		pcb[i] = true;
	}
	trs.socket = NULL;
	trs.open_fp = m_open;
	trs.close_fp = m_close;
	trs.free_fp = m_free;
	trs.send_fp = m_send;
	trs.recv_fp = m_recv;
	trs.ident_fp = m_ident;
	rtr_init(&socks[0], &trs, &ptabs[0], &ktabs[0], 3600, 7200, 600, RTR_INTERVAL_MODE_DEFAULT_MIN_MAX, NULL,
		 NULL, NULL);

	while (getline(&line, &cap, stdin) > 0) {
		char *w[24];
		int n = 0;
		long k = -1;
		int t = -1, t2 = -1;

		{
			/* the byte stream of a sync line can be long: split only the first words */
			char *save = NULL;

			for (char *tok = strtok_r(line, " \t\r\n", &save); tok && n < 24;
			     tok = strtok_r(NULL, " \t\r\n", &save))
				w[n++] = tok;
		}
		if (n == 0) {
			puts("bad-op");
			continue;
		}
		if (!strcmp(w[0], "sizes") && n == 1) {
			printf("sizes node=%zu ndata=%zu elem=%zu rec=%zu entry=%zu srec=%zu ptr=%zu ptab=%zu ktab=%zu pdu4=%d pdu6=%d pduk=%d\n",
			       sizeof(struct trie_node), sizeof(struct h_node_data), sizeof(struct h_data_elem),
			       sizeof(struct pfx_record), sizeof(struct key_entry), sizeof(struct spki_record),
			       sizeof(void *), sizeof(struct pfx_table), sizeof(struct spki_table), 20, 32, 123);
			continue;
		}
		if (!strcmp(w[0], "setsizes")) {
			/* the model is told the implementation's block sizes; nothing to do on this side */
			puts("ok");
			continue;
		}
		if (!strcmp(w[0], "live") && n == 1) {
			printf("live=%ld foreign=%ld alien=%ld double=%ld\n", live_blocks, foreign_frees, alien_frees,
			       double_frees);
			continue;
		}
		/* observers: <op> T */
		if (n == 2 && (t = tabidx(w[1])) >= 0) {
			if (!strcmp(w[0], "pdump")) {
				printf("recs");
				pfx_table_for_each_ipv4_record(&ptabs[t], pdump_cb, NULL);
				pfx_table_for_each_ipv6_record(&ptabs[t], pdump_cb, NULL);
				printf("\n");
				continue;
			}
			if (!strcmp(w[0], "plog")) {
				printf("log%s\n", ploglen[t] ? plogbuf[t] : "");
				ploglen[t] = 0;
				if (plogbuf[t])
					plogbuf[t][0] = 0;
				continue;
			}
			if (!strcmp(w[0], "pstat")) {
				unsigned int nodes = 0, elems = 0, empty = 0;

				count_nodes(ptabs[t].ipv4, &nodes, &elems, &empty);
				count_nodes(ptabs[t].ipv6, &nodes, &elems, &empty);
				printf("pstat nodes=%u elems=%u empty=%u\n", nodes, elems, empty);
				continue;
			}
			if (!strcmp(w[0], "kdump") && klive[t]) {
				printf("list");
				for (tommy_node *node = tommy_list_head(&ktabs[t].list); node; node = node->next) {
					struct key_entry *e = node->data;
					char b[RECBUF];

					fmt_kfields(b, e->asn, e->ski, e->spki, e->socket);
					printf(" %s", b);
				}
				printf("\n");
				continue;
			}
			if (!strcmp(w[0], "klog")) {
				printf("log%s\n", kloglen[t] ? klogbuf[t] : "");
				kloglen[t] = 0;
				if (klogbuf[t])
					klogbuf[t][0] = 0;
				continue;
			}
			if (!strcmp(w[0], "kstat") && klive[t]) {
				tommy_hashlin *h = &ktabs[t].hashtable;
				unsigned int entries = 0;

				for (tommy_node *node = tommy_list_head(&ktabs[t].list); node; node = node->next)
					entries++;
				printf("kstat entries=%u count=%u bit=%u max=%u lowmax=%u split=%u state=%u\n", entries, h->count,
				       h->bucket_bit, h->bucket_max, h->low_max, h->split, h->state);
				continue;
			}
		}
		/* everything else: <op> <fail> ... */
		if (n < 3 || !parse_fail(w[1], &k)) {
			puts("bad-op");
			continue;
		}
		t = tabidx(w[2]);
		if (n >= 4)
			t2 = tabidx(w[3]);

		if (!strcmp(w[0], "pair") && n >= 9 && k == -1 && t >= 0) {
			/* pair - T <op> <record> | <op> <record>  (op = padd | prm | kadd | krm, both on table T) */
			struct pop oa, ob;
			int bar = -1;

			for (int i = 3; i < n; i++)
				if (!strcmp(w[i], "|"))
					bar = i;
			if (bar < 0 || !parse_pop(w + 3, bar - 3, t, &oa) || !parse_pop(w + bar + 1, n - bar - 1, t, &ob)) {
				puts("bad-op");
				continue;
			}
			arm(-1);
			run_pair(&oa, &ob);
			printf("%d %d sched=%s", oa.rc, ob.rc,
			       sch.met ? "met" : sch.timeout[0] ? "blocked" : sch.timeout[1] ? "late" : "serial");
			finish();
		} else if (!strcmp(w[0], "pnew") && n == 4 && t >= 0 && (!strcmp(w[3], "0") || !strcmp(w[3], "1"))) {
			/* the previous incarnation must have been freed by the op file ("pfree") or be empty */
			if (ptabs[t].ipv4 || ptabs[t].ipv6) {
				puts("bad-op");
				continue;
			}
			arm(k);
			pcb[t] = w[3][0] == '1';
			pfx_table_init(&ptabs[t], pcb[t] ? p_update_cb : NULL);
			ploglen[t] = 0;
			if (plogbuf[t])
				plogbuf[t][0] = 0;
			printf("0");
			finish();
		} else if ((!strcmp(w[0], "padd") || !strcmp(w[0], "prm")) && n == 9 && t >= 0) {
			struct pfx_record r;
			int rc;

			if (!parse_prec(w + 3, &r)) {
				puts("bad-op");
				continue;
			}
			arm(k);
			rc = !strcmp(w[0], "padd") ? pfx_table_add(&ptabs[t], &r) : pfx_table_remove(&ptabs[t], &r);
			printf("%d", rc);
			finish();
		} else if (!strcmp(w[0], "psrcrm") && n == 4 && t >= 0) {
			unsigned long src;
			int rc;

			if (!parse_uint(w[3], NSRC - 1, &src)) {
				puts("bad-op");
				continue;
			}
			arm(k);
			rc = pfx_table_src_remove(&ptabs[t], &socks[src]);
			printf("%d", rc);
			finish();
		} else if (!strcmp(w[0], "pval") && n == 7 && t >= 0) {
			struct lrtr_ip_addr a;
			unsigned long len, asn;
			struct pfx_record *reason = NULL;
			unsigned int rlen = 0;
			enum pfxv_state st = BGP_PFXV_STATE_NOT_FOUND;
			int rc;

			if (!parse_addr(w[3], w[4], &a) || !parse_uint(w[5], 255, &len) ||
			    !parse_uint(w[6], 0xffffffffUL, &asn)) {
				puts("bad-op");
				continue;
			}
			arm(k);
			rc = pfx_table_validate_r(&ptabs[t], &reason, &rlen, (uint32_t)asn, &a, (uint8_t)len, &st);
			printf("%d", rc);
			if (rc == PFX_SUCCESS) {
				printf(" %s", st == BGP_PFXV_STATE_VALID ? "VALID" :
					      st == BGP_PFXV_STATE_NOT_FOUND ? "NOTFOUND" : "INVALID");
				for (unsigned int i = 0; i < rlen; i++) {
					char b[128];

					fmt_prec(b, sizeof(b), &reason[i]);
					printf(" %s", b);
				}
			} else if (reason || rlen) {
				printf(" DANGLING");
			}
			/* the caller owns the reason array and returns it to the configured allocator */
			lrtr_free(reason);
			finish();
		} else if (!strcmp(w[0], "pcopyx") && n == 5 && t >= 0 && t2 >= 0 && t != t2) {
			unsigned long src;
			int rc;

			if (!parse_uint(w[4], NSRC - 1, &src)) {
				puts("bad-op");
				continue;
			}
			arm(k);
			rc = pfx_table_copy_except_socket(&ptabs[t], &ptabs[t2], &socks[src]);
			printf("%d", rc);
			finish();
		} else if (!strcmp(w[0], "pfree") && n == 3 && t >= 0) {
			arm(k);
			pfx_table_free(&ptabs[t]);
			pfx_table_init(&ptabs[t], pcb[t] ? p_update_cb : NULL);
			printf("0");
			finish();
		} else if (!strcmp(w[0], "knew") && n == 4 && t >= 0 && !klive[t] &&
			   (!strcmp(w[3], "0") || !strcmp(w[3], "1"))) {
			int rc;

			arm(k);
			kcb[t] = w[3][0] == '1';
			rc = call_kinit(&ktabs[t], kcb[t] ? k_update_cb : NULL);
			klive[t] = rc == 0;
			kloglen[t] = 0;
			if (klogbuf[t])
				klogbuf[t][0] = 0;
			printf("%d", rc);
			finish();
		} else if ((!strcmp(w[0], "kadd") || !strcmp(w[0], "krm")) && n == 7 && t >= 0 && klive[t]) {
			struct spki_record r;
			int rc;

			if (!parse_krec(w + 3, &r)) {
				puts("bad-op");
				continue;
			}
			arm(k);
			rc = !strcmp(w[0], "kadd") ? spki_table_add_entry(&ktabs[t], &r) :
						      spki_table_remove_entry(&ktabs[t], &r);
			printf("%d", rc);
			finish();
		} else if (!strcmp(w[0], "ksrcrm") && n == 4 && t >= 0 && klive[t]) {
			unsigned long src;
			int rc;

			if (!parse_uint(w[3], NSRC - 1, &src)) {
				puts("bad-op");
				continue;
			}
			arm(k);
			rc = spki_table_src_remove(&ktabs[t], &socks[src]);
			printf("%d", rc);
			finish();
		} else if (!strcmp(w[0], "kget") && n == 5 && t >= 0 && klive[t]) {
			unsigned long asn;
			uint8_t ski[SKI_SIZE];
			struct spki_record *res = NULL;
			unsigned int rn = 0;
			int rc;

			if (!parse_uint(w[3], 0xffffffffUL, &asn) || !parse_hexn(w[4], ski, SKI_SIZE)) {
				puts("bad-op");
				continue;
			}
			arm(k);
			rc = spki_table_get_all(&ktabs[t], (uint32_t)asn, ski, &res, &rn);
			print_kresult(rc, res, rn);
			finish();
		} else if (!strcmp(w[0], "kbyski") && n == 4 && t >= 0 && klive[t]) {
			uint8_t ski[SKI_SIZE];
			struct spki_record *res = NULL;
			unsigned int rn = 0;
			int rc;

			if (!parse_hexn(w[3], ski, SKI_SIZE)) {
				puts("bad-op");
				continue;
			}
			arm(k);
			rc = spki_table_search_by_ski(&ktabs[t], ski, &res, &rn);
			print_kresult(rc, res, rn);
			finish();
		} else if (!strcmp(w[0], "kcopyx") && n == 5 && t >= 0 && t2 >= 0 && t != t2 && klive[t] && klive[t2]) {
			unsigned long src;
			int rc;

			if (!parse_uint(w[4], NSRC - 1, &src)) {
				puts("bad-op");
				continue;
			}
			arm(k);
			rc = spki_table_copy_except_socket(&ktabs[t], &ktabs[t2], &socks[src]);
			printf("%d", rc);
			finish();
		} else if ((!strcmp(w[0], "kfree") || !strcmp(w[0], "kfreenn")) && n == 3 && t >= 0 && klive[t]) {
			arm(k);
			if (!strcmp(w[0], "kfree"))
				spki_table_free(&ktabs[t]);
			else
				spki_table_free_without_notify(&ktabs[t]);
			klive[t] = false;
			printf("0");
			finish();
		} else if (!strcmp(w[0], "sync") && n == 4 && klive[0] && (!strcmp(w[2], "0") || !strcmp(w[2], "1"))) {
			/* sync <fail> <reset> <hex byte stream of the cache's answer>: the real rtr_sync of
			 * socket 0 (tables P0 / K0) on a scripted transport */
			size_t hl = strlen(w[3]);
			bool reset = w[2][0] == '1';
			bool ok = hl % 2 == 0 && hl > 0;
			int rc;

			for (size_t i = 0; ok && i < hl; i++)
				if (hexval(w[3][i]) < 0)
					ok = false;
			if (!ok) {
				puts("bad-op");
				continue;
			}
			__real_free(tape);
			tape_len = hl / 2;
			tape_off = 0;
			tape = malloc(tape_len);
			for (size_t i = 0; i < tape_len; i++)
				tape[i] = (unsigned char)(hexval(w[3][2 * i]) * 16 + hexval(w[3][2 * i + 1]));
			socks[0].version = 1;
			socks[0].has_received_pdus = true;
			socks[0].state = reset ? RTR_RESET : RTR_SYNC;
			socks[0].request_session_id = reset;
			socks[0].session_id = 7;
			socks[0].serial_number = 5;
			socks[0].is_resetting = reset;
			arm(k);
			rc = rtr_sync(&socks[0]);
			printf("%d req=%d serial=%u resetting=%d", rc, socks[0].request_session_id, socks[0].serial_number,
			       socks[0].is_resetting);
			finish();
		} else {
			puts("bad-op");
		}
	}
	fflush(stdout);
	free(line);
	return 0;
}
