/*
 * Implementation-side executor of the line protocol of Driver/Consts.lean (C20 names, C17 timers).
 *
 * Runs the REAL functions of the current tree in-process:
 *   rtr_state_to_str, rtr_mgr_status_to_str                                  (C20; an out-of-table read aborts under ASan)
 *   rtr_check_interval_range, rtr_check_interval_option, apply_interval_value  (directly; packets.c is #included)
 *   rtr_init, rtr_mgr_init
 *   rtr_sync on a scripted mock transport delivering Cache Response + End of Data
 *   rtr_wait_for_sync with a fake clock; the timeout handed to the transport receive function is recorded
 *   rtr_wait_for_sync while the PDU arrives in fragments at scripted times (the clock advances inside the transport
 *     call): EVERY call of the transport receive function is recorded with length, timeout and clock reading
 *   rtr_start (the real state-machine thread) against a scripted cache; trace of sends and established waits
 *
 * No source hooks: the transport is a struct tr_socket of function pointers, the clock is
 * clock_gettime()/sleep() defined in this executable.
 */
#define _GNU_SOURCE
#include "rtrlib/rtr/packets.c"

#include "rtrlib/rtr_mgr.h"
#include "rtrlib/transport/transport.h"

#include <errno.h>
#include <limits.h>
#include <pthread.h>
#include <semaphore.h>
#include <stdarg.h>
#include <sys/syscall.h>
#include <time.h>
#include <unistd.h>

/* ---------------------------------------------------------------- fake clock */
static volatile long long fake_now = 1000;

int clock_gettime(clockid_t id, struct timespec *ts)
{
	if (id == CLOCK_MONOTONIC) {
		ts->tv_sec = (time_t)fake_now;
		ts->tv_nsec = 0;
		return 0;
	}
	return (int)syscall(SYS_clock_gettime, id, ts);
}

unsigned int sleep(unsigned int s)
{
	fake_now += s;
	return 0;
}

/* ---------------------------------------------------------------- mock transport */
#define MAXFRAG 24
enum ek { EK_BYTES, EK_RET, EK_END };
struct entry {
	enum ek k;
	unsigned char data[64];
	size_t len, off;
	int ret;
	int is_wait; /* delivered while the socket is established (rtr_wait_for_sync) */
	int started;
	long long dt; /* seconds before the event arrives (capped by the timeout asked for) */
	int full_timeout; /* the whole timeout passes */
	/* fragmented delivery: frag[i].n bytes become available frag[i].dt seconds after the previous fragment was
	 * delivered (the first: after the first receive call); when the fragments are used up the cache is silent */
	int nfrag, fi;
	struct {
		long long dt;
		size_t n;
	} frag[MAXFRAG];
};
#define MAXSCRIPT 512
static struct entry script[MAXSCRIPT];
static int sc_n, sc_i;
static struct rtr_socket *cur_sock;
static int fsm_mode;
static long long first_timeout;
static int have_first_timeout;
static sem_t done_sem;

static char trace[32768];
static size_t trace_len;

static void tracef(const char *fmt, ...)
{
	va_list ap;

	if (trace_len + 64 > sizeof(trace))
		return;
	if (trace_len)
		trace[trace_len++] = ' ';
	va_start(ap, fmt);
	trace_len += (size_t)vsnprintf(trace + trace_len, sizeof(trace) - trace_len, fmt, ap);
	va_end(ap);
}

static void script_reset(void)
{
	memset(script, 0, sizeof(script));
	sc_n = sc_i = 0;
	trace_len = 0;
	trace[0] = 0;
	have_first_timeout = 0;
	first_timeout = -1;
	fsm_mode = 0;
}

static struct entry *script_add(enum ek k)
{
	if (sc_n >= MAXSCRIPT) {
		fprintf(stderr, "script too long\n");
		exit(3);
	}
	script[sc_n].k = k;
	return &script[sc_n++];
}

static bool mode_switch_pending;
static int mode_switch_to;

static int mock_recv(const void *s, void *buf, const size_t len, const time_t timeout)
{
	(void)s;
	if (!have_first_timeout) {
		have_first_timeout = 1;
		first_timeout = (long long)timeout;
	}
	if (sc_i >= sc_n)
		return TR_ERROR;
	struct entry *e = &script[sc_i];

	/* `eodm`: the application changes the interval mode while the response streams in - after the Cache Response has been read,
	 * before the first byte of the End of Data is delivered */
	if (mode_switch_pending && sc_i == 1 && e->off == 0) {
		mode_switch_pending = false;
		rtr_set_interval_mode(cur_sock, (enum rtr_interval_mode)mode_switch_to);
	}
	if (e->k == EK_END) {
		tracef("W%lld@%lld", (long long)timeout, fake_now);
		if (cur_sock->state != RTR_ESTABLISHED)
			tracef("!end-in-state-%d", (int)cur_sock->state);
		sem_post(&done_sem);
		for (;;)
			pause(); /* cancellation point; rtr_stop() cancels this thread */
	}
	if (e->nfrag) {
		if (!e->started) {
			e->started = 1;
			if (fsm_mode) {
				tracef("W%lld@%lld", (long long)timeout, fake_now);
				if (cur_sock->state != RTR_ESTABLISHED)
					tracef("!wait-in-state-%d", (int)cur_sock->state);
			}
		}
		tracef("R%zu:%lld@%lld", len, (long long)timeout, fake_now);
		if (e->fi < e->nfrag && e->frag[e->fi].dt <= (long long)timeout) {
			/* due within the timeout (a timeout of 0 polls): delivered when it is due */
			size_t k = e->frag[e->fi].n < len ? e->frag[e->fi].n : len;

			fake_now += e->frag[e->fi].dt;
			e->frag[e->fi].dt = 0;
			for (size_t i = 0; i < k; i++)
				((unsigned char *)buf)[i] = e->off + i < e->len ? e->data[e->off + i] : 0;
			e->off += k;
			e->frag[e->fi].n -= k;
			if (!e->frag[e->fi].n)
				e->fi++;
			if (e->off >= e->len)
				sc_i++;
			return (int)k;
		}
		/* nothing arrives in time: the whole timeout passes (a negative one passes no time) */
		if ((long long)timeout > 0)
			fake_now += (long long)timeout;
		sc_i++;
		return TR_WOULDBLOCK;
	}
	if (e->is_wait && !e->started) {
		e->started = 1;
		tracef("W%lld@%lld", (long long)timeout, fake_now);
		if (cur_sock->state != RTR_ESTABLISHED)
			tracef("!wait-in-state-%d", (int)cur_sock->state);
		if (e->full_timeout)
			fake_now += (long long)timeout;
		else
			fake_now += e->dt < (long long)timeout ? e->dt : (long long)timeout;
	} else if (!e->is_wait && fsm_mode && e->off == 0 && cur_sock->state == RTR_ESTABLISHED) {
		tracef("!sync-data-while-established");
	}
	if (e->k == EK_RET) {
		sc_i++;
		return e->ret;
	}
	size_t n = e->len - e->off;

	if (n > len)
		n = len;
	memcpy(buf, e->data + e->off, n);
	e->off += n;
	if (e->off == e->len)
		sc_i++;
	return (int)n;
}

static int mock_send(const void *s, const void *pdu, const size_t len, const time_t timeout)
{
	(void)s;
	(void)timeout;
	if (fsm_mode && len >= 2)
		tracef("S%u@%lld", (unsigned int)((const unsigned char *)pdu)[1], fake_now);
	return (int)len;
}

static int mock_open(void *s)
{
	(void)s;
	return TR_SUCCESS;
}

static void mock_close(void *s)
{
	(void)s;
}

static void mock_free(struct tr_socket *s)
{
	(void)s;
}

static const char *mock_ident(void *s)
{
	(void)s;
	return "mock";
}

static void mock_tr(struct tr_socket *tr)
{
	tr->socket = NULL;
	tr->open_fp = mock_open;
	tr->close_fp = mock_close;
	tr->free_fp = mock_free;
	tr->send_fp = mock_send;
	tr->recv_fp = mock_recv;
	tr->ident_fp = mock_ident;
}

/* ---------------------------------------------------------------- PDU bytes (network order) */
static void put16(unsigned char *p, unsigned int v)
{
	p[0] = (unsigned char)(v >> 8);
	p[1] = (unsigned char)v;
}

static void put32(unsigned char *p, uint32_t v)
{
	p[0] = (unsigned char)(v >> 24);
	p[1] = (unsigned char)(v >> 16);
	p[2] = (unsigned char)(v >> 8);
	p[3] = (unsigned char)v;
}

#define SESSION 7

static struct entry *add_hdr(unsigned int ver, unsigned int type, unsigned int field, uint32_t len)
{
	struct entry *e = script_add(EK_BYTES);

	e->data[0] = (unsigned char)ver;
	e->data[1] = (unsigned char)type;
	put16(e->data + 2, field);
	put32(e->data + 4, len);
	e->len = len;
	return e;
}

static void add_cache_response(unsigned int ver)
{
	add_hdr(ver, CACHE_RESPONSE, SESSION, sizeof(struct pdu_cache_response));
}

static void add_eod(unsigned int ver, uint32_t refresh, uint32_t retry, uint32_t expire)
{
	if (ver == 0) {
		struct entry *e = add_hdr(0, EOD, SESSION, sizeof(struct pdu_end_of_data_v0));

		put32(e->data + offsetof(struct pdu_end_of_data_v0, sn), 1);
	} else {
		struct entry *e = add_hdr(ver, EOD, SESSION, sizeof(struct pdu_end_of_data_v1));

		put32(e->data + offsetof(struct pdu_end_of_data_v1, sn), 1);
		put32(e->data + offsetof(struct pdu_end_of_data_v1, refresh_interval), refresh);
		put32(e->data + offsetof(struct pdu_end_of_data_v1, retry_interval), retry);
		put32(e->data + offsetof(struct pdu_end_of_data_v1, expire_interval), expire);
	}
}

static struct entry *add_serial_notify(unsigned int ver)
{
	struct entry *e = add_hdr(ver, SERIAL_NOTIFY, SESSION, sizeof(struct pdu_serial_notify));

	put32(e->data + offsetof(struct pdu_serial_notify, sn), 2);
	return e;
}

static struct entry *add_cache_reset(unsigned int ver)
{
	return add_hdr(ver, CACHE_RESET, 0, sizeof(struct pdu_header));
}

static struct entry *add_ipv4(unsigned int ver)
{
	struct entry *e = add_hdr(ver, IPV4_PREFIX, 0, sizeof(struct pdu_ipv4));

	e->data[offsetof(struct pdu_ipv4, flags)] = 1;
	e->data[offsetof(struct pdu_ipv4, prefix_len)] = 8;
	e->data[offsetof(struct pdu_ipv4, max_prefix_len)] = 8;
	put32(e->data + offsetof(struct pdu_ipv4, prefix), 0x0a000000);
	put32(e->data + offsetof(struct pdu_ipv4, asn), 65000);
	return e;
}

struct fragspec {
	long long dt, n;
};

/* "<dt>.<n>": 0 <= dt < 10^6, 1 <= n <= 64 */
static int parse_ll(const char *s, long long lo, long long hi, long long *out);
static int parse_frag(char *w, struct fragspec *f)
{
	char *dot = strchr(w, '.');

	if (!dot || strchr(dot + 1, '.'))
		return 0;
	*dot = 0;
	int ok = parse_ll(w, 0, 999999, &f->dt) && parse_ll(dot + 1, 1, 64, &f->n);

	*dot = '.';
	return ok;
}

static void set_frags(struct entry *e, int n, const struct fragspec *f)
{
	e->nfrag = n;
	e->fi = 0;
	for (int i = 0; i < n; i++) {
		e->frag[i].dt = f[i].dt;
		e->frag[i].n = (size_t)f[i].n;
	}
}

/* ---------------------------------------------------------------- parsing helpers */
static int parse_ll(const char *s, long long lo, long long hi, long long *out)
{
	char *end;

	if (!*s)
		return 0;
	errno = 0;
	long long v = strtoll(s, &end, 10);

	if (errno || *end || v < lo || v > hi)
		return 0;
	/* the model's parser accepts only canonical decimal */
	for (const char *p = s + (*s == '-'); *p; p++)
		if (*p < '0' || *p > '9')
			return 0;
	if (s[0] == '-' && !s[1])
		return 0;
	*out = v;
	return 1;
}

#define U32(s, out) parse_ll(s, 0, 4294967295LL, out)
#define I32(s, out) parse_ll(s, -2147483648LL, 4294967295LL, out)
#define TIME(s, out) parse_ll(s, 0, 4611686018427387903LL, out)
#define VER(s, out) parse_ll(s, 0, 1, out)

static struct pfx_table pfx;
static struct spki_table spki;

static void tables_init(void)
{
	pfx_table_init(&pfx, NULL);
	spki_table_init(&spki, NULL);
}

static void tables_free(void)
{
	pfx_table_free(&pfx);
	spki_table_free(&spki);
}

/* ---------------------------------------------------------------- operations */
/* copy up to n bytes from an arbitrary address without faulting and without sanitizer interception:
 * the kernel does the reading (write(2) into a pipe fails with EFAULT on an unreadable address) */
static long safe_copy(const void *p, char *buf, size_t n)
{
	static int pfd[2] = {-1, -1};

	if (pfd[0] < 0 && pipe(pfd) != 0)
		return -1;
	long r = syscall(SYS_write, pfd[1], p, n);

	if (r <= 0)
		return -1;
	long got = 0;

	while (got < r) {
		long k = syscall(SYS_read, pfd[0], buf + got, (size_t)(r - got));

		if (k <= 0)
			return -1;
		got += k;
	}
	return r;
}

/* reply for a returned name pointer: `null`, `str <identifier>` or `ptr <why>` (a non-NULL pointer that
 * is not an identifier string; never dereferenced by this process) */
static void print_name(const char *s)
{
	char buf[96];

	if (!s) {
		printf("null\n");
		return;
	}
	long r = safe_copy(s, buf, sizeof(buf) - 1);

	if (r <= 0) {
		printf("ptr unreadable\n");
		return;
	}
	long len = 0;

	while (len < r && buf[len])
		len++;
	if (len == r) {
		printf("ptr unterminated\n");
		return;
	}
	if (len == 0) {
		printf("ptr empty-string\n");
		return;
	}
	for (long i = 0; i < len; i++) {
		unsigned char c = (unsigned char)buf[i];

		if (!((c >= 'A' && c <= 'Z') || (c >= 'a' && c <= 'z') || (c >= '0' && c <= '9') || c == '_')) {
			printf("ptr not-an-identifier\n");
			return;
		}
	}
	printf("str %s\n", buf);
}

static void op_name(int which, long long v)
{
	const char *s;

	if (which == 0)
		s = rtr_state_to_str(v < 0 ? (enum rtr_socket_state)(int)v : (enum rtr_socket_state)(unsigned int)v);
	else
		s = rtr_mgr_status_to_str(v < 0 ? (enum rtr_mgr_status)(int)v : (enum rtr_mgr_status)(unsigned int)v);
	print_name(s);
}

static void op_eod(long long mode, long long sv, long long pv, long long r, long long e, long long y, long long pr,
		   long long py, long long pe, long long now, bool sw, long long mode2)
{
	struct rtr_socket sock;
	struct tr_socket tr;

	memset(&sock, 0, sizeof(sock));
	mock_tr(&tr);
	tables_init();
	script_reset();
	if (rtr_init(&sock, &tr, &pfx, &spki, RTR_REFRESH_DEFAULT, RTR_EXPIRATION_DEFAULT, RTR_RETRY_DEFAULT,
		     RTR_INTERVAL_MODE_DEFAULT_MIN_MAX, NULL, NULL, NULL) != RTR_SUCCESS) {
		printf("harness-init-failed\n");
		tables_free();
		return;
	}
	sock.refresh_interval = (unsigned int)r;
	sock.expire_interval = (unsigned int)e;
	sock.retry_interval = (unsigned int)y;
	sock.iv_mode = (enum rtr_interval_mode)(int)mode;
	sock.version = (unsigned int)sv;
	sock.state = RTR_SYNC;
	cur_sock = &sock;
	fake_now = now;
	add_cache_response((unsigned int)pv);
	add_eod((unsigned int)pv, (uint32_t)pr, (uint32_t)py, (uint32_t)pe);
	mode_switch_pending = sw;
	mode_switch_to = (int)mode2;
	int rc = rtr_sync(&sock);

	mode_switch_pending = false;

	printf("%d %u %u %u %u %lld\n", rc, sock.refresh_interval, sock.expire_interval, sock.retry_interval,
	       sock.version, (long long)sock.last_update);
	tables_free();
}

static void op_wait(long long last, long long refresh, long long now, const char *ev)
{
	struct rtr_socket sock;
	struct tr_socket tr;

	memset(&sock, 0, sizeof(sock));
	mock_tr(&tr);
	tables_init();
	script_reset();
	rtr_init(&sock, &tr, &pfx, &spki, RTR_REFRESH_DEFAULT, RTR_EXPIRATION_DEFAULT, RTR_RETRY_DEFAULT,
		 RTR_INTERVAL_MODE_IGNORE_ANY, NULL, NULL, NULL);
	sock.refresh_interval = (unsigned int)refresh;
	sock.last_update = (time_t)last;
	sock.state = RTR_ESTABLISHED;
	sock.session_id = SESSION;
	sock.request_session_id = false;
	cur_sock = &sock;
	fake_now = now;
	if (!strcmp(ev, "notify"))
		add_serial_notify(sock.version);
	else if (!strcmp(ev, "other"))
		add_cache_reset(sock.version);
	else if (!strcmp(ev, "timeout"))
		script_add(EK_RET)->ret = TR_WOULDBLOCK;
	else if (!strcmp(ev, "intr"))
		script_add(EK_RET)->ret = TR_INTR;
	else
		script_add(EK_RET)->ret = TR_ERROR;
	int rc = rtr_wait_for_sync(&sock);

	printf("%d %lld\n", rc, first_timeout);
	tables_free();
}

static void op_waitf(long long last, long long refresh, long long now, const char *kind, int nf, const struct fragspec *f)
{
	struct rtr_socket sock;
	struct tr_socket tr;
	struct entry *e;

	memset(&sock, 0, sizeof(sock));
	mock_tr(&tr);
	tables_init();
	script_reset();
	rtr_init(&sock, &tr, &pfx, &spki, RTR_REFRESH_DEFAULT, RTR_EXPIRATION_DEFAULT, RTR_RETRY_DEFAULT,
		 RTR_INTERVAL_MODE_IGNORE_ANY, NULL, NULL, NULL);
	sock.refresh_interval = (unsigned int)refresh;
	sock.last_update = (time_t)last;
	sock.state = RTR_ESTABLISHED;
	sock.session_id = SESSION;
	sock.request_session_id = false;
	cur_sock = &sock;
	fake_now = now;
	if (!strcmp(kind, "notify"))
		e = add_serial_notify(sock.version);
	else if (!strcmp(kind, "reset"))
		e = add_cache_reset(sock.version);
	else
		e = add_ipv4(sock.version);
	set_frags(e, nf, f);
	if (!nf) {
		/* no fragment at all: the cache is silent from the start (fragment list used up) */
		e->nfrag = 1;
		e->fi = 1;
	}
	int rc = rtr_wait_for_sync(&sock);

	printf("%d %lld%s%s\n", rc, fake_now, trace_len ? " " : "", trace);
	tables_free();
}

static void op_mgrinit(int ngroups, const int *sizes, long long r, long long e, long long y)
{
	struct rtr_mgr_group groups[8];
	struct rtr_socket *socks[8][8];
	struct rtr_socket store[64];
	struct tr_socket trs[64];
	struct rtr_mgr_config *conf = NULL;
	int k = 0;

	memset(store, 0, sizeof(store));
	for (int g = 0; g < ngroups; g++) {
		for (int j = 0; j < sizes[g]; j++) {
			mock_tr(&trs[k]);
			store[k].tr_socket = &trs[k];
			socks[g][j] = &store[k];
			k++;
		}
		groups[g].sockets = socks[g];
		groups[g].sockets_len = (unsigned int)sizes[g];
		groups[g].preference = (uint8_t)(g + 1);
		groups[g].status = RTR_MGR_CLOSED;
	}
	int rc = rtr_mgr_init(&conf, groups, (unsigned int)ngroups, (unsigned int)r, (unsigned int)e, (unsigned int)y, NULL,
			      NULL, NULL, NULL);

	if (rc != RTR_SUCCESS || k == 0) {
		printf("%d 0\n", rc);
	} else {
		int same = 1;

		for (int i = 1; i < k; i++)
			if (store[i].refresh_interval != store[0].refresh_interval ||
			    store[i].expire_interval != store[0].expire_interval ||
			    store[i].retry_interval != store[0].retry_interval || store[i].iv_mode != store[0].iv_mode)
				same = 0;
		printf("%d %d %u %u %u %d%s\n", rc, k, store[0].refresh_interval, store[0].expire_interval,
		       store[0].retry_interval, (int)store[0].iv_mode, same ? "" : " mixed");
	}
	if (conf)
		rtr_mgr_free(conf);
}

struct fsm_ev {
	char kind;
	long long dt, e, r, y;
	int nfrag;
	struct fragspec frag[MAXFRAG];
};

static void op_fsm(long long mode, long long ver, long long now, long long ri, long long ei, long long yi, long long e0,
		   long long r0, long long y0, int nev, const struct fsm_ev *evs)
{
	static struct rtr_socket sock;
	static struct tr_socket tr;

	memset(&sock, 0, sizeof(sock));
	mock_tr(&tr);
	tables_init();
	script_reset();
	int rc = rtr_init(&sock, &tr, &pfx, &spki, (unsigned int)ri, (unsigned int)ei, (unsigned int)yi,
			  (enum rtr_interval_mode)(int)mode, NULL, NULL, NULL);
	if (rc != RTR_SUCCESS) {
		printf("init %d\n", rc);
		tables_free();
		return;
	}
	cur_sock = &sock;
	fake_now = now;
	fsm_mode = 1;
	add_cache_response((unsigned int)ver);
	add_eod((unsigned int)ver, (uint32_t)r0, (uint32_t)y0, (uint32_t)e0);
	for (int i = 0; i < nev; i++) {
		struct entry *w;

		switch (evs[i].kind) {
		case 'N':
			w = add_serial_notify((unsigned int)ver);
			w->is_wait = 1;
			w->dt = evs[i].dt;
			break;
		case 'T':
			w = script_add(EK_RET);
			w->ret = TR_WOULDBLOCK;
			w->is_wait = 1;
			w->full_timeout = 1;
			break;
		case 'F':
			w = add_serial_notify((unsigned int)ver);
			set_frags(w, evs[i].nfrag, evs[i].frag);
			break;
		case 'X':
			w = add_cache_reset((unsigned int)ver);
			w->is_wait = 1;
			w->dt = evs[i].dt;
			break;
		default:
			w = script_add(EK_RET);
			w->ret = TR_INTR;
			w->is_wait = 1;
			w->dt = evs[i].dt;
			break;
		}
		if (evs[i].kind == 'N' || evs[i].kind == 'T' || evs[i].kind == 'F') {
			add_cache_response((unsigned int)ver);
			add_eod((unsigned int)ver, (uint32_t)evs[i].r, (uint32_t)evs[i].y, (uint32_t)evs[i].e);
		}
	}
	script_add(EK_END);
	sem_init(&done_sem, 0, 0);
	if (rtr_start(&sock) != RTR_SUCCESS) {
		printf("start-failed\n");
		tables_free();
		return;
	}
	struct timespec ts;

	clock_gettime(CLOCK_REALTIME, &ts);
	ts.tv_sec += 10;
	int timed_out = 0;

	while (sem_timedwait(&done_sem, &ts) != 0) {
		if (errno == EINTR)
			continue;
		timed_out = 1;
		break;
	}
	rtr_stop(&sock);
	if (timed_out)
		tracef("!script-not-finished");
	printf("%s\n", trace);
	sem_destroy(&done_sem);
	tables_free();
}

/* ---------------------------------------------------------------- main loop */
#define MAXW 96

int main(void)
{
	char *line = NULL;
	size_t cap = 0;

	setvbuf(stdout, NULL, _IOLBF, 0);
	while (getline(&line, &cap, stdin) > 0) {
		char *w[MAXW];
		int n = 0;

		for (char *t = strtok(line, " \t\r\n"); t && n < MAXW; t = strtok(NULL, " \t\r\n"))
			w[n++] = t;
		long long a[16];

		if (n == 3 && !strcmp(w[0], "name") && (!strcmp(w[1], "state") || !strcmp(w[1], "mgr")) && I32(w[2], &a[0])) {
			op_name(!strcmp(w[1], "mgr"), a[0]);
		} else if (n == 4 && !strcmp(w[0], "range") && U32(w[1], &a[0]) && U32(w[2], &a[1]) && U32(w[3], &a[2])) {
			printf("%d\n", rtr_check_interval_range((uint32_t)a[0], (uint32_t)a[1], (uint32_t)a[2]));
		} else if (n == 7 && !strcmp(w[0], "opt") && I32(w[1], &a[0]) && I32(w[2], &a[1]) && U32(w[3], &a[2]) &&
			   U32(w[4], &a[3]) && U32(w[5], &a[4]) && U32(w[6], &a[5])) {
			struct rtr_socket sock;

			memset(&sock, 0, sizeof(sock));
			sock.refresh_interval = (unsigned int)a[3];
			sock.expire_interval = (unsigned int)a[4];
			sock.retry_interval = (unsigned int)a[5];
			sock.iv_mode = (enum rtr_interval_mode)(int)a[0];
			int rc = rtr_check_interval_option(&sock, (int)a[0], (uint32_t)a[2], (enum rtr_interval_type)(int)a[1]);

			printf("%d %u %u %u\n", rc, sock.refresh_interval, sock.expire_interval, sock.retry_interval);
		} else if (n == 5 && !strcmp(w[0], "init") && U32(w[1], &a[0]) && U32(w[2], &a[1]) && U32(w[3], &a[2]) &&
			   I32(w[4], &a[3])) {
			struct rtr_socket sock;
			struct tr_socket tr;

			memset(&sock, 0xa5, sizeof(sock));
			mock_tr(&tr);
			int rc = rtr_init(&sock, &tr, NULL, NULL, (unsigned int)a[0], (unsigned int)a[1], (unsigned int)a[2],
					  (enum rtr_interval_mode)(int)a[3], NULL, NULL, NULL);
			if (rc == RTR_SUCCESS)
				printf("%d %u %u %u %d %u\n", rc, sock.refresh_interval, sock.expire_interval,
				       sock.retry_interval, (int)sock.iv_mode, sock.version);
			else
				printf("%d\n", rc);
		} else if (n == 5 && !strcmp(w[0], "mgrinit") && U32(w[2], &a[0]) && U32(w[3], &a[1]) && U32(w[4], &a[2])) {
			int sizes[8], ng = 0, ok = 1;
			char *save = NULL;
			char buf[128];

			if (strlen(w[1]) >= sizeof(buf) || w[1][0] == ',' || w[1][strlen(w[1]) - 1] == ',' || strstr(w[1], ",,"))
				ok = 0;
			else {
				strcpy(buf, w[1]);
				for (char *t = strtok_r(buf, ",", &save); t; t = strtok_r(NULL, ",", &save)) {
					long long v;

					if (ng >= 8 || !parse_ll(t, 1, 8, &v)) {
						ok = 0;
						break;
					}
					sizes[ng++] = (int)v;
				}
			}
			if (!ok || ng == 0)
				printf("bad-op\n");
			else {
				op_mgrinit(ng, sizes, a[0], a[1], a[2]);
			}
		} else if (n == 11 && !strcmp(w[0], "eod") && I32(w[1], &a[0]) && VER(w[2], &a[1]) && VER(w[3], &a[2]) &&
			   U32(w[4], &a[3]) && U32(w[5], &a[4]) && U32(w[6], &a[5]) && U32(w[7], &a[6]) && U32(w[8], &a[7]) &&
			   U32(w[9], &a[8]) && TIME(w[10], &a[9])) {
			op_eod(a[0], a[1], a[2], a[3], a[4], a[5], a[6], a[7], a[8], a[9], false, 0);
		} else if (n == 12 && !strcmp(w[0], "eodm") && I32(w[1], &a[0]) && I32(w[2], &a[10]) && VER(w[3], &a[1]) && VER(w[4], &a[2]) &&
			   U32(w[5], &a[3]) && U32(w[6], &a[4]) && U32(w[7], &a[5]) && U32(w[8], &a[6]) && U32(w[9], &a[7]) &&
			   U32(w[10], &a[8]) && TIME(w[11], &a[9])) {
			op_eod(a[0], a[1], a[2], a[3], a[4], a[5], a[6], a[7], a[8], a[9], true, a[10]);
		} else if (n == 3 && !strcmp(w[0], "setmode") && I32(w[1], &a[0]) && I32(w[2], &a[1])) {
			struct rtr_socket sock;

			memset(&sock, 0, sizeof(sock));
			sock.iv_mode = (enum rtr_interval_mode)(int)a[0];
			rtr_set_interval_mode(&sock, (enum rtr_interval_mode)(int)a[1]);
			printf("%d\n", (int)rtr_get_interval_mode(&sock));
		} else if (n == 5 && !strcmp(w[0], "wait") && TIME(w[1], &a[0]) && U32(w[2], &a[1]) && TIME(w[3], &a[2]) &&
			   (!strcmp(w[4], "notify") || !strcmp(w[4], "other") || !strcmp(w[4], "timeout") ||
			    !strcmp(w[4], "intr") || !strcmp(w[4], "error"))) {
			op_wait(a[0], a[1], a[2], w[4]);
		} else if (n >= 5 && n - 5 <= MAXFRAG && !strcmp(w[0], "waitf") && TIME(w[1], &a[0]) && U32(w[2], &a[1]) &&
			   TIME(w[3], &a[2]) && (!strcmp(w[4], "notify") || !strcmp(w[4], "reset") || !strcmp(w[4], "pfx4"))) {
			struct fragspec fr[MAXFRAG];
			int ok = 1;

			for (int i = 5; i < n && ok; i++)
				ok = parse_frag(w[i], &fr[i - 5]);
			if (!ok)
				printf("bad-op\n");
			else
				op_waitf(a[0], a[1], a[2], w[4], n - 5, fr);
		} else if (n >= 10 && !strcmp(w[0], "fsm") && I32(w[1], &a[0]) && VER(w[2], &a[1]) && TIME(w[3], &a[2]) &&
			   U32(w[4], &a[3]) && U32(w[5], &a[4]) && U32(w[6], &a[5]) && U32(w[7], &a[6]) && U32(w[8], &a[7]) &&
			   U32(w[9], &a[8]) && n - 10 <= 64) {
			struct fsm_ev evs[64];
			int ok = 1;

			for (int i = 10; i < n && ok; i++) {
				struct fsm_ev *ev = &evs[i - 10];
				char *f[6];
				int nf = 0;
				char *save = NULL;

				if (strstr(w[i], "::") || w[i][0] == ':' || w[i][strlen(w[i]) - 1] == ':') {
					ok = 0;
					break;
				}
				for (char *t = strtok_r(w[i], ":", &save); t && nf < 6; t = strtok_r(NULL, ":", &save))
					f[nf++] = t;
				memset(ev, 0, sizeof(*ev));
				if (nf == 5 && !strcmp(f[0], "N") && parse_ll(f[1], 0, 999999, &ev->dt) && U32(f[2], &ev->e) &&
				    U32(f[3], &ev->r) && U32(f[4], &ev->y))
					ev->kind = 'N';
				else if (nf == 5 && !strcmp(f[0], "T") && !strcmp(f[1], "0") && U32(f[2], &ev->e) &&
					 U32(f[3], &ev->r) && U32(f[4], &ev->y))
					ev->kind = 'T';
				else if (nf == 5 && !strcmp(f[0], "F") && U32(f[2], &ev->e) && U32(f[3], &ev->r) &&
					 U32(f[4], &ev->y) && f[1][0] != ',' && f[1][strlen(f[1]) - 1] != ',' &&
					 !strstr(f[1], ",,")) {
					char *sv2 = NULL;

					ev->kind = 'F';
					for (char *t = strtok_r(f[1], ",", &sv2); t && ok; t = strtok_r(NULL, ",", &sv2)) {
						if (ev->nfrag >= MAXFRAG || !parse_frag(t, &ev->frag[ev->nfrag]))
							ok = 0;
						else
							ev->nfrag++;
					}
					if (!ev->nfrag)
						ok = 0;
				} else if (nf == 2 && !strcmp(f[0], "X") && parse_ll(f[1], 0, 999999, &ev->dt))
					ev->kind = 'X';
				else if (nf == 2 && !strcmp(f[0], "I") && parse_ll(f[1], 0, 999999, &ev->dt))
					ev->kind = 'I';
				else
					ok = 0;
			}
			if (!ok)
				printf("bad-op\n");
			else
				op_fsm(a[0], a[1], a[2], a[3], a[4], a[5], a[6], a[7], a[8], n - 10, evs);
		} else {
			printf("bad-op\n");
		}
	}
	free(line);
	return 0;
}
