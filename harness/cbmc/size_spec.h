/* The size specification `KnownSize` (RtrProofs/Chunking.lean; RtrProps/C04.lean checkSize_spec proves the model's checkSize
 * equal to it), transcribed to C.  Used by the CBMC obligation checksize.c (real code == this, every input) and by
 * spec_eval.c (this == the Lean model's checkSize, compared on a grid by tools/rtrcheck.py).
 * b = the PDU as received, nested fields big-endian; len/ver/type = header fields. */
#include <stdbool.h>
#include <stdint.h>

static bool spec_known_size(const unsigned char *b, uint32_t len, uint8_t ver, uint8_t type)
{
	switch (type) {
	case 0: return len == 12;
	case 1: return len == 12;
	case 2: return len == 8;
	case 3: return len == 8;
	case 4: return len == 20;
	case 6: return len == 32;
	case 7: return (ver == 0 && len == 12) || (ver == 1 && len == 24);
	case 8: return len == 8;
	case 9: return len == 123;
	case 10: {
		if (len < 16)
			return false;
		uint64_t enc = ((uint64_t)b[8] << 24) | ((uint64_t)b[9] << 16) | ((uint64_t)b[10] << 8) | b[11];
		if ((uint64_t)len < 16 + enc)
			return false;
		uint64_t o = 12 + enc;
		uint64_t txt = ((uint64_t)b[o] << 24) | ((uint64_t)b[o + 1] << 16) | ((uint64_t)b[o + 2] << 8) | b[o + 3];
		return (uint64_t)len == 16 + enc + txt;
	}
	default: return false;
	}
}

