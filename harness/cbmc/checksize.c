/* CBMC obligation (tie for C04): for EVERY header/body the real rtr_pdu_check_size of the current tree
 * (a) performs no out-of-bounds or invalid access on the RTR_MAX_PDU_LEN receive buffer, no undefined shift, no
 *     signed overflow, and
 * (b) returns exactly the specification `KnownSize` that the Lean model's checkSize is proved equal to
 *     (RtrProps/C04.lean: checkSize_spec): ten PDU types with their exact lengths, Error Report = 16 + enc + text.
 * Precondition = what rtr_receive_pdu has established before the call: 8 <= len <= RTR_MAX_PDU_LEN, header in host
 * byte order, rest of the PDU as received. */
#include "rtrlib/rtr/packets.c"

extern unsigned char nondet_uchar(void);
void lrtr_dbg(const char *frmt, ...) { (void)frmt; }

#include "size_spec.h"

int main(void)
{
	unsigned char buf[RTR_MAX_PDU_LEN];
	for (unsigned int i = 0; i < 16; i++)
		buf[i] = nondet_uchar();          /* named inputs for the counterexample; the rest is unconstrained anyway */
	struct pdu_header *h = (struct pdu_header *)buf;
	__CPROVER_assume(h->len >= sizeof(struct pdu_header) && h->len <= RTR_MAX_PDU_LEN);
	/* the input, named for the counterexample trace (header fields in host order, the two words after it big-endian) */
	uint8_t in_ver = h->ver, in_type = h->type;
	uint16_t in_f16 = h->reserved;
	uint32_t in_len = h->len;
	uint32_t in_w8 = ((uint32_t)buf[8] << 24) | ((uint32_t)buf[9] << 16) | ((uint32_t)buf[10] << 8) | buf[11];
	uint32_t in_w12 = ((uint32_t)buf[12] << 24) | ((uint32_t)buf[13] << 16) | ((uint32_t)buf[14] << 8) | buf[15];
	bool r = rtr_pdu_check_size(h);
	bool s = spec_known_size(buf, h->len, h->ver, h->type);
	__CPROVER_assert(r == s, "rtr_pdu_check_size agrees with the size specification KnownSize");
	return 0;
}
