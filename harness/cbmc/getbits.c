/* CBMC obligation (tie for C01/C04): for EVERY argument the callers can pass, lrtr_get_bits and lrtr_ipv6_get_bits of
 * the current tree have no undefined shift / failed assertion and return the bits [from, from+number) of the value
 * in place, all other bits zero (the specification the Lean model Bits.getBits32 / getBits128 is proved against). */
#include <assert.h>
#include "rtrlib/lib/utils.c"
#include "rtrlib/lib/ipv6.c"

extern uint32_t nondet_u32(void);
extern uint8_t nondet_u8(void);

int main(void)
{
	uint32_t v = nondet_u32();
	uint8_t from = nondet_u8(), number = nondet_u8();
	__CPROVER_assume(number <= 32);                     /* all callers: number in {1, 32, min(32, bits left)} or a prefix length <= 32 */
	uint32_t r = lrtr_get_bits(v, from, number);
	for (unsigned int i = 0; i < 32; i++) {
		uint32_t bit = 1u << (31 - i);
		bool inr = i >= from && i < (unsigned int)from + number;
		__CPROVER_assert((r & bit) == (inr ? (v & bit) : 0), "lrtr_get_bits keeps exactly the requested bits");
	}
	struct lrtr_ipv6_addr a;
	for (int k = 0; k < 4; k++)
		a.addr[k] = nondet_u32();
	uint8_t first = nondet_u8(), quantity = nondet_u8();
	/* the two calling patterns of the trie: a prefix (0, len) and a single bit (lvl, 1), lvl up to 128 at a leaf.
	 * (For a span that starts inside a word and crosses into the next one the function is NOT the bit-field
	 * extraction - cbmc finds first=31, quantity=8 - but no caller does that; see DESIGN.md section 0.5.) */
	__CPROVER_assume((first == 0 && quantity <= 128) || (quantity == 1 && first <= 128));
	struct lrtr_ipv6_addr q = lrtr_ipv6_get_bits(&a, first, quantity);
	for (unsigned int i = 0; i < 128; i++) {
		uint32_t bit = 1u << (31 - (i % 32));
		bool inr = first <= 127 && i >= first && i < (unsigned int)first + quantity;
		__CPROVER_assert((q.addr[i / 32] & bit) == (inr ? (a.addr[i / 32] & bit) : 0), "lrtr_ipv6_get_bits keeps exactly the requested bits");
	}
	return 0;
}
