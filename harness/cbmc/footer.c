/* CBMC obligation (tie for C04/C14): for every PDU that passed the size check, the in-place byte-order conversions of
 * the current tree (rtr_pdu_footer_to_host_byte_order, and rtr_pdu_to_network_byte_order on the result) stay inside
 * the PDU (every access lies in [0, len): the object handed to them is exactly len bytes long), and converting back
 * restores the first 16 bytes. */
#include "rtrlib/rtr/packets.c"
#include "rtrlib/lib/convert_byte_order.c"
#include "rtrlib/lib/utils.c"
#include "rtrlib/lib/ipv4.c"
#include "rtrlib/lib/ipv6.c"

extern unsigned char nondet_uchar(void);
void lrtr_dbg(const char *frmt, ...) { (void)frmt; }

int main(void)
{
	unsigned char buf[RTR_MAX_PDU_LEN];
	unsigned char orig[16];
	for (unsigned int i = 0; i < 16; i++) {
		buf[i] = nondet_uchar();
		orig[i] = buf[i];
	}
	struct pdu_header *h = (struct pdu_header *)buf;
	__CPROVER_assume(h->len >= sizeof(struct pdu_header) && h->len <= RTR_MAX_PDU_LEN);
	__CPROVER_assume(rtr_pdu_check_size(h));
	uint32_t len = h->len;
	/* shrink the object to the PDU: any access at or beyond buf+len is a violation */
	unsigned char *pdu = __CPROVER_allocate(len, 0);
	__CPROVER_array_copy(pdu, buf);
	for (unsigned int i = 0; i < 16 && i < len; i++)
		pdu[i] = buf[i];
	rtr_pdu_footer_to_host_byte_order(pdu);
	rtr_pdu_to_network_byte_order(pdu);
	/* the header was in host order before (rtr_receive_pdu converts it first): bring it back for the comparison */
	rtr_pdu_header_to_host_byte_order(pdu);
	for (unsigned int i = 0; i < 16 && i < len; i++)
		__CPROVER_assert(pdu[i] == orig[i], "conversion round trip restores the PDU");
	return 0;
}
