/* CBMC obligation (tie for C17): for EVERY socket, interval mode, interval value and interval type,
 * rtr_check_interval_option of the current tree does exactly what the model function applyIv (RtrModel/Rtr.lean,
 * Rtr.Intervals) does: a value inside the RFC 8210 range, or any value in mode ACCEPT_ANY, is taken; in mode
 * DEFAULT_MIN_MAX a value outside is clamped to the bound it violates; otherwise the timer keeps its value; the other
 * two timers never change; an unknown interval type changes nothing and is an error.  Ranges are RFC 8210 literals. */
#include "rtrlib/rtr/packets.c"

void lrtr_dbg(const char *frmt, ...) { (void)frmt; }
extern uint32_t nondet_u32(void);
extern int nondet_int(void);

int main(void)
{
	struct rtr_socket s;
	uint32_t e0 = nondet_u32(), r0 = nondet_u32(), y0 = nondet_u32(), val = nondet_u32();
	int mode = nondet_int();
	int type = nondet_int();

	s.expire_interval = e0;
	s.refresh_interval = r0;
	s.retry_interval = y0;
	int rc = rtr_check_interval_option(&s, mode, val, (enum rtr_interval_type)type);

	uint32_t lo, hi, cur;
	bool known = true;
	if (type == RTR_INTERVAL_TYPE_EXPIRATION) { lo = 600; hi = 172800; cur = e0; }
	else if (type == RTR_INTERVAL_TYPE_REFRESH) { lo = 1; hi = 86400; cur = r0; }
	else if (type == RTR_INTERVAL_TYPE_RETRY) { lo = 1; hi = 7200; cur = y0; }
	else { known = false; lo = hi = cur = 0; }

	if (!known) {
		__CPROVER_assert(rc == RTR_ERROR, "unknown interval type is an error");
		__CPROVER_assert(s.expire_interval == e0 && s.refresh_interval == r0 && s.retry_interval == y0, "unknown interval type changes nothing");
		return 0;
	}
	uint32_t want;
	if ((lo <= val && val <= hi) || mode == RTR_INTERVAL_MODE_ACCEPT_ANY)
		want = val;
	else if (mode == RTR_INTERVAL_MODE_DEFAULT_MIN_MAX)
		want = val < lo ? lo : hi;
	else
		want = cur;
	__CPROVER_assert(rc == RTR_SUCCESS, "known interval type succeeds");
	__CPROVER_assert((type == RTR_INTERVAL_TYPE_EXPIRATION ? s.expire_interval : e0) == (type == RTR_INTERVAL_TYPE_EXPIRATION ? want : e0) &&
			 s.expire_interval == (type == RTR_INTERVAL_TYPE_EXPIRATION ? want : e0), "expire interval as specified");
	__CPROVER_assert(s.refresh_interval == (type == RTR_INTERVAL_TYPE_REFRESH ? want : r0), "refresh interval as specified");
	__CPROVER_assert(s.retry_interval == (type == RTR_INTERVAL_TYPE_RETRY ? want : y0), "retry interval as specified");
	return 0;
}
