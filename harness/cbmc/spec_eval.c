/* evaluates the C size specification on PDUs given as hex lines (wire format); one reply line per input: 1 / 0 */
#include <stdio.h>
#include <stdlib.h>
#include <string.h>
#include "size_spec.h"

int main(void)
{
	static char line[20000];
	static unsigned char b[8192];

	while (fgets(line, sizeof(line), stdin)) {
		size_t n = 0;
		char *p = line;

		memset(b, 0, sizeof(b));
		while (p[0] && p[1] && p[0] != '\n' && n < sizeof(b) / 2) {
			unsigned int v;

			if (sscanf(p, "%2x", &v) != 1)
				break;
			b[n++] = (unsigned char)v;
			p += 2;
		}
		if (n < 8) {
			puts("bad-op");
			continue;
		}
		uint32_t len = ((uint32_t)b[4] << 24) | ((uint32_t)b[5] << 16) | ((uint32_t)b[6] << 8) | b[7];
		puts(spec_known_size(b, len, b[0], b[1]) ? "1" : "0");
	}
	return 0;
}
