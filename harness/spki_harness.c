/*
 * Implementation-side executor of the router-key table line protocol (C10; reusable by C18).
 * ht-spkitable.c is #included (and excluded from the separately compiled sources) so that the
 * private `struct key_entry` and the inline tommy accessors are the repo's own declarations:
 * no mirrored layout.  Protocol: see lean/Driver/Spki.lean.
 *
 * Besides the table API the harness reaches the two halves of the mechanism "hash on AS, full compare on
 * (AS, SKI, key, source)" separately:
 *   cmp <rec> <rec>          the static key_entry_cmp() itself on two entries (0 = equal, 1 = different)
 *   fnew | fadd H <rec> | fget H <rec> | frm H <rec> | fhl | fbuckets
 *                            a tommy_hashlin of its own, driven through the real tommy_hashlin_search / _insert /
 *                            _remove with key_entry_cmp as comparison function and a hash value H CHOSEN by the
 *                            history (8 hex digits) - what a full 32-bit hash collision between different records
 *                            looks like to the table, without having to find one.
 */
#define _GNU_SOURCE
#include "rtrlib/spki/hashtable/ht-spkitable.c"

#include "rtrlib/rtr/rtr.h"

#include <ctype.h>
#include <stdbool.h>
#include <stdio.h>
#include <stdlib.h>
#include <string.h>

#define NTAB 4
#define NSRC 16
static struct spki_table tabs[NTAB];
static bool has_cb[NTAB];
static struct rtr_socket socks[NSRC];

static char *logbuf[NTAB];
static size_t loglen[NTAB], logcap[NTAB];

static void logappend(int t, const char *s)
{
	size_t n = strlen(s);

	if (loglen[t] + n + 2 > logcap[t]) {
		logcap[t] = (loglen[t] + n + 2) * 2;
		logbuf[t] = realloc(logbuf[t], logcap[t]);
	}
	memcpy(logbuf[t] + loglen[t], s, n + 1);
	loglen[t] += n;
}

static int srcid(const struct rtr_socket *s)
{
	if (s >= socks && s < socks + NSRC)
		return (int)(s - socks);
	return 999;
}

/* minimal lowercase hex of a big-endian byte string ("0" for zero) */
static void fmt_hex(char *out, const uint8_t *b, size_t n)
{
	size_t i = 0, k = 0;

	while (i < n && b[i] == 0)
		i++;
	if (i == n) {
		strcpy(out, "0");
		return;
	}
	if (b[i] >> 4)
		k += sprintf(out + k, "%02x", b[i]);
	else
		k += sprintf(out + k, "%x", b[i]);
	for (i++; i < n; i++)
		k += sprintf(out + k, "%02x", b[i]);
}

#define RECBUF (16 + 2 * SKI_SIZE + 2 * SPKI_SIZE + 16)

static void fmt_fields(char *out, uint32_t asn, const uint8_t *ski, const uint8_t *spki, const struct rtr_socket *so)
{
	char a[2 * SKI_SIZE + 1], b[2 * SPKI_SIZE + 1];

	fmt_hex(a, ski, SKI_SIZE);
	fmt_hex(b, spki, SPKI_SIZE);
	snprintf(out, RECBUF, "%u:%s:%s:%d", asn, a, b, srcid(so));
}

static void fmt_rec(char *out, const struct spki_record *r)
{
	fmt_fields(out, r->asn, r->ski, r->spki, r->socket);
}

static void update_cb(struct spki_table *p, const struct spki_record rec, const bool added)
{
	char b[RECBUF], c[RECBUF + 4];
	int t = (int)(p - tabs);

	fmt_rec(b, &rec);
	snprintf(c, sizeof(c), " %c%s", added ? '+' : '-', b);
	logappend(t, c);
}

static int hexval(int c)
{
	if (c >= '0' && c <= '9')
		return c - '0';
	if (c >= 'a' && c <= 'f')
		return c - 'a' + 10;
	if (c >= 'A' && c <= 'F')
		return c - 'A' + 10;
	return -1;
}

/* hex of 1..2*n digits, left-padded with zeros, into n big-endian bytes */
static bool parse_hex(const char *hex, uint8_t *out, size_t n)
{
	size_t len = strlen(hex);

	if (len == 0 || len > 2 * n)
		return false;
	memset(out, 0, n);
	for (size_t i = 0; i < len; i++) {
		int v = hexval(hex[len - 1 - i]);

		if (v < 0)
			return false;
		out[n - 1 - i / 2] |= (uint8_t)(v << (4 * (i % 2)));
	}
	return true;
}

static bool parse_uint(const char *s, unsigned long max, unsigned long *out)
{
	char *end;

	if (!*s || strlen(s) > 10)
		return false;
	for (const char *p = s; *p; p++)
		if (!isdigit((unsigned char)*p))
			return false;
	*out = strtoul(s, &end, 10);
	return *end == 0 && *out <= max;
}

static bool parse_rec(char **w, int n, struct spki_record *r)
{
	unsigned long asn, src;

	if (n != 4)
		return false;
	memset(r, 0, sizeof(*r));
	if (!parse_uint(w[0], 0xffffffffUL, &asn) || !parse_hex(w[1], r->ski, SKI_SIZE) ||
	    !parse_hex(w[2], r->spki, SPKI_SIZE) || !parse_uint(w[3], NSRC - 1, &src))
		return false;
	r->asn = (uint32_t)asn;
	r->socket = &socks[src];
	return true;
}

/* ---------------------------------------------------------------- forced-hash table */
static tommy_hashlin fh;
static bool fh_live;

static void fh_free_entry(void *e)
{
	free(e);
}

static void fh_reset(void)
{
	if (fh_live) {
		tommy_hashlin_foreach(&fh, fh_free_entry);
		tommy_hashlin_done(&fh);
	}
	tommy_hashlin_init(&fh);
	fh_live = true;
}

static bool parse_hash(const char *s, tommy_hash_t *out)
{
	uint8_t b[4];

	if (strlen(s) != 8 || !parse_hex(s, b, 4))
		return false;
	*out = ((tommy_hash_t)b[0] << 24) | ((tommy_hash_t)b[1] << 16) | ((tommy_hash_t)b[2] << 8) | b[3];
	return true;
}

static void print_entry(const struct key_entry *e)
{
	char b[RECBUF];

	fmt_fields(b, e->asn, e->ski, e->spki, e->socket);
	printf("%s", b);
}

static void print_hl(tommy_hashlin *h)
{
	printf("hl count=%u bit=%u max=%u mask=%u lowmax=%u lowmask=%u split=%u state=%u\n", h->count, h->bucket_bit,
	       h->bucket_max, h->bucket_mask, h->low_max, h->low_mask, h->split, h->state);
}

/* keyok: whether the stored key must be the table's hash of the entry (not for the forced-hash table) */
static void print_buckets(tommy_hashlin *h, bool keyok)
{
	tommy_count_t valid = h->low_max + h->split;

	printf("buckets");
	for (tommy_count_t pos = 0; pos < valid; pos++) {
		tommy_hashlin_node *node = *tommy_hashlin_pos(h, pos);
		bool first = true;

		if (!node)
			continue;
		printf(" %u:[", pos);
		while (node) {
			struct key_entry *e = node->data;
			char b[RECBUF];

			fmt_fields(b, e->asn, e->ski, e->spki, e->socket);
			/* the stored key must be the hash of the entry's AS number */
			if (keyok && (node->key != tommy_inthash_u32(e->asn) || node != &e->hash_node))
				printf("BADKEY ");
			printf("%s%s", first ? "" : ",", b);
			first = false;
			node = node->next;
		}
		printf("]");
	}
	printf("\n");
}

static int tabidx(const char *s)
{
	unsigned long t;

	if (!parse_uint(s, NTAB - 1, &t))
		return -1;
	return (int)t;
}

static void table_init(int t, bool cb)
{
	spki_table_init(&tabs[t], cb ? update_cb : NULL);
	has_cb[t] = cb;
}

static void print_result(int rc, struct spki_record *res, unsigned int n)
{
	printf("%d %u", rc, n);
	for (unsigned int i = 0; i < n; i++) {
		char b[RECBUF];

		fmt_rec(b, &res[i]);
		printf(" %s", b);
	}
	printf("\n");
	lrtr_free(res);
}

int main(void)
{
	char *line = NULL;
	size_t cap = 0;

	setvbuf(stdout, NULL, _IOLBF, 0);
	for (int i = 0; i < NTAB; i++)
		table_init(i, true);

	while (getline(&line, &cap, stdin) > 0) {
		char *w[16];
		int n = 0;
		int t = -1, t2 = -1;

		for (char *tok = strtok(line, " \t\r\n"); tok && n < 16; tok = strtok(NULL, " \t\r\n"))
			w[n++] = tok;
		if (n == 0) {
			puts("bad-op");
			continue;
		}
		if (n >= 2)
			t = tabidx(w[1]);
		if (n >= 3)
			t2 = tabidx(w[2]);
		if ((!strcmp(w[0], "new") || !strcmp(w[0], "newnocb")) && n == 2 && t >= 0) {
			spki_table_free_without_notify(&tabs[t]);
			table_init(t, !strcmp(w[0], "new"));
			loglen[t] = 0;
			if (logbuf[t])
				logbuf[t][0] = 0;
			puts("ok");
		} else if ((!strcmp(w[0], "add") || !strcmp(w[0], "rm")) && n == 6 && t >= 0) {
			struct spki_record r;

			if (!parse_rec(w + 2, 4, &r)) {
				puts("bad-op");
				continue;
			}
			if (!strcmp(w[0], "add"))
				printf("%d\n", spki_table_add_entry(&tabs[t], &r));
			else
				printf("%d\n", spki_table_remove_entry(&tabs[t], &r));
		} else if (!strcmp(w[0], "srcrm") && n == 3 && t >= 0) {
			unsigned long src;

			if (!parse_uint(w[2], NSRC - 1, &src)) {
				puts("bad-op");
				continue;
			}
			printf("%d\n", spki_table_src_remove(&tabs[t], &socks[src]));
		} else if (!strcmp(w[0], "get") && n == 4 && t >= 0) {
			unsigned long asn;
			uint8_t ski[SKI_SIZE];
			struct spki_record *res = NULL;
			unsigned int rn = 0;
			int rc;

			if (!parse_uint(w[2], 0xffffffffUL, &asn) || !parse_hex(w[3], ski, SKI_SIZE)) {
				puts("bad-op");
				continue;
			}
			rc = spki_table_get_all(&tabs[t], (uint32_t)asn, ski, &res, &rn);
			print_result(rc, res, rn);
		} else if (!strcmp(w[0], "byski") && n == 3 && t >= 0) {
			uint8_t ski[SKI_SIZE];
			struct spki_record *res = NULL;
			unsigned int rn = 0;
			int rc;

			if (!parse_hex(w[2], ski, SKI_SIZE)) {
				puts("bad-op");
				continue;
			}
			rc = spki_table_search_by_ski(&tabs[t], ski, &res, &rn);
			print_result(rc, res, rn);
		} else if (!strcmp(w[0], "copyx") && n == 4 && t >= 0 && t2 >= 0 && t != t2) {
			unsigned long src;

			if (!parse_uint(w[3], NSRC - 1, &src)) {
				puts("bad-op");
				continue;
			}
			printf("%d\n", spki_table_copy_except_socket(&tabs[t], &tabs[t2], &socks[src]));
		} else if (!strcmp(w[0], "swap") && n == 3 && t >= 0 && t2 >= 0 && t != t2) {
			spki_table_swap(&tabs[t], &tabs[t2]);
			puts("ok");
		} else if (!strcmp(w[0], "diff") && n == 4 && t >= 0 && t2 >= 0 && t != t2) {
			unsigned long src;

			if (!parse_uint(w[3], NSRC - 1, &src)) {
				puts("bad-op");
				continue;
			}
			spki_table_notify_diff(&tabs[t], &tabs[t2], &socks[src]);
			puts("ok");
		} else if ((!strcmp(w[0], "free") || !strcmp(w[0], "freenn")) && n == 2 && t >= 0) {
			bool cb = has_cb[t];

			if (!strcmp(w[0], "free"))
				spki_table_free(&tabs[t]);
			else
				spki_table_free_without_notify(&tabs[t]);
			table_init(t, cb);
			puts("ok");
		} else if (!strcmp(w[0], "hl") && n == 2 && t >= 0) {
			print_hl(&tabs[t].hashtable);
		} else if (!strcmp(w[0], "buckets") && n == 2 && t >= 0) {
			print_buckets(&tabs[t].hashtable, true);
		} else if (!strcmp(w[0], "cmp") && n == 9) {
			struct spki_record ra, rb;
			struct key_entry ea, eb;

			if (!parse_rec(w + 1, 4, &ra) || !parse_rec(w + 5, 4, &rb)) {
				puts("bad-op");
				continue;
			}
			memset(&ea, 0, sizeof(ea));
			memset(&eb, 0, sizeof(eb));
			spki_record_to_key_entry(&ra, &ea);
			spki_record_to_key_entry(&rb, &eb);
			printf("%d\n", key_entry_cmp(&ea, &eb) != 0);
		} else if (!strcmp(w[0], "fnew") && n == 1) {
			fh_reset();
			puts("ok");
		} else if ((!strcmp(w[0], "fadd") || !strcmp(w[0], "fget") || !strcmp(w[0], "frm")) && n == 6) {
			struct spki_record r;
			struct key_entry probe;
			tommy_hash_t hash;

			if (!parse_hash(w[1], &hash) || !parse_rec(w + 2, 4, &r)) {
				puts("bad-op");
				continue;
			}
			if (!fh_live)
				fh_reset();
			memset(&probe, 0, sizeof(probe));
			spki_record_to_key_entry(&r, &probe);
			if (!strcmp(w[0], "fadd")) {
				/* the sequence of spki_table_add_entry with the hash replaced */
				if (tommy_hashlin_search(&fh, key_entry_cmp, &probe, hash)) {
					printf("%d\n", SPKI_DUPLICATE_RECORD);
				} else {
					struct key_entry *e = malloc(sizeof(*e));

					memcpy(e, &probe, sizeof(*e));
					tommy_hashlin_insert(&fh, &e->hash_node, e, hash);
					printf("%d\n", SPKI_SUCCESS);
				}
			} else if (!strcmp(w[0], "fget")) {
				struct key_entry *e = tommy_hashlin_search(&fh, key_entry_cmp, &probe, hash);

				if (e) {
					printf("1 ");
					print_entry(e);
					printf("\n");
				} else {
					puts("0");
				}
			} else {
				struct key_entry *e = tommy_hashlin_remove(&fh, key_entry_cmp, &probe, hash);

				if (e) {
					printf("1 ");
					print_entry(e);
					printf("\n");
					free(e);
				} else {
					puts("0");
				}
			}
		} else if (!strcmp(w[0], "fhl") && n == 1) {
			if (!fh_live)
				fh_reset();
			print_hl(&fh);
		} else if (!strcmp(w[0], "fbuckets") && n == 1) {
			if (!fh_live)
				fh_reset();
			print_buckets(&fh, false);
		} else if (!strcmp(w[0], "list") && n == 2 && t >= 0) {
			printf("list");
			for (tommy_node *node = tommy_list_head(&tabs[t].list); node; node = node->next) {
				struct key_entry *e = node->data;
				char b[RECBUF];

				fmt_fields(b, e->asn, e->ski, e->spki, e->socket);
				printf(" %s", b);
			}
			printf("\n");
		} else if (!strcmp(w[0], "log") && n == 2 && t >= 0) {
			printf("log%s\n", loglen[t] ? logbuf[t] : "");
			loglen[t] = 0;
			if (logbuf[t])
				logbuf[t][0] = 0;
		} else if (!strcmp(w[0], "hash") && n == 2) {
			unsigned long asn;

			if (!parse_uint(w[1], 0xffffffffUL, &asn)) {
				puts("bad-op");
				continue;
			}
			printf("%08x\n", tommy_inthash_u32((uint32_t)asn));
		} else {
			puts("bad-op");
		}
	}
	if (fh_live) {
		tommy_hashlin_foreach(&fh, fh_free_entry);
		tommy_hashlin_done(&fh);
	}
	fflush(stdout);
	free(line);
	return 0;
}
