/*
 * Implementation-side executor of the byte-order conversion line protocol (C14: "an encapsulated
 * copy that is a byte-exact prefix of the offending PDU as it was received").
 *
 * The real packets.c is #included, so the real static functions
 *   rtr_pdu_header_to_host_byte_order / rtr_pdu_footer_to_host_byte_order   (what rtr_receive_pdu does)
 *   rtr_pdu_to_network_byte_order                                           (rtr_send_pdu, rtr_send_error_pdu_from_host)
 *   rtr_pdu_header_to_network_byte_order                                    (rtr_send_error_pdu_from_host, 8-byte case)
 * run unchanged on a heap buffer of exactly the given size (ASan sees any access beyond it).
 *
 *   tohost   <hex>   header to host order, then footer to host order
 *   tonet    <hex>   rtr_pdu_to_network_byte_order
 *   hdr2host <hex>   rtr_pdu_header_to_host_byte_order
 *   hdr2net  <hex>   rtr_pdu_header_to_network_byte_order
 * reply: hex of the buffer afterwards; `bad-op` for anything else, including a buffer shorter than
 * the fields the function would touch (same rule as Rtr.Conv.needLen of the model).
 */
#define _GNU_SOURCE
#include "rtrlib/rtr/packets.c"

#include <ctype.h>
#include <stddef.h>
#include <stdio.h>
#include <stdlib.h>
#include <string.h>

static int hexval(int c)
{
	if (c >= '0' && c <= '9')
		return c - '0';
	if (c >= 'a' && c <= 'f')
		return c - 'a' + 10;
	if (c >= 'A' && c <= 'F')
		return c - 'A' + 10;
	return -1;
}

static uint32_t rd_be32(const uint8_t *p)
{
	return ((uint32_t)p[0] << 24) | ((uint32_t)p[1] << 16) | ((uint32_t)p[2] << 8) | p[3];
}

static uint32_t rd_le32(const uint8_t *p)
{
	return ((uint32_t)p[3] << 24) | ((uint32_t)p[2] << 16) | ((uint32_t)p[1] << 8) | p[0];
}

/* number of bytes rtr_pdu_convert_footer_byte_order touches at most */
static uint64_t footer_need(const uint8_t *b, size_t len, int to_host)
{
	switch (b[1]) {
	case SERIAL_QUERY:
		return offsetof(struct pdu_serial_query, sn) + 4;
	case ERROR:
		if (len < offsetof(struct pdu_error, len_enc_pdu) + 4)
			return offsetof(struct pdu_error, len_enc_pdu) + 4;
		return (uint64_t)offsetof(struct pdu_error, rest) +
		       (to_host ? rd_be32(b + offsetof(struct pdu_error, len_enc_pdu)) :
				  rd_le32(b + offsetof(struct pdu_error, len_enc_pdu))) +
		       4;
	case SERIAL_NOTIFY:
		return offsetof(struct pdu_serial_notify, sn) + 4;
	case EOD:
		return b[0] == RTR_PROTOCOL_VERSION_1 ? sizeof(struct pdu_end_of_data_v1) :
							sizeof(struct pdu_end_of_data_v0);
	case IPV4_PREFIX:
		return sizeof(struct pdu_ipv4);
	case IPV6_PREFIX:
		return sizeof(struct pdu_ipv6);
	case ROUTER_KEY:
		return offsetof(struct pdu_router_key, asn) + 4;
	default:
		return 0;
	}
}

int main(void)
{
	char *line = NULL;
	size_t cap = 0;

	while (getline(&line, &cap, stdin) > 0) {
		char op[32];
		char *p = line;
		size_t n = 0;

		while (*p && isspace((unsigned char)*p))
			p++;
		while (*p && !isspace((unsigned char)*p) && n + 1 < sizeof(op))
			op[n++] = *p++;
		op[n] = 0;
		if (*p && !isspace((unsigned char)*p)) {
			puts("bad-op");
			continue;
		}
		while (*p && isspace((unsigned char)*p))
			p++;
		char *h = p;

		while (*p && !isspace((unsigned char)*p))
			p++;
		size_t hl = (size_t)(p - h);

		while (*p && isspace((unsigned char)*p))
			p++;
		int kind = !strcmp(op, "tohost") ? 0 : !strcmp(op, "tonet") ? 1 : !strcmp(op, "hdr2host") ? 2 :
			   !strcmp(op, "hdr2net") ? 3 : -1;

		if (kind < 0 || *p || hl == 0 || hl % 2 != 0 || hl / 2 > 65536) {
			puts("bad-op");
			continue;
		}
		size_t len = hl / 2;
		uint8_t *buf = malloc(len);
		int ok = 1;

		for (size_t i = 0; i < len; i++) {
			int a = hexval(h[2 * i]), b = hexval(h[2 * i + 1]);

			if (a < 0 || b < 0) {
				ok = 0;
				break;
			}
			buf[i] = (uint8_t)(a * 16 + b);
		}
		uint64_t need = sizeof(struct pdu_header);

		if (ok && len >= 2 && kind <= 1) {
			uint64_t f = footer_need(buf, len, kind == 0);

			if (f > need)
				need = f;
		}
		if (!ok || len < need) {
			puts("bad-op");
			free(buf);
			continue;
		}
		switch (kind) {
		case 0:
			rtr_pdu_header_to_host_byte_order(buf);
			rtr_pdu_footer_to_host_byte_order(buf);
			break;
		case 1:
			rtr_pdu_to_network_byte_order(buf);
			break;
		case 2:
			rtr_pdu_header_to_host_byte_order(buf);
			break;
		default:
			rtr_pdu_header_to_network_byte_order(buf);
			break;
		}
		for (size_t i = 0; i < len; i++)
			printf("%02x", buf[i]);
		putchar('\n');
		free(buf);
	}
	fflush(stdout);
	free(line);
	return 0;
}
